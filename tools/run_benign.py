#!/usr/bin/env python3
"""tools/run_benign.py <patch.diff> <PROP>[,PROP...]  — false-alarm test: apply a behaviour-preserving refactoring to /repo, run the quick
check(s), undo.  A VIOLATION line or a non-zero exit is a FALSE ALARM of the machinery (exit 1 here); undecided obligations are listed."""
import sys, os, json, subprocess, time
ROOT = os.path.dirname(os.path.dirname(os.path.abspath(__file__)))
patch, props = sys.argv[1], sys.argv[2].split(",")
def sh(cmd, cwd=None):
    p = subprocess.run(cmd, shell=True, cwd=cwd, capture_output=True, text=True)
    return p.returncode, p.stdout + p.stderr
assert sh("git status --porcelain", "/repo")[1].strip() == "", "/repo is not clean"
rc, out = sh(f"git apply --check {patch}", "/repo")
if rc != 0:
    print("patch does not apply:", out); sys.exit(2)
sh(f"git apply {patch}", "/repo")
bad = False
res = []
try:
    rct, outt = sh("/venv/bin/python -m pytest -q -p no:cacheprovider 2>&1 | tail -1", "/repo")
    for c in props:
        t0 = time.time()
        rcc, outc = sh(f"./check {c} --tier quick", ROOT)
        viol = [l for l in outc.splitlines() if l.startswith("VIOLATION") or l.startswith("ENGINE")]
        summ = [l for l in outc.splitlines() if l.startswith(c + ":")]
        und = []
        try:
            und = [u["id"] for u in json.load(open(os.path.join(ROOT, "evidence", f"{c}.json")))["coverage"].get("undecided", [])]
        except Exception:
            pass
        res.append({"check": c, "exit": rcc, "violations": viol[:5], "summary": summ[-1:] , "undecided": und[:8], "wall_s": round(time.time() - t0, 1)})
        if rcc != 0 or viol:
            bad = True
finally:
    sh("git checkout -- .", "/repo")
assert sh("git status --porcelain", "/repo")[1].strip() == ""
print(json.dumps({"patch": patch, "tests": outt.strip(), "false_alarm": bad, "runs": res}, indent=1))
sys.exit(1 if bad else 0)
