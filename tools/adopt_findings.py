#!/usr/bin/env python3
"""Maintenance tool (never run by a check): add the failures of build/<P>.bounded.json that are not yet listed to
known_findings.json, after they have been triaged by hand as genuine defects that are not repaired."""
import json, sys, os
ROOT = os.path.dirname(os.path.dirname(os.path.abspath(__file__)))
prop = sys.argv[1]
only = set(sys.argv[2:])
k = json.load(open(os.path.join(ROOT, "known_findings.json")))
b = json.load(open(os.path.join(ROOT, "build", f"{prop}.bounded.json")))
have = {f["key"] for f in k["findings"]}
for f in b["failures"]:
    if f["key"] in have or (only and f["key"] not in only):
        continue
    text = f"{f.get('function','')}: {f.get('clause','')} — witness {json.dumps(f.get('witness'), default=str)[:400]}; observed {str(f.get('observed'))[:200]}, required {str(f.get('required'))[:200]}"
    k["findings"].append({"property": prop, "key": f["key"], "witness_class": f["key"].split(":", 1)[1], "witness": f.get("witness"), "text": text})
    print("added", f["key"])
json.dump(k, open(os.path.join(ROOT, "known_findings.json"), "w"), indent=1, default=str)
