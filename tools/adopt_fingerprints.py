#!/usr/bin/env python3
"""tools/adopt_fingerprints.py <PROP> <quick|thorough>   (MAINTENANCE ONLY, never run by a check)
Runs the bounded stand-in of <PROP> on the CLEAN, committed /repo tree (refuses otherwise) and records, for every failure class that is a
recorded known finding, the fingerprints of the inputs that fail, into known_fingerprints/<PROP>.json under the tier (replacing that
tier's record).  Only complete enumerations are adopted; the /repo commit is recorded."""
import sys, os, json, subprocess
ROOT = os.path.dirname(os.path.dirname(os.path.abspath(__file__)))
prop, tier = sys.argv[1], sys.argv[2]
st = subprocess.run("git -C /repo status --porcelain", shell=True, capture_output=True, text=True).stdout.strip()
if st:
    sys.exit("refusing: /repo working tree is not clean:\n" + st)
head = subprocess.run("git -C /repo rev-parse HEAD", shell=True, capture_output=True, text=True).stdout.strip()
out = os.path.join(ROOT, "build", f"{prop}.adopt.json")
env = dict(os.environ, PYTHONPATH=ROOT, MPLBACKEND="Agg", VERIF_ADOPT_BUDGET_S="3000")
subprocess.run(["/venv/bin/python", os.path.join(ROOT, "bounded", prop.lower() + ".py"), "--tier", tier, "--seed", "0", "--out", out],
               cwd=ROOT, env=env, check=True, capture_output=True)
st2 = subprocess.run("git -C /repo status --porcelain", shell=True, capture_output=True, text=True).stdout.strip()
if st2:
    sys.exit("refusing: /repo changed during the run")
b = json.load(open(out))
known = {f["key"] for f in json.load(open(os.path.join(ROOT, "known_findings.json")))["findings"] if f["property"] == prop}
path = os.path.join(ROOT, "known_fingerprints", f"{prop}.json")
os.makedirs(os.path.dirname(path), exist_ok=True)
allt = json.load(open(path)) if os.path.exists(path) else {}
cur = {}
ok = True
for fl in b["failures"]:
    inst = fl.get("instances")
    if fl["key"] not in known:
        print("not a recorded finding (not adopted):", fl["key"]); continue
    if not inst:
        continue
    if not inst.get("complete"):
        print("INCOMPLETE enumeration:", fl["key"]); ok = False; continue
    cur[fl["key"]] = sorted(set(inst["fps"]))
if not ok:
    sys.exit("nothing recorded: run again when the machine is idle (the deterministic families were cut by the deadline)")
allt[tier] = cur
allt.setdefault("recorded_on", {})[tier] = head
json.dump(allt, open(path, "w"), indent=0, sort_keys=True)
for f in (out, out[:-5] + ".instances.json"):
    if os.path.exists(f):
        os.unlink(f)
print(f"{prop} [{tier}] @ {head[:7]}: {len(cur)} classes, {sum(len(v) for v in cur.values())} fingerprints")
