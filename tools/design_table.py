#!/usr/bin/env python3
"""prints the table of DESIGN.md section 1 from the evidence files (so that the document states what the last run measured)"""
import json, os, glob
ROOT = os.path.dirname(os.path.dirname(os.path.abspath(__file__)))
kf = json.load(open(os.path.join(ROOT, "known_findings.json")))
nk = {}
for f in kf["findings"]:
    nk[f["property"]] = nk.get(f["property"], 0) + 1
print("| id | P: functions under contract (verified) | lemmas | obligations discharged | assumed contracts used | B evaluations | KF | level |")
print("|----|----|----|----|----|----|----|----|")
for p in sorted(glob.glob(os.path.join(ROOT, "evidence", "C*.json"))):
    e = json.load(open(p)); c = e["coverage"]
    fns = [f for f in c.get("functions_under_contract", []) if f["status"] == "ok" and not f["name"].startswith("lemma:")]
    names = sorted({f["name"] for f in fns})
    lem = [n.replace("lemma:", "") for n in c.get("lemmas", [])]
    assumed = [t.replace("assumed contract: ", "") for t in c.get("trusted_base", []) if t.startswith("assumed contract: ")]
    print(f"| {e['property_id']} | {', '.join('`'+n+'`' for n in names) or '–'} | {', '.join(lem) or '–'} | {c.get('discharged',0)}/{c.get('obligations',0)} | "
          f"{', '.join('`'+a+'`' for a in assumed) or '–'} | {c.get('evaluations','–')} | {nk.get(e['property_id'],0)} | {e['level']} |")
