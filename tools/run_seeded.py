#!/usr/bin/env python3
"""tools/run_seeded.py <seed dir with patch.diff, demo.py[, notes.md]> <PROP> <name> [--checks C01,C05]
Confirms a seeded change (demo passes without / fails with; test-suite still passes with it), runs the registered quick check(s)
against it in /repo (git apply ... git checkout -- .), and files it under /verif/seeded/<PROP>-<name>/ with meta.json."""
import sys, os, json, subprocess, shutil, time
ROOT = os.path.dirname(os.path.dirname(os.path.abspath(__file__)))
src, prop, name = sys.argv[1:4]
checks = [prop]
if "--checks" in sys.argv:
    checks = sys.argv[sys.argv.index("--checks") + 1].split(",")
patch = os.path.join(src, "patch.diff")
demo = os.path.join(src, "demo.py")
def sh(cmd, cwd=None, timeout=3600):
    p = subprocess.run(cmd, shell=True, cwd=cwd, capture_output=True, text=True, timeout=timeout)
    return p.returncode, (p.stdout + p.stderr)
assert sh("git status --porcelain", "/repo")[1].strip() == "", "/repo is not clean"
meta = {"property": prop, "name": name, "ran": []}
rc0, out0 = sh(f"/venv/bin/python {demo}", "/repo")
meta["demo_without_change"] = rc0
rc, out = sh(f"git apply --check {patch}", "/repo")
if rc != 0:
    print("patch does not apply:", out); sys.exit(2)
sh(f"git apply {patch}", "/repo")
try:
    rc1, out1 = sh(f"/venv/bin/python {demo}", "/repo")
    meta["demo_with_change"] = rc1
    meta["demo_output_with_change"] = out1[-600:]
    rct, outt = sh("/venv/bin/python -m pytest -q -p no:cacheprovider 2>&1 | tail -1", "/repo")
    meta["tests_with_change"] = outt.strip()
    for c in checks:
        t0 = time.time()
        rcc, outc = sh(f"./check {c} --tier quick", ROOT)
        lines = [l for l in outc.splitlines() if l.startswith("VIOLATION") or l.startswith("ENGINE") or l.startswith(c + ":")]
        meta["ran"].append({"cmd": f"./check {c} --tier quick", "exit": rcc, "wall_s": round(time.time() - t0, 1), "lines": lines[:12]})
        print(c, "exit", rcc, lines[:6])
finally:
    sh("git checkout -- .", "/repo")
assert sh("git status --porcelain", "/repo")[1].strip() == ""
meta["confirmed"] = (rc0 == 0 and meta.get("demo_with_change", 0) != 0 and "61 passed" in meta.get("tests_with_change", ""))
meta["detected_by"] = [r["cmd"].split()[1] for r in meta["ran"] if r["exit"] == 1]
dst = os.path.join(ROOT, "seeded", f"{prop}-{name}")
os.makedirs(dst, exist_ok=True)
same = os.path.abspath(src) == os.path.abspath(dst)
if not same:
    shutil.copy(patch, os.path.join(dst, "patch.diff"))
    shutil.copy(demo, os.path.join(dst, "demo.py"))
if os.path.exists(os.path.join(src, "notes.md")):
    if not same:
        shutil.copy(os.path.join(src, "notes.md"), os.path.join(dst, "notes.md"))
    meta["needs_to_manifest"] = open(os.path.join(src, "notes.md")).read()[:1500]
old = json.load(open(os.path.join(dst, "meta.json"))) if os.path.exists(os.path.join(dst, "meta.json")) else None
if old is not None:
    meta["history"] = old.get("history", []) + [{"detected_by": old.get("detected_by"), "ran": old.get("ran")}]
json.dump(meta, open(os.path.join(dst, "meta.json"), "w"), indent=1)
print("confirmed" if meta["confirmed"] else "NOT CONFIRMED", "| detected by", meta["detected_by"], "| demo", rc0, "->", meta.get("demo_with_change"), "|", meta.get("tests_with_change"))
