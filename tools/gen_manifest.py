#!/usr/bin/env python3
"""Regenerate MANIFEST.json from properties_cfg.json (claimed checks) and properties.jsonl."""
import json, os
ROOT = os.path.dirname(os.path.dirname(os.path.abspath(__file__)))
cfg = json.load(open(os.path.join(ROOT, "properties_cfg.json")))
props = [json.loads(l) for l in open(os.path.join(ROOT, "properties.jsonl"))]
na = json.load(open(os.path.join(ROOT, "not_applicable.json"))) if os.path.exists(os.path.join(ROOT, "not_applicable.json")) else {}
checks, not_app = [], []
for p in props:
    pid = p["id"]
    c = cfg.get(pid)
    if c is None or c.get("claimed") is False:
        not_app.append({"property_id": pid, "reason": na.get(pid, "no check registered yet for this property in this revision of /verif (see DESIGN.md for the plan)")})
        continue
    checks.append({
        "property_id": pid,
        "quick_cmd": f"./check {pid} --tier quick",
        "thorough_cmd": f"./check {pid} --tier thorough",
        "evidence_file": f"evidence/{pid}.json",
        "replay_cmd_template": f"./check {pid} --replay {{path}}",
        "engine": "pyvc",
        "level_claimed": {"category": c["level"], "text": c.get("text", c.get("explanation", "")), "design_ref": c.get("design_ref", "DESIGN.md section 1 (table row) and section 10, " + pid)},
        "level_note": c.get("note", "; ".join(c.get("trusted_base", []))),
        "technique": c.get("technique", "contract-based deductive verification: VCs generated from the real source (ast), discharged by z3/cvc5"),
    })
man = {
    "version": 1,
    "setup_cmd": "mkdir -p build evidence replays && python3-vt -c 'import z3' && /venv/bin/python -c 'import qce_circuit'",
    "hooks": {"guard": "QCOCIRCUITS_VERIF", "enable": "no hooks are needed: contracts are sidecars, bounded stand-ins monkey-patch inside their own process",
              "baseline_off_cmd": "cd /repo && /venv/bin/python -m pytest -ra -q -p no:cacheprovider --timeout=900 --continue-on-collection-errors",
              "source_commits": [],
              "add_only": True},
    "engines": [{"name": "pyvc", "path": "pyvc/", "serves_properties": [c["property_id"] for c in checks],
                 "kind_free_text": "own VC generator: real function source (inspect.getsource on every run) -> symbolic execution over ast -> z3 (cvc5/z3-4.8 fallback); sidecar contracts in contracts/; bounded run-time stand-ins in bounded/"}],
    "checks": checks,
    "not_applicable": not_app,
    "notes": "exit 0 held / 1 violation / 3 engine error; undecided obligations never raise a violation (see DESIGN.md 3.6)",
}
json.dump(man, open(os.path.join(ROOT, "MANIFEST.json"), "w"), indent=1)
print(f"MANIFEST: {len(checks)} checks, {len(not_app)} not_applicable")
