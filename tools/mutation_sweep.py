#!/usr/bin/env python3
"""tools/mutation_sweep.py <PROP> [--max N] [--timeout ms]   (run with python3-vt; diagnostic, not a check)
Contract-strength sweep: generates simple syntactic mutants of every function under a VERIFIED contract of <PROP> (comparison / boolean /
arithmetic operator swaps, off-by-one on integer constants, negated conditions, deleted statements, swapped call arguments), re-verifies
the mutated source text in memory and classifies each mutant: refuted (the contract notices), undecided (solver unknown / out of the
subset: the bounded tier has to decide), SURVIVED (every obligation still proved: the contract does not constrain what was changed, or the
mutant is equivalent).  Survivors are listed so that contracts can be strengthened.  Writes build/sweep.<PROP>.json."""
import sys, os, ast, json, copy, argparse, time
ROOT = os.path.dirname(os.path.dirname(os.path.abspath(__file__)))
sys.path.insert(0, ROOT)
from concurrent.futures import ProcessPoolExecutor

CMP = {ast.Lt: ast.LtE, ast.LtE: ast.Lt, ast.Gt: ast.GtE, ast.GtE: ast.Gt, ast.Eq: ast.NotEq, ast.NotEq: ast.Eq, ast.Is: ast.IsNot, ast.IsNot: ast.Is,
       ast.In: ast.NotIn, ast.NotIn: ast.In}
BIN = {ast.Add: ast.Sub, ast.Sub: ast.Add, ast.Mult: ast.Add}


def mutants(src):
    tree = ast.parse(src)
    fn = tree.body[0]
    out = []
    nodes = [n for n in ast.walk(fn)]
    for idx, n in enumerate(nodes):
        def emit(desc, mutate):
            t2 = copy.deepcopy(tree)
            n2 = [m for m in ast.walk(t2.body[0])][idx]
            try:
                mutate(n2)
                ast.fix_missing_locations(t2)
                out.append((desc, ast.unparse(t2)))
            except Exception:
                pass
        if isinstance(n, ast.Compare) and len(n.ops) == 1 and type(n.ops[0]) in CMP:
            emit(f"line {n.lineno}: {type(n.ops[0]).__name__} -> {CMP[type(n.ops[0])].__name__}", lambda m: m.ops.__setitem__(0, CMP[type(m.ops[0])]()))
        if isinstance(n, ast.BoolOp):
            emit(f"line {n.lineno}: {'and' if isinstance(n.op, ast.And) else 'or'} swapped", lambda m: setattr(m, "op", ast.Or() if isinstance(m.op, ast.And) else ast.And()))
        if isinstance(n, ast.BinOp) and type(n.op) in BIN:
            emit(f"line {n.lineno}: {type(n.op).__name__} -> {BIN[type(n.op)].__name__}", lambda m: setattr(m, "op", BIN[type(m.op)]()))
        if isinstance(n, ast.Constant) and isinstance(n.value, int) and not isinstance(n.value, bool):
            emit(f"line {n.lineno}: constant {n.value} -> {n.value + 1}", lambda m: setattr(m, "value", m.value + 1))
        if isinstance(n, ast.If):
            emit(f"line {n.lineno}: condition negated", lambda m: setattr(m, "test", ast.UnaryOp(op=ast.Not(), operand=m.test)))
        if isinstance(n, ast.UnaryOp) and isinstance(n.op, ast.Not):
            emit(f"line {n.lineno}: 'not' removed", lambda m: (setattr(m, "op", ast.UAdd()) if False else m.__dict__.update(ast.Expr(value=m.operand).value.__dict__) or setattr(m, "__class__", m.operand.__class__)))
        if isinstance(n, ast.Call) and len(n.args) >= 2:
            emit(f"line {n.lineno}: first two call arguments swapped", lambda m: m.args.__setitem__(slice(0, 2), [m.args[1], m.args[0]]))
        if isinstance(n, ast.Call) and len(n.keywords) >= 2 and all(k.arg for k in n.keywords[:2]):
            emit(f"line {n.lineno}: values of keywords {n.keywords[0].arg}/{n.keywords[1].arg} swapped",
                 lambda m: (lambda a, b: (setattr(m.keywords[0], "value", b), setattr(m.keywords[1], "value", a)))(m.keywords[0].value, m.keywords[1].value))
    # statement deletion (replace by pass) for simple statements that are not the last return
    for idx, n in enumerate(nodes):
        if isinstance(n, (ast.Expr, ast.Assign, ast.AugAssign)) and not (isinstance(n, ast.Expr) and isinstance(n.value, ast.Constant)):
            t2 = copy.deepcopy(tree)
            n2 = [m for m in ast.walk(t2.body[0])][idx]
            for parent in ast.walk(t2.body[0]):
                for field in ("body", "orelse", "finalbody"):
                    lst = getattr(parent, field, None)
                    if isinstance(lst, list) and n2 in lst:
                        lst[lst.index(n2)] = ast.Pass()
                        ast.fix_missing_locations(t2)
                        out.append((f"line {n.lineno}: statement deleted", ast.unparse(t2)))
    # de-duplicate
    seen, res = set(), []
    for d, s in out:
        if s not in seen and s != ast.unparse(tree):
            seen.add(s)
            res.append((d, s))
    return res


def run_one(args):
    name, refine_of, prop, desc, new_src, xpath, timeout = args
    from pyvc import prove, verify
    prove.EXTRACT_PATH = xpath
    w = prove.world()
    rec, dq, q = verify.locate(w, name)
    old = (rec["source"], rec["sha"])
    rec["source"], rec["sha"] = new_src, "mut"
    mark = len(w.axioms)
    t0 = time.time()
    try:
        r = verify.verify_function(w, name, prop, timeout, refine_of=refine_of)
    finally:
        rec["source"], rec["sha"] = old
        del w.axioms[mark:]
    obs = [o for o in r.obligations if o["kind"] not in ("cover", "canary")]
    ref = [o["id"].split(":")[-1] for o in obs if o["verdict"] == "refuted"]
    unk = [o["id"].split(":")[-1] for o in obs if o["verdict"] == "unknown"]
    if r.status != "ok":
        verdict = "undecided(out-of-subset)"
    elif ref:
        verdict = "refuted"
    elif unk:
        verdict = "undecided(unknown)"
    else:
        verdict = "SURVIVED"
    return {"function": name, "mutant": desc, "verdict": verdict, "refuted": ref[:4], "unknown": unk[:4], "reason": r.reason[:120], "s": round(time.time() - t0, 1)}


def main():
    ap = argparse.ArgumentParser()
    ap.add_argument("prop")
    ap.add_argument("--max", type=int, default=25, help="mutants per function")
    ap.add_argument("--timeout", type=int, default=8000)
    ap.add_argument("--extract", default=os.path.join(ROOT, "build", "extract.json"))
    ap.add_argument("--only", default=None)
    a = ap.parse_args()
    from pyvc import prove, verify, api
    prove.EXTRACT_PATH = a.extract
    w = prove.world()
    jobs = []
    for kind, name, extra in prove.plan(a.prop):
        if kind != "fn" or (a.only and a.only not in name):
            continue
        try:
            rec, dq, q = verify.locate(w, name)
        except Exception:
            continue
        src = rec["source"]
        # strip decorators (the engine ignores them; ast.unparse would keep them)
        ms = mutants(src)[: a.max]
        for desc, new_src in ms:
            jobs.append((name, extra, a.prop, desc, new_src, a.extract, a.timeout))
    t0 = time.time()
    with ProcessPoolExecutor(max_workers=16, max_tasks_per_child=1) as ex:
        res = list(ex.map(run_one, jobs))
    import collections
    # a function may be verified by several jobs (own contract + refinements of interface contracts): a mutant is noticed if ANY job refutes it
    order = {"refuted": 0, "undecided(unknown)": 1, "undecided(out-of-subset)": 2, "SURVIVED": 3}
    best = {}
    for r in res:
        k = (r["function"].split(":")[0], r["mutant"])
        if k not in best or order[r["verdict"]] < order[best[k]["verdict"]]:
            best[k] = r
    res = list(best.values())
    c = collections.Counter(r["verdict"] for r in res)
    print(f"{a.prop}: {len(res)} mutants:", dict(c), f"{round(time.time() - t0)} s")
    for r in res:
        if r["verdict"] == "SURVIVED":
            print("  SURVIVED", r["function"], "|", r["mutant"])
    json.dump({"property": a.prop, "counts": dict(c), "results": res}, open(os.path.join(ROOT, "build", f"sweep.{a.prop}.json"), "w"), indent=1)


if __name__ == "__main__":
    main()
