"""C18 — drawing: channel order, rows and horizontal placement (real drawing runs are the bounded stand-in's)."""
from pyvc.api import *

P = ["C18"]
observer("IDurationComponent.start_time", params=dict(self=REF("IDurationComponent")), returns=REAL, reads="*")
observer("IDurationComponent.duration", params=dict(self=REF("IDurationComponent")), returns=REAL, reads="*")

# requested channels first, in the requested order, then the remaining occupied channels in their own order;
# an unknown channel in the requested order is rejected
contract("display_circuit.reorder_indices", params=dict(original_order=SEQ(INT), specific_order=SEQ(INT)), returns=SEQ(INT), pure=True, props=P,
         raises={"ValueError": "exists(specific_order, lambda s: not (s in original_order))"},
         ensures=["forall_int(0, len(specific_order), lambda k: k < len(result) and result[k] == specific_order[k])",
                  "forall_int(len(specific_order), len(result), lambda k: (result[k] in original_order) and not (result[k] in specific_order))",
                  "forall(original_order, lambda x: (x in specific_order) or (x in result))",
                  # the remainder keeps the original order
                  "forall_int(len(specific_order), len(result), lambda a: forall_int(len(specific_order), a, lambda b: "
                  "exists_int(0, len(original_order), lambda i: original_order[i] == result[b] and "
                  "exists_int(i, len(original_order), lambda j: original_order[j] == result[a]))))"])

TC = REF("TransformConstructor")
contract("TransformConstructor.identifier_to_pivot",
         params=dict(self=TC, identifier=REF("ChannelIdentifier"), time_component=REF("IDurationComponent")), returns=REF("Vec2D"), pure=True,
         fresh_result=True, props=P,
         requires=["identifier._id in self.channel_indices"],
         ensures=["result.x == time_component.start_time",           # horizontal position = start time
                  # row of the qubit in the requested order (first occurrence), rows go downwards
                  "exists_int(0, len(self.channel_indices), lambda r: self.channel_indices[r] == identifier._id and "
                  "forall_int(0, r, lambda m: self.channel_indices[m] != identifier._id) and result.y == -1 * r * self.channel_spacing)"])
contract("TransformConstructor.identifier_to_width", params=dict(self=TC, time_component=REF("IDurationComponent")), returns=REAL, pure=True, props=P,
         ensures=["result == time_component.duration"])
contract("TransformConstructor.identifier_to_height", params=dict(self=TC, identifier=REF("ChannelIdentifier")), returns=REAL, pure=True, props=P,
         ensures=["result == self.channel_height"])
