"""C06 — applying repetition modifiers: chaining of copies behind the latest leaf, multiplicity at one level, reset of the count."""
from pyvc.api import *

P = ["C06"]
OP = REF("ICircuitOperation")
CCO = REF("CircuitCompositeOperation")
GB = REF("CircuitGraphBranch")
REL_FIELDS = [f"{c}.relation" for c in ["SingleQubitOperation", "TwoQubitOperation", "DispersiveMeasure", "Barrier", "CircuitCompositeOperation"]]
G = "self._circuit_graph"
NODES = f"{G}.get_node_iterator()"

observer("GraphNode.incoming_pointers", params=dict(self=REF("GraphNode")), returns=SEQ(REF("GraphNode")), reads=["graph"])
observer("IRepetitionStrategy.get_repetition_number", params=dict(self=REF("IRepetitionStrategy"), task=OP), returns=INT, reads="*",
         ensures=["not typeis(self, FixedRepetitionStrategy) or result == self.repetitions"])
refines("FixedRepetitionStrategy.get_repetition_number", "IRepetitionStrategy.get_repetition_number", props=P)

# copy of a composite: VERIFIED (loop over the nodes; each child is copied through the interface contract of ICircuitOperation.copy,
# which is the induction hypothesis for nested composites and is implied by the 26 verified per-class copy contracts of C05):
# a fresh composite with as many nodes, whose operations are new and pairwise different; nothing that existed before is touched
NEWG = "result._circuit_graph.get_node_iterator()"
F_G = "forall_obj(CircuitGraphBranch, lambda g: fresh(g) or seq_is(g.get_node_iterator(), old(g.get_node_iterator())))"
F_C = "forall_obj(CircuitCompositeOperation, lambda c: fresh(c) or c._circuit_graph is old(c._circuit_graph))"
F_R = "forall_obj(ICircuitOperation, lambda o: fresh(o) or o.relation_link is old(o.relation_link))"
F_S = "forall_obj(CircuitCompositeOperation, lambda c: fresh(c) or c.repetition_strategy is old(c.repetition_strategy))"
# entries that a passed lookup already holds are kept, except for keys inside the copied operation itself (they are (re)written);
# stated for TREES (ghost relations of the apply_modifiers section below; A-dict-identity: keys are operation OBJECTS)
KEPT = ("forall_obj(ICircuitOperation, lambda k: not old(dict_has(relation_transfer_lookup, k)) or self.inside(k) or "
        "(dict_has(relation_transfer_lookup, k) and dict_get(relation_transfer_lookup, k) is old(dict_get(relation_transfer_lookup, k))))")
KEEP_L = f"relation_transfer_lookup is None or not self.tree_ok or {KEPT}"
contract("ICircuitOperation.copy", params=dict(self=OP, relation_transfer_lookup=OPT(DICT(OP, OP))), returns=OP, verify=False, fresh_result=True,
         modifies=REL_FIELDS + ["graph", "dict", "CircuitCompositeOperation._circuit_graph"],
         ensures=["fresh(result)", "same_class(result, self)", F_G, F_C, F_R, KEEP_L])
COPY_ENS = ["typeis(result, CircuitCompositeOperation)", "fresh(result)", "fresh(result._circuit_graph)",
            f"len({NEWG}) == len(old({NODES}))",
            f"forall({NEWG}, lambda n: fresh(n.operation))",
            f"forall({NEWG}, lambda n: forall({NEWG}, lambda m: n is m or n.operation is not m.operation))",
            "result.repetition_strategy is self.repetition_strategy",
            F_G, F_C, F_R]
contract("CircuitCompositeOperation.copy", params=dict(self=CCO, relation_transfer_lookup=OPT(DICT(OP, OP))), returns=CCO, props=P + ["C05"],
         fresh_result=True, inst_depth=2, split=4, heap_closure=True,
         modifies=REL_FIELDS + ["graph", "dict", "CircuitCompositeOperation._circuit_graph"],
         ensures=COPY_ENS + [
             KEEP_L,
             # a lookup passed by the caller afterwards maps every first-level operation of the original to an operation of the copy
             # (this is what re-points relations BETWEEN copied operations: RelationLink.copy reads it, C05)
             f"relation_transfer_lookup is None or not self.tree_ok or forall(old({NODES}), lambda n: dict_has(relation_transfer_lookup, n.operation) and "
             f"exists({NEWG}, lambda m: m.operation is dict_get(relation_transfer_lookup, n.operation)))",
             # (consequence used by repeat: the copy's operations occur in no graph that existed before)
             f"forall({NEWG}, lambda m: forall_obj(CircuitGraphBranch, lambda g: fresh(g) or "
             "forall(g.get_node_iterator(), lambda n: n.operation is not m.operation)))",
             # ... and neither does the copy itself
             "forall_obj(CircuitGraphBranch, lambda g: fresh(g) or forall(g.get_node_iterator(), lambda n: n.operation is not result))"],
         loops={"0:kinds": {"relation_transfer_lookup": DICT(OP, OP)},
                0: [f"seq_is(_xs, old({NODES}))",
                    "typeis(result, CircuitCompositeOperation)", "fresh(result)", "fresh(result._circuit_graph)",
                    f"result._circuit_graph is not {G}", "relation_transfer_lookup is not None",
                    f"len({NEWG}) == _i",
                    f"forall({NEWG}, lambda n: fresh(n.operation))",
                    f"forall({NEWG}, lambda n: forall({NEWG}, lambda m: n is m or n.operation is not m.operation))",
                    "result.repetition_strategy is self.repetition_strategy",
                    F_G, F_C, F_R,
                    f"not self.tree_ok or {KEPT}",
                    f"not self.tree_ok or forall_int(0, _i, lambda j: dict_has(relation_transfer_lookup, _xs[j].operation) and "
                    f"exists({NEWG}, lambda m: m.operation is dict_get(relation_transfer_lookup, _xs[j].operation)))"]})

# one level below extend: add() is add_to_graph on this composite's own graph.  Verified against add_to_graph's contract (C01);
# restated here over the composite so that extend's loop sees one small contract instead of add_to_graph's case analysis.
# frames: the composite keeps its graph object (so does every other composite), and no OTHER graph changes
FLD = "forall_obj(CircuitCompositeOperation, lambda c: c._circuit_graph is old(c._circuit_graph))"
OTHERG = f"forall_obj(CircuitGraphBranch, lambda g: g is old({G}) or seq_is(g.get_node_iterator(), old(g.get_node_iterator())))"
OTHERG_EXT = OTHERG
HADREL = "old(operation.relation_link.reference_node is not None)"
RELN = f"old({G}.get_corresponding_node(operation.relation_link.reference_node))"
contract("CircuitCompositeOperation.add", params=dict(self=CCO, operation=OP), returns=REF("ICircuitCompositeOperation"), props=P, inst_depth=2,
         modifies=REL_FIELDS + ["graph", "CircuitCompositeOperation._circuit_graph"],
         requires=[f"forall({NODES}, lambda n: n.operation is not operation)"],
         ensures=["result is self", FLD, OTHERG,
                  f"len({NODES}) == len(old({NODES})) + 1",
                  f"forall(old({NODES}), lambda n: exists({NODES}, lambda m: m is n))",
                  f"exists({NODES}, lambda m: m.operation is operation)",
                  f"forall({NODES}, lambda m: m.operation is operation or exists(old({NODES}), lambda n: n is m))",
                  f"forall({NODES}, lambda a: forall({NODES}, lambda b: a is b or a.operation is not operation or b.operation is not operation))",
                  "forall_obj(ICircuitOperation, lambda o: o is operation or o.relation_link is old(o.relation_link))",
                  # an operation added with a relation to an operation of this circuit keeps its link
                  f"implies({HADREL} and {RELN} is not None, operation.relation_link is old(operation.relation_link))"])

OTHER = "other._circuit_graph.get_node_iterator()"
LEAFS = f"old({G}.leaf_nodes)"
CHAINED = ("let(o.relation_link, lambda l: typeis(l, MultiRelationLink) and fresh(l) and l._relation_type == RelationType.FOLLOWED_BY and "
           "len(l._reference_nodes) == len({leafs}) and "
           "forall_int(0, len({leafs}), lambda k: l._reference_nodes[k] is {leafs}[k].operation))")
HADJ = "old(_xs[j].operation.relation_link.reference_node is not None)"
contract("CircuitCompositeOperation.extend", params=dict(self=CCO, other=CCO), returns=CCO, props=P, inst_depth=3, split=8,
         modifies=REL_FIELDS + ["graph", "CircuitCompositeOperation._circuit_graph"],
         requires=["other is not self", f"{G} is not other._circuit_graph",
                   # the appended operations are new to this circuit and pairwise different (copies)
                   f"forall({OTHER}, lambda m: forall({NODES}, lambda n: n.operation is not m.operation))",
                   f"forall_int(0, len({OTHER}), lambda a: forall_int(0, a, lambda b: {OTHER}[a].operation is not {OTHER}[b].operation))"],
         ensures=[
             "result is self", FLD, OTHERG_EXT,
             f"len({NODES}) == len(old({NODES})) + len(old({OTHER}))",
             f"forall(old({OTHER}), lambda m: exists({NODES}, lambda n: n.operation is m.operation))",
             f"forall(old({NODES}), lambda n: exists({NODES}, lambda m: m is n))",
             f"forall({NODES}, lambda n: exists(old({NODES}), lambda m: m is n) or exists(old({OTHER}), lambda m: n.operation is m.operation))",
             # chaining: every first-level operation of the appended copy that had no relation starts when the LATEST-ending relation
             # leaf of what was there before has ended (ONE multi-link over all old leaf operations, in order); nothing is claimed about links when this circuit was empty (the copy is then placed as if built from scratch)
             f"implies(not old({G}.empty_graph), forall(old({OTHER}), lambda m: let(m.operation, lambda o: "
             f"old(o.relation_link.reference_node) is not None or {CHAINED.format(leafs=LEAFS)})))",
         ],
         loops={0: [f"seq_is(_xs, old({OTHER}))",
                    FLD, OTHERG,
                    f"len({NODES}) == len(old({NODES})) + _i",
                    f"forall(old({NODES}), lambda n: exists({NODES}, lambda m: m is n))",
                    f"forall({NODES}, lambda n: exists(old({NODES}), lambda m: m is n) or exists_int(0, _i, lambda j: n.operation is _xs[j].operation))",
                    f"forall_int(0, _i, lambda j: exists({NODES}, lambda n: n.operation is _xs[j].operation))",
                    # the chain link itself (fixed before the loop)
                    f"old({G}.empty_graph) or let(relation, lambda l: typeis(l, MultiRelationLink) and l._relation_type == RelationType.FOLLOWED_BY and "
                    f"len(l._reference_nodes) == len({LEAFS}) and "
                    f"forall_int(0, len({LEAFS}), lambda k: l._reference_nodes[k] is {LEAFS}[k].operation))",
                    # links: done ones carry the chain link (or kept their own), pending ones are untouched
                    f"old({G}.empty_graph) or forall_int(0, _i, lambda j: {HADJ} or _xs[j].operation.relation_link is relation)",
                    f"forall_int(_i, len(_xs), lambda j: _xs[j].operation.relation_link is old(_xs[j].operation.relation_link))",
                    ]})

# repeat(times): times copies of the original content at this level (the original plus times-1 chained copies of a snapshot taken
# BEFORE the first extension).  Each extension is checked against extend's contract (appended operations must be new: a mutant that
# appends the snapshot itself, or re-copies the growing circuit, fails a precondition or the count).
contract("CircuitCompositeOperation.repeat", params=dict(self=CCO, times=INT), returns=CCO, props=P, inst_depth=2, split=4,
         modifies=REL_FIELDS + ["graph", "dict", "CircuitCompositeOperation._circuit_graph"],
         ensures=["result is self", f"{G} is old({G})",
                  "forall_obj(CircuitCompositeOperation, lambda c: fresh(c) or c._circuit_graph is old(c._circuit_graph))",
                  f"forall_obj(CircuitGraphBranch, lambda g: fresh(g) or g is old({G}) or seq_is(g.get_node_iterator(), old(g.get_node_iterator())))",
                  f"len({NODES}) == (times if times >= 1 else 1) * len(old({NODES}))",
                  f"forall(old({NODES}), lambda n: exists({NODES}, lambda m: m is n))",
                  "self.repetition_strategy is old(self.repetition_strategy)"],
         loops={0: [f"{G} is old({G})",
                    "forall_obj(CircuitCompositeOperation, lambda c: fresh(c) or c._circuit_graph is old(c._circuit_graph))",
                    f"forall_obj(CircuitGraphBranch, lambda g: fresh(g) or g is old({G}) or seq_is(g.get_node_iterator(), old(g.get_node_iterator())))",
                    f"len({NODES}) == (_i + 1) * len(old({NODES}))",
                    f"forall(old({NODES}), lambda n: exists({NODES}, lambda m: m is n))",
                    "typeis(original_self, CircuitCompositeOperation)", "fresh(original_self)", "fresh(original_self._circuit_graph)",
                    f"len(original_self._circuit_graph.get_node_iterator()) == len(old({NODES}))",
                    "original_self is not self", f"original_self._circuit_graph is not {G}"]})


# ---------------------------------------------------------------- apply_modifiers_to_self (recursive through dynamic dispatch)
# Ghost relations (rigid; no counterpart in the code).  x.inside(c): c is x or is/was ever nested below x.  x.owns(g): g is the graph
# of a composite inside x.  x.tree_ok: x and everything ever placed below it form a TREE - no composite is nested in itself, no two
# composites share a graph object (assumption A-tree on the inputs of apply_modifiers; it is a precondition, not an axiom).
observer("ICircuitOperation.inside", params=dict(self=OP, c=OP), returns=BOOL, reads=[], ensures=["implies(c is self, result)"])
observer("ICircuitOperation.owns", params=dict(self=OP, g=GB), returns=BOOL, reads=[])
observer("ICircuitOperation.tree_ok", params=dict(self=OP), returns=BOOL, reads=[],
         ensures=["implies(result and typeis(self, CircuitCompositeOperation), self.owns(self._circuit_graph) and "
                  "forall(self._circuit_graph.get_node_iterator(), lambda n: let(n.operation, lambda x: "
                  "x.tree_ok and not x.inside(self) and not x.owns(self._circuit_graph) and "
                  "forall_obj(ICircuitOperation, lambda c: not x.inside(c) or self.inside(c)) and "
                  "forall_obj(CircuitGraphBranch, lambda g: not x.owns(g) or self.owns(g)))) and "
                  # siblings are not nested in one another
                  "forall(self._circuit_graph.get_node_iterator(), lambda a: forall(self._circuit_graph.get_node_iterator(), lambda b: "
                  "a is b or not a.operation.inside(b.operation))))"])
RESETX = ("(not typeis(x, CircuitCompositeOperation) or "
          "(typeis(x.repetition_strategy, FixedRepetitionStrategy) and x.repetition_strategy.repetitions == 1))")
STRAT = "CircuitCompositeOperation.repetition_strategy"
RESET = ("not typeis(self, CircuitCompositeOperation) or "
         "(typeis(self.repetition_strategy, FixedRepetitionStrategy) and self.repetition_strategy.repetitions == 1)")
F_STRAT = "forall_obj(CircuitCompositeOperation, lambda c: fresh(c) or self.inside(c) or c.repetition_strategy is old(c.repetition_strategy))"
F_FLD = "forall_obj(CircuitCompositeOperation, lambda c: fresh(c) or c._circuit_graph is old(c._circuit_graph))"
F_GRAPH = "forall_obj(CircuitGraphBranch, lambda g: fresh(g) or self.owns(g) or seq_is(g.get_node_iterator(), old(g.get_node_iterator())))"
AM_MOD = REL_FIELDS + ["graph", "dict", "CircuitCompositeOperation._circuit_graph", STRAT]
AM_ENS = ["result is self", RESET, F_STRAT, F_FLD, F_GRAPH]
# interface contract: used for the recursive call on every child; refined by every implementation below
contract("ICircuitOperation.apply_modifiers_to_self", params=dict(self=OP), returns=OP, verify=False, modifies=AM_MOD,
         requires=["self.tree_ok"], ensures=AM_ENS)
for c in ["SingleQubitOperation", "TwoQubitOperation", "DispersiveMeasure", "Barrier", "CircuitCompositeOperation"]:
    refines(f"{c}.apply_modifiers_to_self", "ICircuitOperation.apply_modifiers_to_self", props=P)
N0 = "old(self.nr_of_repetitions)"
contract("CircuitCompositeOperation.apply_modifiers_to_self", params=dict(self=CCO), returns=OP, props=P, inst_depth=2, split=4,
         modifies=AM_MOD, requires=["self.tree_ok"],
         ensures=AM_ENS + [
             "self.nr_of_repetitions == 1",
             # n copies of the content at this level (n < 1 behaves as 1)
             f"len({NODES}) == ({N0} if {N0} >= 1 else 1) * len(old({NODES}))",
             f"forall(old({NODES}), lambda n: exists({NODES}, lambda m: m is n))",
             # every first-level operation has had its own modifiers applied (and so on below it, by this same contract)
             f"forall({NODES}, lambda n: let(n.operation, lambda x: {RESETX}))"],
         loops={0: [f"forall_int(0, _i, lambda j: let(_xs[j].operation, lambda x: {RESETX}))", "self.tree_ok", f"{G} is old({G})", f"seq_is({NODES}, _xs)",
                    "typeis(self.repetition_strategy, FixedRepetitionStrategy) and self.repetition_strategy.repetitions == 1",
                    F_STRAT, F_FLD, F_GRAPH,
                    f"len({NODES}) == ({N0} if {N0} >= 1 else 1) * len(old({NODES}))",
                    f"forall(old({NODES}), lambda n: exists({NODES}, lambda m: m is n))"]})

# ---------------------------------------------------------------- DeclarativeCircuit.apply_modifiers (the public entry point)
DC = REF("DeclarativeCircuit")
fields("DeclarativeCircuit", nr_qubits=INT, _structure=CCO, _added_operations=SEQ(OP))
# constructor (assumed: the body builds a composite from DEFAULT ARGUMENT OBJECTS that are shared between calls, which the engine
# does not model): a new circuit object; nothing that exists is touched
contract("DeclarativeCircuit.__new__", params=dict(self=DC, nr_qubits=INT), returns=None, verify=False, modifies=[],
         ensures=["self.nr_qubits == nr_qubits"])
contract("DeclarativeCircuit.apply_modifiers", params=dict(self=DC), returns=DC, props=P, inst_depth=2, fresh_result=True,
         modifies=AM_MOD + ["DeclarativeCircuit._structure", "DeclarativeCircuit._added_operations"],
         requires=["self._structure is not None", "self._structure.tree_ok"],
         ensures=["fresh(result)", "result is not self",
                  # the returned circuit shares the (modified in place) structure and the list of added operations
                  "result._structure is old(self._structure)", "self._structure is old(self._structure)",
                  "seq_is(result._added_operations, old(self._added_operations))", "result.nr_qubits == self.nr_qubits",
                  # ... whose modifiers have been applied (apply_modifiers_to_self's contract)
                  "let(result._structure, lambda s: typeis(s.repetition_strategy, FixedRepetitionStrategy) and s.repetition_strategy.repetitions == 1 "
                  "and s.nr_of_repetitions == 1)",
                  f"let(old(self._structure), lambda s: len(s._circuit_graph.get_node_iterator()) == "
                  f"(old(s.nr_of_repetitions) if old(s.nr_of_repetitions) >= 1 else 1) * len(old(s._circuit_graph.get_node_iterator())))"])
