"""C01 — relation-based timing: every operation sits where its relation says."""
from pyvc.api import *

P = ["C01"]
OP = REF("ICircuitOperation")
FAMILIES = ["SingleQubitOperation", "TwoQubitOperation", "DispersiveMeasure", "Barrier", "CircuitCompositeOperation"]
REL_FIELDS = [f"{c}.relation" for c in FAMILIES]

# every reference of a relation inside a circuit is an operation (A-ref-op: links built by the library and by the API
# refer to ICircuitOperation objects; IDurationComponent is only the declared bound of the TypeVar)
fields("RelationLink", _reference_node=OPT(OP))
fields("MultiRelationLink", _reference_nodes=SEQ(OP))
fields("OperationGraphNode", operation=OP)

# ---------------------------------------------------------------- relation equations, written from the statement
SPEC_START = ("result == ite(self.reference_node is None, 0, "
              "ite(self.relation_type == RelationType.FOLLOWED_BY, self.reference_node.end_time, "
              "ite(self.relation_type == RelationType.JOINED_START, self.reference_node.start_time, "
              "self.reference_node.end_time - duration)))")

observer("ICircuitOperation.duration", params=dict(self=OP), returns=REAL, reads="*",
         ensures=["not typeis(self, CircuitCompositeOperation) or result == self.duration"], props=P)
refines("CircuitCompositeOperation.duration", "ICircuitOperation.duration", props=[])
# IDurationStrategy.get_variable_duration: observer with its (verified) refinements is declared in contracts/c03.py
observer("ICircuitOperation.relation_link", params=dict(self=OP), returns=REF("IRelationLink"), reads=REL_FIELDS,
         ensures=[f"not isinstance(self, {c}) or result is self.relation" for c in FAMILIES], props=P)
for c in FAMILIES:
    refines(f"{c}.relation_link", "ICircuitOperation.relation_link", props=P)

observer("ICircuitOperation.start_time", params=dict(self=OP), returns=REAL, reads="*",
         ensures=["result == self.relation_link.get_start_time(self.duration)"], props=P)
for c in FAMILIES:
    refines(f"{c}.start_time", "ICircuitOperation.start_time", props=P)

observer("IRelationLink.relation_type", params=dict(self=REF("IRelationLink")), returns=ENUM("RelationType"), reads=[],
         ensures=["not typeis(self, RelationLink) or result == self._relation_type",
                  "not typeis(self, MultiRelationLink) or result == self._relation_type"], props=P)
refines("RelationLink.relation_type", "IRelationLink.relation_type", props=P)
refines("MultiRelationLink.relation_type", "IRelationLink.relation_type", props=P)

GROUP = "self._reference_nodes"
LATEST = [
    f"(len({GROUP}) == 0) == (result is None)",
    f"result is None or forall({GROUP}, lambda n: n.end_time <= result.end_time)",
    # the FIRST latest-ending member of the group
    f"result is None or exists_int(0, len({GROUP}), lambda j: {GROUP}[j] is result and "
    f"forall_int(0, j, lambda m: {GROUP}[m].end_time < result.end_time))",
]
contract("MultiRelationLink.reference_node", params=dict(self=REF("MultiRelationLink")), returns=OPT(OP), pure=True, observer=True,
         reads="*", props=P, ensures=LATEST, inst_depth=1,
         loops={0: [
             f"exists_int(0, len({GROUP}), lambda j: {GROUP}[j] is latest_node and (j < _i or j == 0) and "
             f"forall_int(0, j, lambda m: {GROUP}[m].end_time < latest_node.end_time))",
             f"forall_int(0, _i, lambda m: {GROUP}[m].end_time <= latest_node.end_time)",
         ]})

observer("IRelationLink.reference_node", params=dict(self=REF("IRelationLink")), returns=OPT(OP), reads="*",
         ensures=["not typeis(self, RelationLink) or result is self._reference_node",
                  "not typeis(self, MultiRelationLink) or result is self.reference_node",
                  # (restated from MultiRelationLink.reference_node's verified contract, so that it is available at any nesting depth)
                  "not typeis(self, MultiRelationLink) or (result is None) == (len(self._reference_nodes) == 0)"], props=P)
refines("RelationLink.reference_node", "IRelationLink.reference_node", props=P)

contract("IRelationLink.get_start_time", params=dict(self=REF("IRelationLink"), duration=REAL), returns=REAL, pure=True,
         observer=True, verify=False, reads="*", ensures=[SPEC_START], props=P)
refines("RelationLink.get_start_time", "IRelationLink.get_start_time", props=P)
refines("MultiRelationLink.get_start_time", "IRelationLink.get_start_time", props=P)


# ---------------------------------------------------------------- implicit predecessor: the deepest matching node
fields("CircuitCompositeOperation", _circuit_graph=REF("CircuitGraphBranch"))
NODES = "self.get_node_iterator()"
MATCH = "any((element in n.operation.channel_identifiers) for element in channel_identifiers)"

observer("ICircuitOperation.channel_identifiers", params=dict(self=OP), returns=SEQ(REF("ChannelIdentifier")), reads="*")
observer("CircuitGraphBranch.get_node_iterator", params=dict(self=REF("CircuitGraphBranch")), returns=SEQ(REF("OperationGraphNode")),
         reads=["graph"],
         ensures=["forall_int(0, len(result), lambda a: forall_int(0, a, lambda b: result[a] is not result[b]))"])
observer("CircuitGraphBranch.depth_of", params=dict(self=REF("CircuitGraphBranch"), node=REF("GraphNode")), returns=INT, reads=["graph"])

contract("CircuitGraphBranch.get_leaf_at_any",
         params=dict(self=REF("CircuitGraphBranch"), channel_identifiers=SEQ(REF("ChannelIdentifier"))),
         returns=OPT(REF("OperationGraphNode")), pure=True, observer=True, reads="*", props=P,
         ensures=[
             f"(result is None) == forall({NODES}, lambda n: not ({MATCH}))",
             # the LAST matching node of the (layer-ordered) node sequence
             f"result is None or exists_int(0, len({NODES}), lambda j: {NODES}[j] is result and "
             f"let({NODES}[j], lambda n: {MATCH}) and "
             f"forall_int(j + 1, len({NODES}), lambda m: let({NODES}[m], lambda n: not ({MATCH}))))",
         ],
         loops={0: [f"forall_int(len(_xs) - _i, len(_xs), lambda m: let(_xs[m], lambda n: not ({MATCH})))",
                    f"same_seq(_xs, {NODES})"]})

contract("CircuitGraphBranch.get_corresponding_node",
         params=dict(self=REF("CircuitGraphBranch"), operation=OPT(OP)), returns=OPT(REF("OperationGraphNode")), pure=True,
         observer=True, reads="*", props=P,
         ensures=[f"(result is None) == forall({NODES}, lambda n: n.operation is not operation)",
                  f"result is None or (exists({NODES}, lambda n: n is result) and result.operation is operation)"],
         loops={0: ["forall(_seen, lambda n: n.operation is not operation)"]})


# ---------------------------------------------------------------- property-level lemmas over the contracts
@lemma("relation_equations", props=P,
       note="reported start/end of an operation with a plain relation link is the solution of its relation equation; end = start + duration")
def _eqs(L):
    o = L.sym("o", OP)
    L.define("l", "o.relation_link")
    L.assume("typeis(l, RelationLink)")
    L.narrow("l", "RelationLink")
    L.define("r", "l._reference_node")
    L.prove("end_is_start_plus_duration", "o.end_time == o.start_time + o.duration")
    L.prove("no_relation_starts_at_zero", "implies(r is None, o.start_time == 0)")
    L.prove("followed_by", "implies(r is not None and l._relation_type == RelationType.FOLLOWED_BY, o.start_time == r.end_time)")
    L.prove("joined_start", "implies(r is not None and l._relation_type == RelationType.JOINED_START, o.start_time == r.start_time)")
    L.prove("joined_end", "implies(r is not None and l._relation_type == RelationType.JOINED_END, o.end_time == r.end_time)")


@lemma("multi_relation_equations", props=P,
       note="an operation chained behind a group starts when the latest member of the group ends (FOLLOWED_BY) — the chaining of repetitions")
def _meqs(L):
    o = L.sym("o", OP)
    L.define("l", "o.relation_link")
    L.assume("typeis(l, MultiRelationLink)")
    L.narrow("l", "MultiRelationLink")
    L.assume("l._relation_type == RelationType.FOLLOWED_BY")
    L.prove("empty_group_starts_at_zero", "implies(len(l._reference_nodes) == 0, o.start_time == 0)")
    L.prove("starts_after_every_member", "forall(l._reference_nodes, lambda n: o.start_time >= n.end_time)")
    L.prove("starts_at_the_end_of_some_member", "implies(len(l._reference_nodes) > 0, exists(l._reference_nodes, lambda n: o.start_time == n.end_time))")


# ---------------------------------------------------------------- building: where an added operation is attached
GB = REF("CircuitGraphBranch")
NODE = REF("OperationGraphNode")
observer("CircuitGraphBranch.parent_of", params=dict(self=GB, node=REF("GraphNode")), returns=REF("GraphNode"), reads=["graph"])

# link setter: interface contract (the five families assign their `relation` field; refinements below)
contract("ICircuitOperation.relation_link.setter", params=dict(self=OP, link=REF("IRelationLink")), returns=None, verify=False,
         modifies=REL_FIELDS,
         ensures=["self.relation_link is link",
                  "forall_obj(ICircuitOperation, lambda o: o is self or o.relation_link is old(o.relation_link))"])
for c in FAMILIES:
    refines(f"{c}.relation_link.setter", "ICircuitOperation.relation_link.setter", props=P)

# pointer surgery (assumed contract; checked on every tree of <= 8 nodes in every insertion order by the bounded stand-in of C02):
# the new node hangs below the given end-point, every other node keeps its parent, nothing is lost or duplicated
APPEND_ENS = [
    "result is self",
    "len(self.get_node_iterator()) == len(old(self.get_node_iterator())) + 1",
    "forall(old(self.get_node_iterator()), lambda n: exists(self.get_node_iterator(), lambda m: m is n) and self.parent_of(n) is old(self.parent_of(n)))",
    "exists(self.get_node_iterator(), lambda m: m is pointer)",
    "self.parent_of(pointer) is endpoint",
    "forall(self.get_node_iterator(), lambda m: m is pointer or exists(old(self.get_node_iterator()), lambda n: n is m))",
    # frame: no other graph changes
    "forall_obj(CircuitGraphBranch, lambda g: g is self or seq_is(g.get_node_iterator(), old(g.get_node_iterator())))",
]
contract("CircuitGraphBranch.append_pointer_to", params=dict(self=GB, endpoint=REF("GraphNode"), pointer=NODE), returns=GB, verify=False,
         modifies=["graph"], requires=["forall(self.get_node_iterator(), lambda n: n is not pointer)"], ensures=APPEND_ENS)
observer("CircuitGraphBranch.root_node", params=dict(self=GB), returns=REF("GraphNode"), reads=[])

LEAF = "old(graph.get_leaf_at_any(operation.channel_identifiers))"
HAD = "old(operation.relation_link.reference_node is not None)"
RELNODE = "old(graph.get_corresponding_node(operation.relation_link.reference_node))"
IMPLICIT = ("let(operation.relation_link, lambda l: typeis(l, RelationLink) and fresh(l) and "
            "l._reference_node is {leaf}.operation and l._relation_type == RelationType.FOLLOWED_BY)")
contract("CircuitGraphBranch.add_to_graph", params=dict(graph=GB, operation=OP), returns=GB, props=P, inst_depth=2,
         modifies=REL_FIELDS + ["graph"],
         requires=["forall(graph.get_node_iterator(), lambda n: n.operation is not operation)"],
         ensures=[
             "result is graph",
             # exactly one new node, carrying the operation; every old node keeps its place
             "len(graph.get_node_iterator()) == len(old(graph.get_node_iterator())) + 1",
             "forall(old(graph.get_node_iterator()), lambda n: exists(graph.get_node_iterator(), lambda m: m is n) and graph.parent_of(n) is old(graph.parent_of(n)))",
             "exists(graph.get_node_iterator(), lambda m: fresh(m) and m.operation is operation)",
             "forall(graph.get_node_iterator(), lambda m: m.operation is operation or exists(old(graph.get_node_iterator()), lambda n: n is m))",
             # exactly one node carries the added operation
             "forall(graph.get_node_iterator(), lambda a: forall(graph.get_node_iterator(), lambda b: a is b or a.operation is not operation or b.operation is not operation))",
             # no other operation's relation is touched
             "forall_obj(ICircuitOperation, lambda o: o is operation or o.relation_link is old(o.relation_link))",
             # no other graph is touched
             "forall_obj(CircuitGraphBranch, lambda g: g is graph or seq_is(g.get_node_iterator(), old(g.get_node_iterator())))",
             # an operation added WITH a relation to an operation of this circuit hangs below it and keeps its link
             f"implies({HAD} and {RELNODE} is not None, operation.relation_link is old(operation.relation_link) and "
             f"exists(graph.get_node_iterator(), lambda m: m.operation is operation and graph.parent_of(m) is {RELNODE}))",
             # an operation added WITHOUT a relation is placed FOLLOWED_BY the deepest operation sharing one of its channels ...
             f"implies(not {HAD} and {LEAF} is not None, " + IMPLICIT.format(leaf=LEAF) +
             f" and exists(graph.get_node_iterator(), lambda m: m.operation is operation and graph.parent_of(m) is {LEAF}))",
             # ... or at the circuit start if there is none
             f"implies(not {HAD} and {LEAF} is None, operation.relation_link is old(operation.relation_link) and "
             f"exists(graph.get_node_iterator(), lambda m: m.operation is operation and graph.parent_of(m) is graph.root_node))",
             # a relation to an operation that is NOT in this circuit is replaced as if there were none
             f"implies({HAD} and {RELNODE} is None and {LEAF} is not None, " + IMPLICIT.format(leaf=LEAF) +
             f" and exists(graph.get_node_iterator(), lambda m: m.operation is operation and graph.parent_of(m) is {LEAF}))",
             f"implies({HAD} and {RELNODE} is None and {LEAF} is None, operation.relation_link.reference_node is None and "
             f"exists(graph.get_node_iterator(), lambda m: m.operation is operation and graph.parent_of(m) is graph.root_node))",
         ])
