"""C12 — index kernels tile the acquisition index range without gaps or overlap."""
from pyvc.api import *

P = ["C12"]
H = "ite(self.heralded_initialization, 1, 0)"
N = "self.nr_repeated_parities"

fields("RepetitionExperimentKernel",
       _rounds=SEQ(INT), _heralded_initialization=BOOL, _qutrit_calibration_points=BOOL,
       _involved_data_ids=SEQ(REF("IQubitID")), _involved_ancilla_ids=SEQ(REF("IQubitID")), _repetitions=INT,
       _repetition_kernels=SEQ(REF("RepetitionIndexKernel")), _calibration_kernel=REF("QutritCalibrationIndexKernel"))

# ---------------------------------------------------------------- interface observers (immutable objects: reads nothing mutable)
observer("IChannelIdentifier.__eq__", params=dict(self=REF("IChannelIdentifier"), other=OPT(ANY)), returns=BOOL, reads=[])

observer("IIndexStrategy.get_index", params=dict(self=REF("IIndexStrategy"), task=REF("IIndexingKernel")), returns=INT, reads=[],
         ensures=["not typeis(self, FixedIndexStrategy) or result == self.index",
                  "not typeis(self, RelativeIndexStrategy) or result == self.reference_index_kernel.stop_index + 1"], props=P)
refines("FixedIndexStrategy.get_index", "IIndexStrategy.get_index", props=P)
refines("RelativeIndexStrategy.get_index", "IIndexStrategy.get_index", props=P)

observer("IIndexingKernel.start_index", params=dict(self=REF("IIndexingKernel")), returns=INT, reads=[],
         ensures=["not typeis(self, RepetitionIndexKernel) or result == self.index_offset_strategy.get_index(self)",
                  "not typeis(self, QutritCalibrationIndexKernel) or result == self.index_offset_strategy.get_index(self)"], props=P)
refines("RepetitionIndexKernel.start_index", "IIndexingKernel.start_index", props=P)
refines("QutritCalibrationIndexKernel.start_index", "IIndexingKernel.start_index", props=P)

observer("IIndexingKernel.stop_index", params=dict(self=REF("IIndexingKernel")), returns=INT, reads=[],
         ensures=[f"not typeis(self, RepetitionIndexKernel) or result == self.start_index + {H} + max(0, {N} - 1)",
                  f"not typeis(self, QutritCalibrationIndexKernel) or result == self.start_index + 3 * {H} + 2"], props=P)
refines("RepetitionIndexKernel.stop_index", "IIndexingKernel.stop_index", props=P)
refines("QutritCalibrationIndexKernel.stop_index", "IIndexingKernel.stop_index", props=P)

contract("IIndexingKernel.kernel_length", params=dict(self=REF("IIndexingKernel")), returns=INT, pure=True, props=P,
         ensures=["result == self.stop_index - self.start_index + 1"])

# ---------------------------------------------------------------- RepetitionIndexKernel getters
SELF_EL = dict(self=REF("RepetitionIndexKernel"), element=REF("IQubitID"))

contract("RepetitionIndexKernel.get_heralded_measurement_index", params=SELF_EL, returns=SEQ(INT), pure=True, props=P,
         ensures=["len(result) == ite((element in self.involved_qubit_ids) and self.heralded_initialization, 1, 0)",
                  "len(result) == 0 or result[0] == self.start_index"])

contract("RepetitionIndexKernel.get_ordered_stabilizer_measurement_indices", params=SELF_EL, returns=SEQ(INT), pure=True, props=P,
         ensures=[f"len(result) == ite(element in self.involved_ancilla_qubit_ids, max(0, {N} - 1), 0)",
                  f"forall_int(0, len(result), lambda j: result[j] == self.start_index + {H} + j)"])

contract("RepetitionIndexKernel.get_final_measurement_index", params=SELF_EL, returns=SEQ(INT), pure=True, props=P,
         ensures=[f"len(result) == ite((element in self.involved_qubit_ids) and not ((element in self.involved_ancilla_qubit_ids) and {N} == 0), 1, 0)",
                  f"len(result) == 0 or result[0] == self.start_index + {H} + max(0, {N} - 1)",
                  "len(result) == 0 or result[0] == self.stop_index"])

contract("RepetitionIndexKernel.contains", params=SELF_EL, returns=SEQ(INT), pure=True, props=P,
         ensures=["len(result) == len(self.get_heralded_measurement_index(element)) + "
                  "len(self.get_ordered_stabilizer_measurement_indices(element)) + len(self.get_final_measurement_index(element))",
                  "forall_int(0, len(result) - 1, lambda j: result[j] <= result[j + 1])"])

# ---------------------------------------------------------------- QutritCalibrationIndexKernel getters
CAL = dict(self=REF("QutritCalibrationIndexKernel"), element=REF("IQubitID"))
INV = "(element in self.involved_qubit_ids)"
for nm, her, off in [("get_heralded_state_0_measurement_index", True, "0"),
                     ("get_state_0_measurement_index", False, f"{H}"),
                     ("get_heralded_state_1_measurement_index", True, f"{H} + 1"),
                     ("get_state_1_measurement_index", False, f"2 * {H} + 1"),
                     ("get_heralded_state_2_measurement_index", True, f"2 * {H} + 2"),
                     ("get_state_2_measurement_index", False, f"3 * {H} + 2")]:
    cond = f"{INV} and self.heralded_initialization" if her else INV
    contract(f"QutritCalibrationIndexKernel.{nm}", params=CAL, returns=SEQ(INT), pure=True, props=P,
             ensures=[f"len(result) == ite({cond}, 1, 0)",
                      f"len(result) == 0 or result[0] == self.start_index + {off}"])

contract("QutritCalibrationIndexKernel.contains", params=CAL, returns=SEQ(INT), pure=True, props=P,
         ensures=[f"len(result) == ite({INV}, 3 + 3 * {H}, 0)",
                  "forall_int(0, len(result) - 1, lambda j: result[j] <= result[j + 1])"])

# ---------------------------------------------------------------- experiment kernel: the chain
KS = "self._repetition_kernels"
CHAIN_INV = [
    f"len({KS}) == _i",
    f"forall_int(0, _i, lambda j: typeis({KS}[j], RepetitionIndexKernel) and {KS}[j].nr_repeated_parities == rounds[j] "
    f"and {KS}[j].heralded_initialization == heralded_initialization)",
    f"_i == 0 or let({KS}[0].index_offset_strategy, lambda s: typeis(s, FixedIndexStrategy) and s.index == 0)",
    f"forall_int(1, _i, lambda j: let({KS}[j].index_offset_strategy, lambda s: typeis(s, RelativeIndexStrategy) and "
    f"s.reference_index_kernel is {KS}[j - 1]))",
    "self._rounds is rounds or same_seq(self._rounds, rounds)",
    "self._heralded_initialization == heralded_initialization",
]
contract("RepetitionExperimentKernel.__init__",
         params=dict(self=REF("RepetitionExperimentKernel"), rounds=SEQ(INT), heralded_initialization=BOOL,
                     qutrit_calibration_points=BOOL, involved_data_qubit_ids=SEQ(REF("IQubitID")),
                     involved_ancilla_qubit_ids=SEQ(REF("IQubitID")), experiment_repetitions=INT),
         requires=["len(rounds) >= 1"], props=P,
         modifies=["RepetitionExperimentKernel._rounds", "RepetitionExperimentKernel._heralded_initialization",
                   "RepetitionExperimentKernel._qutrit_calibration_points", "RepetitionExperimentKernel._involved_data_ids",
                   "RepetitionExperimentKernel._involved_ancilla_ids", "RepetitionExperimentKernel._repetitions",
                   "RepetitionExperimentKernel._repetition_kernels", "RepetitionExperimentKernel._calibration_kernel"],
         loops={0: CHAIN_INV},
         ensures=[
             f"len({KS}) == len(rounds)",
             f"forall_int(0, len(rounds), lambda j: {KS}[j].nr_repeated_parities == rounds[j] and "
             f"{KS}[j].heralded_initialization == heralded_initialization)",
             # contiguity, stated with the kernels' own start / stop observers
             f"{KS}[0].start_index == 0",
             f"forall_int(1, len(rounds), lambda j: {KS}[j].start_index == {KS}[j - 1].stop_index + 1)",
             f"self._calibration_kernel.start_index == {KS}[len(rounds) - 1].stop_index + 1",
             "self._calibration_kernel.heralded_initialization == heralded_initialization",
             "self._repetitions == experiment_repetitions",
         ])


# ---------------------------------------------------------------- property-level lemmas over the contracts
@lemma("kernel_categories", props=P,
       note="each category lies inside [start, stop]; categories of one qubit are pairwise disjoint; for an ancilla "
            "they cover the kernel except the final slot of a 0-round kernel")
def _cat(L):
    k = L.sym("k", REF("RepetitionIndexKernel"))
    L.assume("typeis(k, RepetitionIndexKernel)")
    e = L.sym("e", REF("IQubitID"))
    L.assume("k.nr_repeated_parities >= 0")
    L.define("hs", "k.get_heralded_measurement_index(e)")
    L.define("ss", "k.get_ordered_stabilizer_measurement_indices(e)")
    L.define("fs", "k.get_final_measurement_index(e)")
    L.define("lo", "k.start_index")
    L.define("hi", "k.stop_index")
    L.prove("kernel_nonempty", "hi >= lo")
    L.prove("heralded_inside", "forall(hs, lambda x: lo <= x and x <= hi)")
    L.prove("stabilizer_inside", "forall(ss, lambda x: lo <= x and x <= hi)")
    L.prove("final_inside", "forall(fs, lambda x: lo <= x and x <= hi)")
    L.prove("heralded_stabilizer_disjoint", "forall(hs, lambda x: forall(ss, lambda y: x != y))")
    L.prove("heralded_final_disjoint", "forall(hs, lambda x: forall(fs, lambda y: x != y))")
    L.prove("stabilizer_final_disjoint", "forall(ss, lambda x: forall(fs, lambda y: x != y))")
    L.prove("stabilizer_strictly_increasing", "forall_int(0, len(ss) - 1, lambda j: ss[j] < ss[j + 1])")
    # cover for an ancilla qubit (member of the ancilla list, hence of the involved list)
    A = L.case()
    A.assume("e in k.involved_ancilla_qubit_ids")
    A.assume("e in k.involved_qubit_ids")
    A.prove("ancilla_count", "len(hs) + len(ss) + len(fs) == (hi - lo + 1) - ite(k.nr_repeated_parities == 0, 1, 0)")
    A.define("h", "ite(k.heralded_initialization, 1, 0)")
    # explicit witnesses: x = lo is the heralded slot, lo+h+j the j-th stabilizer slot, hi the final slot
    A.prove("ancilla_cover", "forall_int(lo, hi + 1, lambda x: (k.nr_repeated_parities == 0 and x == hi) or "
                             "(len(hs) == 1 and hs[0] == x) or "
                             "(0 <= x - lo - h and x - lo - h < len(ss) and ss[x - lo - h] == x) or "
                             "(len(fs) == 1 and fs[0] == x))")


@lemma("calibration_categories", props=P, note="six calibration categories: inside, pairwise distinct, cover the kernel")
def _cal(L):
    k = L.sym("k", REF("QutritCalibrationIndexKernel"))
    L.assume("typeis(k, QutritCalibrationIndexKernel)")
    e = L.sym("e", REF("IQubitID"))
    L.assume("e in k.involved_qubit_ids")
    names = ["get_heralded_state_0_measurement_index", "get_state_0_measurement_index", "get_heralded_state_1_measurement_index",
             "get_state_1_measurement_index", "get_heralded_state_2_measurement_index", "get_state_2_measurement_index"]
    for i, n in enumerate(names):
        L.define(f"c{i}", f"k.{n}(e)")
    L.define("lo", "k.start_index")
    L.define("hi", "k.stop_index")
    for i in range(6):
        L.prove(f"inside{i}", f"forall(c{i}, lambda x: lo <= x and x <= hi)")
        for j in range(i + 1, 6):
            L.prove(f"disjoint{i}{j}", f"forall(c{i}, lambda x: forall(c{j}, lambda y: x != y))")
    L.prove("count", "len(c0) + len(c1) + len(c2) + len(c3) + len(c4) + len(c5) == hi - lo + 1")
    L.prove("kernel_length", "k.kernel_length == 3 + 3 * ite(k.heralded_initialization, 1, 0)")


@lemma("chain_contiguous", props=P, note="consecutive kernels are contiguous and non-overlapping (from the constructor's post-condition)")
def _chain(L):
    a = L.sym("a", REF("IIndexingKernel"))
    b = L.sym("b", REF("RepetitionIndexKernel"))
    L.assume("typeis(b, RepetitionIndexKernel)")
    L.assume("let(b.index_offset_strategy, lambda s: typeis(s, RelativeIndexStrategy) and s.reference_index_kernel is a)")
    L.prove("starts_after_previous", "b.start_index == a.stop_index + 1")
    L.prove("no_overlap", "b.start_index > a.stop_index")
    L.prove("own_range_nonempty", "b.stop_index >= b.start_index")


# ---------------------------------------------------------------- experiment kernel: cycle length, range, estimate
@specfun("klen_sum")
def _klen_sum(ex, st, rounds, h, i):
    """sum over the first i round counts of the kernel lengths  h + max(0, r-1) + 1  (recursive spec function)"""
    import z3
    from pyvc.world import V, SAt
    w = ex.w
    rounds = ex.to_seq(rounds, "int")
    S = rounds.t.sort()
    name = "klen_sum"
    f = w.uf(name, S, z3.IntSort(), z3.IntSort(), z3.IntSort())
    hv = h.t if h.kind == "int" else z3.If(h.t, 1, 0)
    k = i.t
    # one-step unfolding, instantiated at the point of use (a global recursive axiom would be a matching loop)
    term = hv + z3.If(SAt(rounds.t, k - 1) - 1 > 0, SAt(rounds.t, k - 1) - 1, 0) + 1
    st.assume(z3.Implies(k > 0, f(rounds.t, hv, k) == f(rounds.t, hv, k - 1) + term))
    st.assume(z3.Implies(k == 0, f(rounds.t, hv, k) == 0))
    st.assume(z3.Implies(k >= 0, f(rounds.t, hv, k) >= k))
    return V("int", f(rounds.t, hv, k))


EXP = dict(self=REF("RepetitionExperimentKernel"))
WF_EXP = [f"len({KS}) >= 1"]

contract("RepetitionExperimentKernel.indexing_kernels", params=EXP, returns=SEQ(REF("IIndexingKernel")), pure=True, props=P,
         ensures=[f"len(result) == len({KS}) + 1",
                  f"forall_int(0, len({KS}), lambda j: result[j] is {KS}[j])",
                  f"result[len({KS})] is self._calibration_kernel"])

contract("RepetitionExperimentKernel.kernel_cycle_length", params=EXP, returns=INT, pure=True, props=P, requires=WF_EXP,
         ensures=[f"result == self._calibration_kernel.stop_index - {KS}[0].start_index + 1"])

contract("RepetitionExperimentKernel.start_index", params=EXP, returns=INT, pure=True, props=P, requires=WF_EXP,
         ensures=[f"result == {KS}[0].start_index"])

contract("RepetitionExperimentKernel.stop_index", params=EXP, returns=INT, pure=True, props=P, requires=WF_EXP,
         ensures=["result == self.start_index + self._repetitions * self.kernel_cycle_length"])

contract("RepetitionExperimentKernel.estimate_experiment_repetitions",
         params=dict(rounds=SEQ(INT), heralded_initialization=BOOL, qutrit_calibration_points=BOOL, dataset_size=INT),
         returns=INT, props=P, pure=True,
         requires=["len(rounds) >= 1", "dataset_size >= 0"],
         let={"h": "ite(heralded_initialization, 1, 0)",
              "L": "klen_sum(rounds, ite(heralded_initialization, 1, 0), len(rounds)) + ite(qutrit_calibration_points, 3 * ite(heralded_initialization, 1, 0) + 3, 0)"},
         raises={"AssertionError": "dataset_size % L != 0"},
         loops={"0:kinds": {"repetition_kernels": SEQ(REF("RepetitionIndexKernel"))},
                0: ["len(repetition_kernels) == _i",
                    "forall_int(0, _i, lambda j: typeis(repetition_kernels[j], RepetitionIndexKernel))",
                    "forall_int(0, _i, lambda j: repetition_kernels[j].start_index == klen_sum(rounds, h, j))",
                    "forall_int(0, _i, lambda j: repetition_kernels[j].stop_index == klen_sum(rounds, h, j + 1) - 1)"]},
         ensures=["result * L == dataset_size"])


@lemma("cycle_length_closed_form", props=P,
       note="induction over the chain: kernel j occupies [klen_sum(j), klen_sum(j+1)-1]; the cycle length of the experiment "
            "kernel is klen_sum(len) + 3h + 3 (the calibration kernel is always part of the cycle)")
def _closed(L):
    L.sym("rounds", SEQ(INT))
    L.sym("h", BOOL)
    a = L.sym("a", REF("RepetitionIndexKernel"))
    b = L.sym("b", REF("RepetitionIndexKernel"))
    L.sym("j", INT)
    L.assume("typeis(a, RepetitionIndexKernel) and typeis(b, RepetitionIndexKernel)")
    L.assume("0 <= j and j + 1 < len(rounds)")
    L.assume("a.nr_repeated_parities == rounds[j] and b.nr_repeated_parities == rounds[j + 1]")
    L.assume("a.heralded_initialization == h and b.heralded_initialization == h")
    # base: a kernel with the fixed offset 0
    B = L.case()
    B.assume("j == 0 and let(a.index_offset_strategy, lambda s: typeis(s, FixedIndexStrategy) and s.index == 0)")
    B.prove("base_start", "a.start_index == klen_sum(rounds, h, 0)")
    B.prove("base_stop", "a.stop_index == klen_sum(rounds, h, 1) - 1")
    # step: b follows a
    S = L.case()
    S.assume("a.stop_index == klen_sum(rounds, h, j + 1) - 1")
    S.assume("let(b.index_offset_strategy, lambda s: typeis(s, RelativeIndexStrategy) and s.reference_index_kernel is a)")
    S.prove("step_start", "b.start_index == klen_sum(rounds, h, j + 1)")
    S.prove("step_stop", "b.stop_index == klen_sum(rounds, h, j + 2) - 1")
    # calibration kernel behind the last repetition kernel
    C = L.case()
    C.sym("c", REF("QutritCalibrationIndexKernel"))
    C.assume("typeis(c, QutritCalibrationIndexKernel) and c.heralded_initialization == h")
    C.assume("b.stop_index == klen_sum(rounds, h, len(rounds)) - 1")
    C.assume("let(c.index_offset_strategy, lambda s: typeis(s, RelativeIndexStrategy) and s.reference_index_kernel is b)")
    C.prove("cycle_length", "c.stop_index - 0 + 1 == klen_sum(rounds, h, len(rounds)) + 3 * ite(h, 1, 0) + 3")


@lemma("estimate_inverts_with_calibration", props=P,
       note="estimate(rounds, h, True, reps * cycle_length) == reps, with cycle_length the closed form proved above")
def _inv(L):
    L.sym("rounds", SEQ(INT))
    L.sym("hb", BOOL)
    L.sym("reps", INT)
    L.assume("len(rounds) >= 1 and reps >= 0")
    L.define("cyc", "klen_sum(rounds, hb, len(rounds)) + 3 * ite(hb, 1, 0) + 3")
    L.assume("cyc >= 1")
    L.define("est", "RepetitionExperimentKernel.estimate_experiment_repetitions(rounds, hb, True, reps * cyc)")
    L.prove("inverse", "est == reps")
