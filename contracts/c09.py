"""C09 — repetition-code circuits: every requested initial state is prepared on the right qubit (the executed protocol record is
decided by the bounded stand-in with Stim's simulator; no contract here interprets a Stim program)."""
from pyvc.api import *

P = ["C09"]
ISC = REF("InitialStateContainer")
STATE = ENUM("InitialStateEnum")
fields("InitialStateContainer", initial_states=DICT(INT, STATE), ancilla_initial_states=DICT(INT, STATE))

TABLE = [("ZERO", "Identity"), ("ONE", "Rx180"), ("PLUS", "Ry90"), ("MINUS", "Rym90"), ("PLUS_I", "Rxm90"), ("MINUS_I", "Rx90")]


def prepares(state_expr):
    """the documented state -> gate table, on the given qubit"""
    return ["fresh(result)", "let(result, lambda r: isinstance(r, SingleQubitOperation) and r.qubit_index == qubit_index)"] + \
           [f"implies({state_expr} == InitialStateEnum.{s}, typeis(result, {g}))" for s, g in TABLE]


contract("InitialStateContainer.get_operation", params=dict(self=ISC, qubit_index=INT, initial_state=STATE),
         returns=REF("ICircuitOperation"), pure=True, fresh_result=True, props=P, ensures=prepares("initial_state"))

contract("InitialStateContainer.get_data_qubit_operation", params=dict(self=ISC, qubit_index=INT, initial_state_index=INT),
         returns=REF("ICircuitOperation"), pure=True, fresh_result=True, props=P,
         ensures=prepares("dict_get_or(self.initial_states, initial_state_index, InitialStateEnum.ZERO)"))

# from the statement: the state requested for ANCILLA i is prepared (default |0> when none is requested)
contract("InitialStateContainer.get_ancilla_qubit_operation", params=dict(self=ISC, qubit_index=INT, initial_state_index=INT),
         returns=REF("ICircuitOperation"), pure=True, fresh_result=True, props=P,
         ensures=prepares("dict_get_or(self.ancilla_initial_states, initial_state_index, InitialStateEnum.ZERO)"))


@specfun("dict_get_or")
def _dict_get_or(ex, st, d, k, default):
    return ex.dict_get(st, d, k, default)
