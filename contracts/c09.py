"""C09 — repetition-code circuits: every requested initial state is prepared on the right qubit (the executed protocol record is
decided by the bounded stand-in with Stim's simulator; no contract here interprets a Stim program)."""
from pyvc.api import *

P = ["C09"]
ISC = REF("InitialStateContainer")
STATE = ENUM("InitialStateEnum")
fields("InitialStateContainer", initial_states=DICT(INT, STATE), ancilla_initial_states=DICT(INT, STATE))

TABLE = [("ZERO", "Identity"), ("ONE", "Rx180"), ("PLUS", "Ry90"), ("MINUS", "Rym90"), ("PLUS_I", "Rxm90"), ("MINUS_I", "Rx90")]


def prepares(state_expr):
    """the documented state -> gate table, on the given qubit"""
    return ["fresh(result)", "let(result, lambda r: isinstance(r, SingleQubitOperation) and r.qubit_index == qubit_index)"] + \
           [f"implies({state_expr} == InitialStateEnum.{s}, typeis(result, {g}))" for s, g in TABLE]


contract("InitialStateContainer.get_operation", params=dict(self=ISC, qubit_index=INT, initial_state=STATE),
         returns=REF("ICircuitOperation"), pure=True, fresh_result=True, props=P, ensures=prepares("initial_state"))

contract("InitialStateContainer.get_data_qubit_operation", params=dict(self=ISC, qubit_index=INT, initial_state_index=INT),
         returns=REF("ICircuitOperation"), pure=True, fresh_result=True, props=P,
         ensures=prepares("dict_get_or(self.initial_states, initial_state_index, InitialStateEnum.ZERO)"))

# from the statement: the state requested for ANCILLA i is prepared (default |0> when none is requested)
contract("InitialStateContainer.get_ancilla_qubit_operation", params=dict(self=ISC, qubit_index=INT, initial_state_index=INT),
         returns=REF("ICircuitOperation"), pure=True, fresh_result=True, props=P,
         ensures=prepares("dict_get_or(self.ancilla_initial_states, initial_state_index, InitialStateEnum.ZERO)"))


@specfun("dict_get_or")
def _dict_get_or(ex, st, d, k, default):
    return ex.dict_get(st, d, k, default)


@specfun("dict_keys")
def _dict_keys(ex, st, d):
    return ex.dict_keys(st, d)


# ---------------------------------------------------------------- RepetitionCodeDescription.get_operations (defect c970e41 was here)
RCD = REF("RepetitionCodeDescription")
fields("RepetitionCodeDescription", _data_qubit_ids=SEQ(REF("IQubitID")), _ancilla_qubit_ids=SEQ(REF("IQubitID")),
       _qubit_index_map=DICT(REF("IQubitID"), INT))
classinv("InitialStateContainer", "self.initial_states is not None", "self.ancilla_initial_states is not None")
classinv("RepetitionCodeDescription", "self._qubit_index_map is not None")
KD = "dict_keys(initial_state.initial_states)"
KA = "dict_keys(initial_state.ancilla_initial_states)"


def prep(r, qubit, state):
    return (f"let({r}, lambda r: fresh(r) and isinstance(r, SingleQubitOperation) and r.qubit_index == {qubit} and " +
            " and ".join(f"implies({state} == InitialStateEnum.{s}, typeis(r, {g}))" for s, g in TABLE) + ")")


contract("RepetitionCodeDescription.get_operations", params=dict(self=RCD, initial_state=ISC), returns=SEQ(REF("ICircuitOperation")), props=P,
         pure=True, inst_depth=2,
         requires=[f"forall({KD}, lambda k: 0 <= k and k < len(self._data_qubit_ids) and dict_has(self._qubit_index_map, self._data_qubit_ids[k]))",
                   f"forall({KA}, lambda k: 0 <= k and k < len(self._ancilla_qubit_ids) and dict_has(self._qubit_index_map, self._ancilla_qubit_ids[k]))"],
         ensures=[
             f"len(result) == len({KD}) + len({KA})",
             # first every requested DATA state, on the circuit index of data qubit k, in the key order of the request ...
             f"forall_int(0, len({KD}), lambda j: let({KD}[j], lambda k: " +
             prep("result[j]", "self._qubit_index_map[self._data_qubit_ids[k]]", "initial_state.initial_states[k]") + "))",
             # ... then every requested ANCILLA state, taken from the ANCILLA states, on the circuit index of ancilla qubit k
             f"forall_int(0, len({KA}), lambda j: let({KA}[j], lambda k: " +
             prep(f"result[len({KD}) + j]", "self._qubit_index_map[self._ancilla_qubit_ids[k]]", "initial_state.ancilla_initial_states[k]") + "))",
         ])
