"""C07 — acquisition indices enumerate measurements exactly, in order."""
from pyvc.api import *

P = ["C07"]
OP = REF("ICircuitOperation")
REL_FIELDS = [f"{c}.relation" for c in ["SingleQubitOperation", "TwoQubitOperation", "DispersiveMeasure", "Barrier", "CircuitCompositeOperation"]]

fields("AcquisitionRegistry", reference_circuit=OP, _default=REF("AcquisitionIndexInfo"))
fields("DispersiveMeasure", _acquisition_identifier=REF("AcquisitionIdentifier"))

# the listing of a circuit (ghost view; C02): a function of the graph, not of the relation fields
observer("ICircuitOperation.listing", params=dict(self=OP), returns=SEQ(OP), reads=["graph"])
# decomposed_operations: returns the listing; its only side effect is the hand-down of relation links (assumed interface
# contract; the composite implementation is checked by the bounded stand-ins of C01/C02)
DECOMP_ENS = ["seq_is(result, self.listing)",
              # every operation that HAS a relation keeps it (only relation-less first-level operations receive the block's link)
              "forall_obj(ICircuitOperation, lambda o: old(o.relation_link.reference_node) is None or o.relation_link is old(o.relation_link))",
              # for TREES (ghost relations of contracts/c06.py): nothing outside the own sub-tree is touched, and not the own link
              "not self.tree_ok or forall_obj(ICircuitOperation, lambda o: self.inside(o) or o.relation_link is old(o.relation_link))",
              "not self.tree_ok or self.relation_link is old(self.relation_link)"]
contract("ICircuitOperation.decomposed_operations", params=dict(self=OP), returns=SEQ(OP), verify=False, modifies=REL_FIELDS,
         ensures=DECOMP_ENS)
contract("CircuitCompositeOperation.decomposed_operations", params=dict(self=REF("CircuitCompositeOperation")), returns=SEQ(OP), verify=False,
         modifies=REL_FIELDS, ensures=DECOMP_ENS, note="assumed (same as the interface contract); checked by the bounded stand-ins of C01 / C02")
observer("IAcquisitionComponent.acquisition_identifier", params=dict(self=REF("IAcquisitionComponent")), returns=REF("AcquisitionIdentifier"),
         reads=[], ensures=["not typeis(self, DispersiveMeasure) or result is self._acquisition_identifier"], props=P)
refines("DispersiveMeasure.acquisition_identifier", "IAcquisitionComponent.acquisition_identifier", props=P)


def _counter(name, with_q):
    def fn(ex, st, ops, i, q=None):
        import z3
        from pyvc.world import V, SAt
        w = ex.w
        ops = ex.to_seq(ops)
        sorts = [ops.t.sort(), z3.IntSort()] + ([z3.IntSort()] if with_q else []) + [z3.IntSort()]
        f = w.uf(name, *sorts)
        k = i.t
        prev = SAt(ops.t, k - 1)
        acq = w.isinstance_term(prev, w.cls("IAcquisitionOperation"))
        args = lambda kk: [ops.t, kk] + ([q.t] if with_q else [])
        if with_q:
            ident = w.uf("obs:IAcquisitionComponent.acquisition_identifier", w.Ref, w.Ref)(prev)
            qi = z3.Select(st.field_array((w.cls("AcquisitionTag"), "qubit_index"), z3.IntSort()), ident)
            acq = z3.And(acq, qi == q.t)
        # one-step unfolding at the point of use (see klen_sum in c12)
        st.assume(z3.Implies(k > 0, f(*args(k)) == f(*args(k - 1)) + z3.If(acq, 1, 0)))
        st.assume(z3.Implies(k == 0, f(*args(k)) == 0))
        st.assume(z3.Implies(k >= 0, z3.And(f(*args(k)) >= 0, f(*args(k)) <= k)))
        return V("int", f(*args(k)))
    return fn


specfun("count_acq")(_counter("count_acq", False))       # number of acquisition operations among ops[:i]
specfun("count_acq_q")(_counter("count_acq_q", True))    # ... of those on qubit q

OPS = "self.reference_circuit.listing"
MATCH = "isinstance(o, IAcquisitionOperation) and o.acquisition_identifier == key"
contract("AcquisitionRegistry.get_registry_at",
         params=dict(self=REF("AcquisitionRegistry"), key=REF("AcquisitionIdentifier")), returns=REF("AcquisitionIndexInfo"),
         modifies=REL_FIELDS, props=P, inst_depth=2,
         ensures=[
             f"(forall({OPS}, lambda o: not ({MATCH})) and result is self._default) or "
             f"exists_int(0, len({OPS}), lambda h: let({OPS}[h], lambda o: {MATCH}) and "
             f"forall_int(0, h, lambda m: let({OPS}[m], lambda o: not ({MATCH}))) and "
             f"result.circuit_level_index == count_acq({OPS}, h) and "
             f"result.qubit_level_index == count_acq_q({OPS}, h, key.qubit_index))",
         ],
         loops={0: [f"seq_is(_xs, {OPS})",
                    "circuit_level_acquisition_index == count_acq(_xs, _i)",
                    "qubit_level_acquisition_index == count_acq_q(_xs, _i, key.qubit_index)",
                    f"forall(_seen, lambda o: not ({MATCH}))"]})

contract("AcquisitionTag.equal_tag", params=dict(self=REF("AcquisitionTag"), other=REF("AcquisitionTag")), returns=BOOL, pure=True, props=P,
         ensures=["result == (self.qubit_index == other.qubit_index and self.tag == other.tag)"])

observer("IAcquisitionStrategy.get_acquisition_info", params=dict(self=REF("IAcquisitionStrategy"), task=REF("IAcquisitionOperation")),
         returns=REF("AcquisitionIndexInfo"), reads="*")


@lemma("indices_are_ranks", props=P, inst_depth=2,
       note="for a listing whose acquisition identifiers are pairwise distinct, the measurement at listing position p gets circuit-level "
            "index = number of measurements before p, and per-qubit index = number of measurements on its qubit before p: so the indices "
            "are exactly 0..N-1 (resp. 0..n_q-1) in listing order, and never the default -1")
def _ranks(L):
    reg = L.sym("reg", REF("AcquisitionRegistry"))
    L.sym("p", INT)
    L.define("ops", "reg.reference_circuit.listing")
    L.assume("0 <= p and p < len(ops)")
    L.define("o", "ops[p]")
    L.assume("isinstance(o, IAcquisitionOperation)")
    L.narrow("o", "IAcquisitionOperation")
    L.define("key", "o.acquisition_identifier")
    # identifiers of different listed measurements differ (unique instance counter)
    L.assume("forall_int(0, len(ops), lambda m: m == p or not let(ops[m], lambda x: isinstance(x, IAcquisitionOperation) and x.acquisition_identifier == key))")
    L.assume("reg._default.circuit_level_index == -1 and reg._default.qubit_level_index == -1")
    L.define("info", "reg.get_registry_at(key)")
    L.prove("circuit_level_rank", "info.circuit_level_index == count_acq(ops, p)")
    L.prove("qubit_level_rank", "info.qubit_level_index == count_acq_q(ops, p, key.qubit_index)")
    L.prove("never_default", "info.circuit_level_index >= 0 and info.qubit_level_index >= 0")
    L.prove("rank_increases", "count_acq(ops, p + 1) == count_acq(ops, p) + 1")
