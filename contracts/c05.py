"""C05 — copies are faithful (per-class copy() contracts, link copies, registry re-targeting)."""
from pyvc.api import *

P = ["C05"]
OP = REF("ICircuitOperation")
LOOKUP = OPT(DICT(OP, OP))

# ---------------------------------------------------------------- relation links
# interface contract of IRelationLink.copy (dispatch target of `self.relation.copy(...)` in every operation)
contract("IRelationLink.copy", params=dict(self=REF("IRelationLink"), relation_transfer_lookup=LOOKUP), returns=REF("IRelationLink"),
         pure=True, verify=False, fresh_result=True, props=P,
         ensures=["same_class(result, self)",
                  "result.relation_type == self.relation_type",
                  # a plain link is re-pointed through the lookup (missing entry: the relation is dropped)
                  "not typeis(self, RelationLink) or let(result, lambda r: typeis(r, RelationLink) and "
                  "r._reference_node is dict_get(relation_transfer_lookup, self._reference_node))"])
refines("RelationLink.copy", "IRelationLink.copy", props=P)

GRP = "self._reference_nodes"
contract("MultiRelationLink.copy", params=dict(self=REF("MultiRelationLink"), relation_transfer_lookup=LOOKUP),
         returns=REF("MultiRelationLink"), pure=True, fresh_result=True, props=P,
         loops={"0:kinds": {"transferred_reference_operations": SEQ(OP)},
                0: ["len(transferred_reference_operations) <= _i",
                    "forall(transferred_reference_operations, lambda t: exists(_seen, lambda o: dict_has(relation_transfer_lookup, o) and "
                    "t is dict_get(relation_transfer_lookup, o)))",
                    "forall(_seen, lambda o: not dict_has(relation_transfer_lookup, o) or "
                    "exists(transferred_reference_operations, lambda t: t is dict_get(relation_transfer_lookup, o)))"]},
         ensures=["typeis(result, MultiRelationLink)",
                  "result._relation_type == self._relation_type and result._relation_to_group == self._relation_to_group",
                  # the transferred group: exactly the images of the members that are in the lookup
                  f"forall(result._reference_nodes, lambda t: exists({GRP}, lambda o: dict_has(relation_transfer_lookup, o) and t is dict_get(relation_transfer_lookup, o)))",
                  f"forall({GRP}, lambda o: not dict_has(relation_transfer_lookup, o) or exists(result._reference_nodes, lambda t: t is dict_get(relation_transfer_lookup, o)))"])

# acquisition strategy: copied with the same lookup (registry re-targeting is checked by the bounded stand-in and under C07)
contract("IAcquisitionStrategy.copy", params=dict(self=REF("IAcquisitionStrategy"), strategy_transfer_lookup=LOOKUP),
         returns=REF("IAcquisitionStrategy"), pure=True, verify=False, fresh_result=True, ensures=["same_class(result, self)"])

# ---------------------------------------------------------------- per-class copy(): class, every constructor-visible field, link
SCALAR = {"qubit_index", "control_qubit_index", "target_qubit_index", "qubit_channel", "time_shift", "space_shift", "acquisition_tag",
          "last_acquisition_index", "main_target", "secondary_target", "reference_offset", "secondary_offset"}
CLASSES = {
    "SingleQubitOperation": ["qubit_index", "duration_strategy"],
    "Reset": ["qubit_index"], "Identity": ["qubit_index"], "Hadamard": ["qubit_index"], "Rx180": ["qubit_index"], "Rx90": ["qubit_index"],
    "Rxm90": ["qubit_index"], "Ry180": ["qubit_index"], "Ry90": ["qubit_index"], "Rym90": ["qubit_index"], "Rx180ef": ["qubit_index"],
    "VirtualPhase": ["qubit_index"], "VirtualPark": ["qubit_index"], "Rphi90": ["qubit_index"],
    "Wait": ["qubit_index", "duration_strategy", "qubit_channel"],
    "VirtualVacant": ["qubit_index", "duration_strategy", "qubit_channel"],
    "VirtualEmpty": ["qubit_index", "duration_strategy", "qubit_channel"],
    "TwoQubitOperation": ["control_qubit_index", "target_qubit_index", "duration_strategy"],
    "CPhase": ["control_qubit_index", "target_qubit_index"],
    "TwoQubitVirtualPhase": ["control_qubit_index", "target_qubit_index"],
    "VirtualTwoQubitVacant": ["control_qubit_index", "target_qubit_index", "duration_strategy", "qubit_channel"],
    "DispersiveMeasure": ["qubit_index", "acquisition_tag"],
    "Barrier": ["qubit_indices"],
    "CoordinateShiftOperation": ["qubit_indices", "time_shift", "space_shift"],
    "DetectorOperation": ["qubit_index", "last_acquisition_index", "main_target", "secondary_target", "reference_offset", "secondary_offset"],
    "LogicalObservableOperation": ["qubit_index", "last_acquisition_index", "main_target"],
}
fields("DetectorOperation", last_acquisition_index=INT, main_target=OPT(INT), secondary_target=OPT(INT), reference_offset=OPT(INT), secondary_offset=OPT(INT))
fields("LogicalObservableOperation", last_acquisition_index=INT, main_target=OPT(INT))

LINK = ("let(result.relation, lambda r: let(self.relation, lambda s: fresh(r) and same_class(r, s) and r.relation_type == s.relation_type and "
        "(not typeis(s, RelationLink) or let(r, lambda rr: typeis(rr, RelationLink) and "
        "rr._reference_node is dict_get(relation_transfer_lookup, s._reference_node)))))")
for cls, flds in CLASSES.items():
    ens = [f"typeis(result, {cls})", "fresh(result)", LINK]
    for f in flds:
        if f in SCALAR:
            ens.append(f"result.{f} == self.{f}")
        elif f == "duration_strategy":
            ens.append("result.duration_strategy is self.duration_strategy")
        elif f == "qubit_indices":
            ens.append("same_seq(result.qubit_indices, self.qubit_indices)")
    contract(f"{cls}.copy", params=dict(self=REF(cls), relation_transfer_lookup=LOOKUP), returns=REF(cls), pure=True, props=P,
             requires=[f"typeis(self, {cls})"], ensures=ens, inst_depth=2)

# every per-class copy also satisfies the interface contract that the composite's copy loop relies on for its children
# (contracts/c06.py: fresh result of the same class, no existing graph / composite / relation touched)
for cls in CLASSES:
    refines(f"{cls}.copy", "ICircuitOperation.copy", props=P)

# ---------------------------------------------------------------- acquisition strategy: the registry is re-targeted through the lookup
REFC = "self.registry.reference_circuit"
contract("RegistryAcquisitionStrategy.copy", params=dict(self=REF("RegistryAcquisitionStrategy"), strategy_transfer_lookup=LOOKUP),
         returns=REF("IAcquisitionStrategy"), fresh_result=True, props=P + ["C07"], modifies=["dict"],
         ensures=["typeis(result, RegistryAcquisitionStrategy)", "fresh(result)",
                  "let(result, lambda r: typeis(r, RegistryAcquisitionStrategy) and fresh(r.registry) and r.registry is not self.registry and "
                  # the copy's registry counts in the circuit the lookup maps the old reference circuit to (or in the same circuit if it is not a key)
                  f"r.registry.reference_circuit is (dict_get(strategy_transfer_lookup, {REFC}) "
                  f"if strategy_transfer_lookup is not None and dict_has(strategy_transfer_lookup, {REFC}) else {REFC}))"])
refines("RegistryAcquisitionStrategy.copy", "IAcquisitionStrategy.copy", props=P)

# ---------------------------------------------------------------- DeclarativeCircuit.add_sub_circuit: a COPY of the sub-circuit is nested
DC = REF("DeclarativeCircuit")
CCOK = REF("CircuitCompositeOperation")
SN = "self._structure._circuit_graph.get_node_iterator()"
contract("DeclarativeCircuit.add_sub_circuit", params=dict(self=DC, operation=CCOK), returns=REF("ICircuitCompositeOperation"), props=P, inst_depth=2,
         heap_closure=True,
         modifies=["SingleQubitOperation.relation", "TwoQubitOperation.relation", "DispersiveMeasure.relation", "Barrier.relation",
                   "CircuitCompositeOperation.relation", "graph", "dict", "CircuitCompositeOperation._circuit_graph", "DeclarativeCircuit._added_operations"],
         requires=["self._structure is not None", "operation is not self._structure",
                   "operation._circuit_graph is not self._structure._circuit_graph"],
         ensures=["fresh(result)", "typeis(result, CircuitCompositeOperation)", "result is not operation",
                  # the copy (not the argument) is nested; the argument's graph is untouched (the bookkeeping list is not part of C05's statement)
                  f"len({SN}) == len(old({SN})) + 1",
                  f"exists({SN}, lambda n: n.operation is result)",
                  f"forall({SN}, lambda n: n.operation is not operation or exists(old({SN}), lambda m: m is n))",
                  "seq_is(operation._circuit_graph.get_node_iterator(), old(operation._circuit_graph.get_node_iterator()))",
                  "let(result, lambda r: typeis(r, CircuitCompositeOperation) and len(r._circuit_graph.get_node_iterator()) == "
                  "len(old(operation._circuit_graph.get_node_iterator())) and r.repetition_strategy is operation.repetition_strategy)"])
