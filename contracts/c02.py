"""C02 — the operation listing is the in-place expansion of the sub-circuits: the body of decomposed_operations is verified against the
recursive definition of the listing (a leaf lists itself; a composite lists the listings of its nodes, in node order) and against the
hand-down clause (only relation-less first-level operations receive the block's relation).  Callers use the ASSUMED contract of
contracts/c07.py ("returns self.listing"): this file is what discharges that assumption for the composite and the four leaf families,
with `listing` of a composite DEFINED as the expansion below.  The node order itself (get_node_iterator) is the graph layer's (assumed;
bounded stand-in of C02), and so are causality across levels and stability of repeated listings."""
from pyvc.api import *

P = ["C02"]
OP = REF("ICircuitOperation")
CCO = REF("CircuitCompositeOperation")
REL_FIELDS = [f"{c}.relation" for c in ["SingleQubitOperation", "TwoQubitOperation", "DispersiveMeasure", "Barrier", "CircuitCompositeOperation"]]
NODES = "self._circuit_graph.get_node_iterator()"


@specfun("expansion")
def _expansion(ex, st, nodes, i):
    """expansion(nodes, i) = listing(nodes[0].operation) ++ ... ++ listing(nodes[i-1].operation)   (unfolded one step at each use)"""
    import z3
    from pyvc.world import V
    w = ex.w
    nodes = ex.to_seq(nodes)
    S = w.seq_sort(w.Ref)
    f = w.uf("expansion", nodes.t.sort(), z3.IntSort(), S)
    k = i.t
    prev = ex.eval_spec_value("_nodes[_k - 1].operation.listing", st, {"_nodes": nodes, "_k": V("int", k)})
    st.assume(z3.Implies(k == 0, f(nodes.t, k) == w.seq_empty(w.Ref)))
    st.assume(z3.Implies(k > 0, f(nodes.t, k) == w.seq_concat(f(nodes.t, k - 1), prev.t)))
    r = V(("seq", ("ref", "ICircuitOperation")), f(nodes.t, k))
    return r


HANDDOWN = [
    # an operation that has a relation keeps its link; a relation-less first-level operation receives THIS block's link; nothing else changes
    "forall_obj(ICircuitOperation, lambda o: old(o.relation_link.reference_node) is None or o.relation_link is old(o.relation_link))",
    # for trees (ghost relations of contracts/c06.py): only the own sub-tree is touched, the own link is not, and EVERY relation-less
    # first-level operation ends up with this block's link (the hand-down happens)
    "not self.tree_ok or forall_obj(ICircuitOperation, lambda o: self.inside(o) or o.relation_link is old(o.relation_link))",
    "not self.tree_ok or self.relation_link is old(self.relation_link)",
    f"not self.tree_ok or forall({NODES}, lambda n: let(n.operation, lambda x: old(x.relation_link.reference_node) is not None or "
    "x.relation_link is self.relation_link))",
]
contract("CircuitCompositeOperation.decomposed_operations:expansion", params=dict(self=CCO), returns=SEQ(OP), props=P, inst_depth=2,
         modifies=REL_FIELDS,
         ensures=[f"seq_is(result, expansion({NODES}, len({NODES})))"] + HANDDOWN,
         loops={"0:kinds": {"result": SEQ(OP)},
                0: ["seq_is(result, expansion(_xs, _i))",
                    # whether a link refers to something does not change (link objects are never modified; only which link an operation holds)
                    "forall_obj(IRelationLink, lambda l: (l.reference_node is None) == old(l.reference_node is None))",
                    "forall_obj(ICircuitOperation, lambda o: old(o.relation_link.reference_node) is None or o.relation_link is old(o.relation_link))",
                    "not self.tree_ok or forall_obj(ICircuitOperation, lambda o: self.inside(o) or o.relation_link is old(o.relation_link))",
                    "not self.tree_ok or self.relation_link is old(self.relation_link)",
                    "not self.tree_ok or forall_int(_i, len(_xs), lambda j: _xs[j].operation.relation_link is old(_xs[j].operation.relation_link))",
                    "not self.tree_ok or forall_int(0, _i, lambda j: let(_xs[j].operation, lambda x: old(x.relation_link.reference_node) is not None or "
                    "x.relation_link is self.relation_link))"]})
for fam in ["SingleQubitOperation", "TwoQubitOperation", "DispersiveMeasure", "Barrier"]:
    contract(f"{fam}.decomposed_operations:expansion", params=dict(self=REF(fam)), returns=SEQ(OP), props=P, pure=True,
             ensures=["len(result) == 1", "result[0] is self"])
