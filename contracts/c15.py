"""C15 — OpenQL export: every operation factory appends exactly the documented instructions to the kernel.

The OpenQL kernel is an external object; its model is a GHOST LOG (sequence of entries kind/name/qubits/duration) and the
assumed contracts of the four kernel methods the factories call (each appends one entry and changes nothing else)."""
from pyvc.api import *

P = ["C15"]
OP = REF("ICircuitOperation")
K = REF("QLKernel")
external_class("QLKernel", log=SEQ(REF("QLEntry")))
external_class("QLEntry", kind=STR, name=STR, qubits=SEQ(INT), duration=INT)

LOG = "self.log"
OLD = "old(self.log)"
KEEP = [f"len({LOG}) == len({OLD}) + 1", f"forall_int(0, len({OLD}), lambda k: {LOG}[k] is {OLD}[k])"]
NEW = f"{LOG}[len({OLD})]"


def _gate_dispatch(args, kwargs):
    from pyvc.world import V      # (lazy: contracts are also imported by the native replay, which has no z3)
    q = args[1] if len(args) > 1 else kwargs.get("qubits", kwargs.get("q0"))
    return "QLKernel.gate:int" if isinstance(q, V) and q.kind == "int" else "QLKernel.gate:list"


# assumed model of openql.Kernel (trusted; the bounded stand-in reads the compiled program back)
contract("QLKernel.gate", params=dict(self=K, name=STR, qubits=ANY), returns=None, verify=False, dispatch=_gate_dispatch)
contract("QLKernel.gate:list", params=dict(self=K, name=STR, qubits=SEQ(INT)), returns=None, verify=False, modifies=["QLKernel.log"],
         ensures=KEEP + [f"let({NEW}, lambda e: fresh(e) and e.kind == 'gate' and e.name == name and same_seq(e.qubits, qubits))"])
contract("QLKernel.gate:int", params=dict(self=K, name=STR, q0=INT), returns=None, verify=False, modifies=["QLKernel.log"],
         ensures=KEEP + [f"let({NEW}, lambda e: fresh(e) and e.kind == 'gate' and e.name == name and len(e.qubits) == 1 and e.qubits[0] == q0)"])
contract("QLKernel.cz", params=dict(self=K, q0=INT, q1=INT), returns=None, verify=False, modifies=["QLKernel.log"],
         ensures=KEEP + [f"let({NEW}, lambda e: fresh(e) and e.kind == 'gate' and e.name == 'cz' and len(e.qubits) == 2 and e.qubits[0] == q0 and e.qubits[1] == q1)"])
contract("QLKernel.barrier", params=dict(self=K, qubits=SEQ(INT)), returns=None, verify=False, modifies=["QLKernel.log"],
         ensures=KEEP + [f"let({NEW}, lambda e: fresh(e) and e.kind == 'barrier' and same_seq(e.qubits, qubits))"])
contract("QLKernel.wait", params=dict(self=K, qubits=SEQ(INT), duration=INT), returns=None, verify=False, modifies=["QLKernel.log"],
         ensures=KEEP + [f"let({NEW}, lambda e: fresh(e) and e.kind == 'wait' and same_seq(e.qubits, qubits) and e.duration == duration)"])

# the qubits of an operation: the ids of its channels, each once (first occurrence order is C19's unique_in_order contract)
CH = "operation.channel_identifiers"
contract("factory_basic_operations.get_qubit_index", params=dict(operation=OP), returns=SEQ(INT), pure=True, observer=True, reads="*", props=P,
         ensures=[f"forall({CH}, lambda c: exists(result, lambda r: r == c.id))",
                  f"forall(result, lambda r: exists({CH}, lambda c: c.id == r))",
                  "forall_int(0, len(result), lambda a: forall_int(0, a, lambda b: result[a] != result[b]))"])

KLOG = "kernel.log"
KOLD = "old(kernel.log)"
QIDX = "old(get_qubit_index(operation))"     # read before the kernel changes
fields("addon_openql/NameBasedOperationsFactory", _operation_name=STR)


def appended(n):
    return ["result is kernel", f"len({KLOG}) == len({KOLD}) + {n}", f"forall_int(0, len({KOLD}), lambda k: {KLOG}[k] is {KOLD}[k])"]


def entry(off, cond):
    return f"let({KLOG}[len({KOLD}) + {off}], lambda e: {cond})"


contract("addon_openql/NameBasedOperationsFactory.construct", params=dict(self=REF("addon_openql/NameBasedOperationsFactory"), operation=OP, kernel=K),
         returns=K, props=P, modifies=["QLKernel.log"],
         ensures=appended(1) + [entry(0, f"e.kind == 'gate' and e.name == self._operation_name and same_seq(e.qubits, {QIDX})")])
contract("BarrierOperationsFactory.construct", params=dict(self=REF("BarrierOperationsFactory"), operation=OP, kernel=K),
         returns=K, props=P, modifies=["QLKernel.log"],
         ensures=appended(1) + [entry(0, f"e.kind == 'barrier' and same_seq(e.qubits, {QIDX})")])
# waits keep their duration (truncated to an integer number of ns, as OpenQL requires)
contract("WaitOperationsFactory.construct", params=dict(self=REF("WaitOperationsFactory"), operation=OP, kernel=K),
         returns=K, props=P, modifies=["QLKernel.log"], requires=["operation.duration >= 0"],
         ensures=appended(1) + [entry(0, f"e.kind == 'wait' and same_seq(e.qubits, {QIDX}) and e.duration <= operation.duration and "
                                         "operation.duration < e.duration + 1")])
# a controlled phase: cz(control, target); a barrier on the pair; a phase update on control, then on target
contract("CompositeCPhaseOperationsFactory.construct", params=dict(self=REF("CompositeCPhaseOperationsFactory"), operation=REF("CPhase"), kernel=K),
         returns=K, props=P, modifies=["QLKernel.log"],
         ensures=appended(4) + [
             entry(0, "e.kind == 'gate' and e.name == 'cz' and len(e.qubits) == 2 and e.qubits[0] == operation.control_qubit_index and "
                      "e.qubits[1] == operation.target_qubit_index"),
             entry(1, f"e.kind == 'barrier' and same_seq(e.qubits, {QIDX})"),
             entry(2, "e.kind == 'gate' and e.name == 'update_ph' and len(e.qubits) == 1 and e.qubits[0] == operation.control_qubit_index"),
             entry(3, "e.kind == 'gate' and e.name == 'update_ph' and len(e.qubits) == 1 and e.qubits[0] == operation.target_qubit_index"),
             # the barrier covers exactly the pair
             entry(1, "forall(e.qubits, lambda q: q == operation.control_qubit_index or q == operation.target_qubit_index) and "
                      "exists(e.qubits, lambda q: q == operation.control_qubit_index) and exists(e.qubits, lambda q: q == operation.target_qubit_index)"),
         ])
