"""C03 — answers depend on the current settings: the duration registry is a map (set then get returns the value, other keys keep theirs),
and the duration strategies report what the registry / their field holds NOW.  The memoised schedule queries (lru_cache on
MultiRelationLink.reference_node etc.) are history-dependent by construction and are decided by the bounded stand-in only."""
from pyvc.api import *

P = ["C03"]
OP = REF("ICircuitOperation")
REG = REF("DurationRegistry")
fields("DurationRegistry", _variable_durations=DICT(STR, REAL), _default_duration=REAL)
D = "self._variable_durations"
# type invariant of the inputs: the annotated (non-Optional) dictionary field holds a dictionary
classinv("DurationRegistry", "self._variable_durations is not None")

contract("DurationRegistry.get_registry_at", params=dict(self=REG, key=STR), returns=REAL, pure=True, observer=True, reads="*", props=P,
         ensures=[f"implies(dict_has({D}, key), result == {D}[key])",
                  f"implies(not dict_has({D}, key), result == self._default_duration)"])
contract("DurationRegistry.set_registry_at", params=dict(self=REG, key=STR, value=REAL), returns=None, props=P, modifies=["dict"],
         ensures=["self.get_registry_at(key) == value",
                  # every other key of this registry reports what it reported before
                  "forall_str(lambda k: k == key or self.get_registry_at(k) == old(self.get_registry_at(k)))",
                  # a registry-linked strategy bound to this key reports the NEW value, for every operation
                  "forall_obj(RegistryDurationStrategy, lambda s: forall_obj(ICircuitOperation, lambda t: "
                  "implies(s.registry is self and s.registry_key == key, s.get_variable_duration(t) == value)))"] + [
                  # ... and so does the duration of every operation of the four leaf families that carries such a strategy
                  f"forall_obj({fam}, lambda o: implies(typeis(o.duration_strategy, RegistryDurationStrategy) and "
                  "o.duration_strategy.registry is self and o.duration_strategy.registry_key == key, o.duration == value))"
                  for fam in ["SingleQubitOperation", "TwoQubitOperation", "DispersiveMeasure", "Barrier"]])

observer("IDurationStrategy.get_variable_duration", params=dict(self=REF("IDurationStrategy"), task=OP), returns=REAL, reads="*",
         ensures=["not typeis(self, RegistryDurationStrategy) or result == self.registry.get_registry_at(self.registry_key)",
                  "not typeis(self, FixedDurationStrategy) or result == self.duration"], props=P)
refines("RegistryDurationStrategy.get_variable_duration", "IDurationStrategy.get_variable_duration", props=P)
refines("FixedDurationStrategy.get_variable_duration", "IDurationStrategy.get_variable_duration", props=P)
