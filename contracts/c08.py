"""C08 — Stim export: annotation look-backs (the in-order walk and the gate table are carried by the bounded stand-in)."""
from pyvc.api import *

P = ["C08"]
fields("DetectorOperation", last_acquisition_index=OPT(INT), main_target=OPT(INT), secondary_target=OPT(INT),
       reference_offset=OPT(INT), secondary_offset=OPT(INT))
fields("LogicalObservableOperation", last_acquisition_index=OPT(INT), main_target=OPT(INT))

M = "self.main_target"
S = "self.secondary_target"
R = "self.reference_offset"
O = "self.secondary_offset"
LB = "(self.last_acquisition_index + 1)"
# the documented look-backs, one clause per target shape (record offsets are relative to the last acquisition index)
contract("DetectorOperation.to_stim_instruction", params=dict(self=REF("DetectorOperation")), returns=ANY, pure=True, props=P,
         requires=[f"{M} is None or self.last_acquisition_index is not None",
                   # the annotations look back: Stim rejects record targets >= 0
                   f"{M} is None or {M} - {LB} < 0", f"{S} is None or {M} is None or {S} - {LB} < 0",
                   f"{R} is None or {M} is None or ({S} is None and {M} - {LB} - {R} < 0) or ({S} is not None and -{R} < 0)",
                   f"{O} is None or {R} is None or {S} is None or {M} is None or -{R} - {O} < 0"],
         ensures=[
             "stim_name(result) == 'DETECTOR'",
             f"implies({M} is None, len(stim_targets(result)) == 0)",
             f"implies({M} is not None, same_seq(stim_args(result), [self.qubit_index, 0]))",
             f"implies({M} is not None and {S} is None and {R} is None, same_seq(stim_targets(result), [{M} - {LB}]))",
             f"implies({M} is not None and {S} is None and {R} is not None, same_seq(stim_targets(result), [{M} - {LB}, {M} - {LB} - {R}]))",
             f"implies({M} is not None and {S} is not None and {R} is None, same_seq(stim_targets(result), [{M} - {LB}, {S} - {LB}]))",
             f"implies({M} is not None and {S} is not None and {R} is not None and {O} is None, "
             f"same_seq(stim_targets(result), [{M} - {LB}, {S} - {LB}, -{R}]))",
             f"implies({M} is not None and {S} is not None and {R} is not None and {O} is not None, "
             f"same_seq(stim_targets(result), [{M} - {LB}, {S} - {LB}, -{R}, -{R} - {O}]))",
         ])

contract("LogicalObservableOperation.to_stim_instruction", params=dict(self=REF("LogicalObservableOperation")), returns=ANY, pure=True, props=P,
         requires=[f"self.last_acquisition_index is None or {M} is None or {M} - {LB} < 0"],
         ensures=["stim_name(result) == 'OBSERVABLE_INCLUDE'",
                  f"implies(self.last_acquisition_index is not None and {M} is not None, "
                  f"same_seq(stim_targets(result), [{M} - {LB}]) and same_seq(stim_args(result), [0]))",
                  f"implies(self.last_acquisition_index is None or {M} is None, len(stim_targets(result)) == 0)"])


@lemma("annotations_are_shift_invariant", props=P,
       note="look-backs depend only on differences target - last_acquisition_index: shifting every acquisition index of a block by the "
            "same amount (what unrolling / nesting does to absolute indices) leaves the exported targets unchanged")
def _shift(L):
    a = L.sym("a", REF("DetectorOperation"))
    b = L.sym("b", REF("DetectorOperation"))
    L.sym("d", INT)
    for f in ("main_target", "secondary_target"):
        L.assume(f"(a.{f} is None) == (b.{f} is None)")
        L.assume(f"a.{f} is None or b.{f} == a.{f} + d")
    L.assume("a.last_acquisition_index is not None and b.last_acquisition_index is not None and b.last_acquisition_index == a.last_acquisition_index + d")
    L.assume("a.reference_offset == b.reference_offset and a.secondary_offset == b.secondary_offset and a.qubit_index == b.qubit_index")
    for x in "ab":
        L.assume(f"{x}.main_target is None or {x}.main_target - ({x}.last_acquisition_index + 1) < 0")
        L.assume(f"{x}.secondary_target is None or {x}.main_target is None or {x}.secondary_target - ({x}.last_acquisition_index + 1) < 0")
        L.assume(f"{x}.reference_offset is None or {x}.main_target is None or ({x}.secondary_target is None and {x}.main_target - ({x}.last_acquisition_index + 1) - {x}.reference_offset < 0) or ({x}.secondary_target is not None and -{x}.reference_offset < 0)")
        L.assume(f"{x}.secondary_offset is None or {x}.reference_offset is None or {x}.secondary_target is None or {x}.main_target is None or -{x}.reference_offset - {x}.secondary_offset < 0")
    L.prove("same_targets", "same_seq(stim_targets(a.to_stim_instruction()), stim_targets(b.to_stim_instruction()))")

# ---------------------------------------------------------------- gate factories: the named instruction on the operation's qubits
fields("addon_stim/NameBasedOperationsFactory", _operation_name=STR)
contract("addon_stim/NameBasedOperationsFactory.construct", params=dict(self=REF("addon_stim/NameBasedOperationsFactory"), operation=REF("ICircuitOperation")),
         returns=REF("StimInstruction"), pure=True, props=P,
         ensures=["stim_name(result) == self._operation_name",
                  # targets: the ids of the operation's channels, each once (get_qubit_index, verified under C15 / C19)
                  "same_seq(stim_targets(result), get_qubit_index(operation))"])
contract("TickOperationsFactory.construct", params=dict(self=REF("TickOperationsFactory"), operation=REF("ICircuitOperation")),
         returns=REF("StimInstruction"), pure=True, props=P,
         ensures=["stim_name(result) == 'TICK'", "len(stim_targets(result)) == 0"])
