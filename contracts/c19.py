"""C19 — channel and identifier matching behave as overlap / identity relations."""
from pyvc.api import *

P = ["C19"]

# edges of the library are built from QubitIDObj (EdgeIDObj.from_qubit_ids and every shipped table);
# the contract quantifies over those (assumption A-edge-qubits, listed in the evidence).
fields("EdgeIDObj", qubit_id0=REF("QubitIDObj"), qubit_id1=REF("QubitIDObj"))

observer("IChannelIdentifier.id", params=dict(self=REF("IChannelIdentifier")), returns=STR, reads=[],
         ensures=["not typeis(self, QubitIDObj) or result == self._id"], props=P)
refines("QubitIDObj.id", "IChannelIdentifier.id", props=P)

contract("ChannelIdentifier.__eq__",
         params=dict(self=REF("ChannelIdentifier"), other=OPT(ANY)), returns=BOOL, pure=True, props=P,
         ensures=[
             # taken from the property statement: same qubit and (same channel or one of them names all channels)
             "result == (isinstance(other, ChannelIdentifier) and self._id == other._id and "
             "(self._channel == other._channel or self._channel == QubitChannel.ALL or other._channel == QubitChannel.ALL))",
         ])

contract("QubitIDObj.__eq__",
         params=dict(self=REF("QubitIDObj"), other=OPT(ANY)), returns=BOOL, pure=True, props=P,
         ensures=["implies(isinstance(other, QubitIDObj), result == (self._id == other._id))",
                  "implies(not isinstance(other, IQubitID), result == False)"])

contract("QubitIDObj.__hash__",
         params=dict(self=REF("QubitIDObj")), returns=INT, pure=True, props=P,
         ensures=["result == self._id.__hash__()"])

contract("EdgeIDObj.contains",
         params=dict(self=REF("EdgeIDObj"), element=REF("QubitIDObj")), returns=BOOL, pure=True, props=P,
         ensures=["result == (element._id == self.qubit_id0._id or element._id == self.qubit_id1._id)"])

contract("EdgeIDObj.__eq__",
         params=dict(self=REF("EdgeIDObj"), other=REF("EdgeIDObj")), returns=BOOL, pure=True, props=P,
         ensures=["result == ((self.qubit_id0._id == other.qubit_id0._id or self.qubit_id0._id == other.qubit_id1._id) and "
                  "(self.qubit_id1._id == other.qubit_id0._id or self.qubit_id1._id == other.qubit_id1._id))"])

contract("EdgeIDObj.__hash__",
         params=dict(self=REF("EdgeIDObj")), returns=INT, pure=True, props=P,
         ensures=["result == hash((min(self.qubit_id0._id.__hash__(), self.qubit_id1._id.__hash__()), "
                  "max(self.qubit_id0._id.__hash__(), self.qubit_id1._id.__hash__())))"])

def _uio_dispatch(args, kwargs):
    from pyvc.world import V
    x = args[0] if args else kwargs.get("iterable")
    return "array_manipulation.unique_in_order:int" if isinstance(x, V) and x.kind == ("seq", "int") else "array_manipulation.unique_in_order:any"

contract("array_manipulation.unique_in_order", params=dict(iterable=ANY), returns=ANY, verify=False, dispatch=_uio_dispatch)
contract("array_manipulation.unique_in_order:any",
         params=dict(iterable=SEQ(ANY)), returns=SEQ(ANY), pure=True, props=P,
         ghosts={"pos": SEQ(INT)},
         loops={
             "0:kinds": {"seen": SETOF(ANY), "result": SEQ(ANY)},
             "0:ghost": {"pos": (SEQ(INT), "seq_empty_int()", "ite(len(result) == len(pos) + 1, seq_concat(pos, [_i]), pos)")},
             0: [
                 "same_seq(result, seen)",
                 "len(pos) == len(result)",
                 # every visited element has a representative in the result
                 "forall(_seen, lambda x: exists(result, lambda y: set_same(y, x)))",
                 # result[k] is the element at position pos[k], which is its first occurrence
                 "forall_int(0, len(result), lambda k: 0 <= pos[k] and pos[k] < _i and _xs[pos[k]] is result[k] and "
                 "forall_int(0, pos[k], lambda m: not set_same(_xs[m], result[k])))",
                 # order preserved
                 "forall_int(0, len(result), lambda a: forall_int(0, a, lambda b: pos[b] < pos[a]))",
             ]},
         ensures=[
             "len(pos) == len(result)",
             "forall(iterable, lambda x: exists(result, lambda y: set_same(y, x)))",
             "forall_int(0, len(result), lambda k: 0 <= pos[k] and pos[k] < len(iterable) and iterable[pos[k]] is result[k] and "
             "forall_int(0, pos[k], lambda m: not set_same(iterable[m], result[k])))",
             "forall_int(0, len(result), lambda a: forall_int(0, a, lambda b: pos[b] < pos[a]))",
         ])
# the same contract over integer sequences (used by get_qubit_index)
contract("array_manipulation.unique_in_order:int",
         params=dict(iterable=SEQ(INT)), returns=SEQ(INT), pure=True, props=P,
         ghosts={"pos": SEQ(INT)},
         loops={
             "0:kinds": {"seen": SETOF(INT), "result": SEQ(INT)},
             "0:ghost": {"pos": (SEQ(INT), "seq_empty_int()", "ite(len(result) == len(pos) + 1, seq_concat(pos, [_i]), pos)")},
             0: [
                 "same_seq(result, seen)",
                 "len(pos) == len(result)",
                 # every visited element has a representative in the result
                 "forall(_seen, lambda x: exists(result, lambda y: set_same(y, x)))",
                 # result[k] is the element at position pos[k], which is its first occurrence
                 "forall_int(0, len(result), lambda k: 0 <= pos[k] and pos[k] < _i and _xs[pos[k]] is result[k] and "
                 "forall_int(0, pos[k], lambda m: not set_same(_xs[m], result[k])))",
                 # order preserved
                 "forall_int(0, len(result), lambda a: forall_int(0, a, lambda b: pos[b] < pos[a]))",
             ]},
         ensures=[
             "len(pos) == len(result)",
             "forall(iterable, lambda x: exists(result, lambda y: set_same(y, x)))",
             "forall_int(0, len(result), lambda k: 0 <= pos[k] and pos[k] < len(iterable) and iterable[pos[k]] is result[k] and "
             "forall_int(0, pos[k], lambda m: not set_same(iterable[m], result[k])))",
             "forall_int(0, len(result), lambda a: forall_int(0, a, lambda b: pos[b] < pos[a]))",
         ])


@specfun("seq_empty_int")
def _seq_empty_int(ex, st):
    import z3
    from pyvc.world import V
    return V(("seq", "int"), ex.w.seq_empty(z3.IntSort()))


@lemma("channel_match_symmetric", props=P, note="matching is symmetric and never holds across qubits")
def _l1(L):
    a = L.sym("a", REF("ChannelIdentifier"))
    b = L.sym("b", REF("ChannelIdentifier"))
    L.define("ab", "a.__eq__(b)")
    L.define("ba", "b.__eq__(a)")
    L.prove("symmetric", "ab == ba")
    L.prove("never_across_qubits", "implies(a._id != b._id, not ab)")
    L.prove("reflexive", "a.__eq__(a)")
    L.prove("all_matches_every_channel_of_same_qubit", "implies(a._id == b._id and a._channel == QubitChannel.ALL, ab)")


@lemma("edge_order_independent", props=P, note="E(a,b) == E(b,a) and equal hashes")
def _l2(L):
    L.sym("a", REF("QubitIDObj"))
    L.sym("b", REF("QubitIDObj"))
    L.sym("e1", REF("EdgeIDObj"))
    L.sym("e2", REF("EdgeIDObj"))
    L.assume("e1.qubit_id0 is a and e1.qubit_id1 is b and e2.qubit_id0 is b and e2.qubit_id1 is a")
    L.prove("eq_swapped", "e1.__eq__(e2) and e2.__eq__(e1)")
    L.prove("hash_swapped", "e1.__hash__() == e2.__hash__()")
    L.sym("e3", REF("EdgeIDObj"))
    # symmetric on proper edges (two different qubits); E(a,a) == E(a,b) holds one way only, which the property does not cover
    L.prove("eq_symmetric_proper", "implies(a._id != b._id and e3.qubit_id0._id != e3.qubit_id1._id, e1.__eq__(e3) == e3.__eq__(e1))")


@lemma("qubit_id_eq_iff_names", props=P)
def _l3(L):
    L.sym("a", REF("QubitIDObj"))
    L.sym("b", REF("QubitIDObj"))
    L.prove("eq_iff_names", "a.__eq__(b) == (a._id == b._id)")
    L.prove("eq_implies_hash", "implies(a.__eq__(b), a.__hash__() == b.__hash__())")
