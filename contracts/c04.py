"""C04 — a (sub-)circuit's duration spans everything it contains."""
from pyvc.api import *

P = ["C04"]
OP = REF("ICircuitOperation")
G = "self._circuit_graph"
N = f"{G}.get_node_iterator()"
D1 = f"{G}.get_nodes_at(1)"
LF = f"{G}.leaf_nodes"


@specfun("inf")
def _inf(ex, st):
    import z3
    from pyvc.world import V
    return V("real", z3.Real("INF"))


# graph layer (assumed contracts; checked by the bounded stand-in of C02 on enumerated trees):
# depth-1 nodes and leaf nodes are operation nodes of the graph when it is not empty
observer("CircuitGraphBranch.empty_graph", params=dict(self=REF("CircuitGraphBranch")), returns=BOOL, reads=["graph"],
         ensures=["result == (len(self.get_node_iterator()) == 0)"])
observer("CircuitGraphBranch.get_nodes_at", params=dict(self=REF("CircuitGraphBranch"), depth=INT), returns=SEQ(REF("GraphNode")),
         reads=["graph"], requires=["depth >= 1"],
         ensures=["forall(result, lambda n: isinstance(n, OperationGraphNode) and exists(self.get_node_iterator(), lambda m: m is n))",
                  "implies(depth == 1 and not self.empty_graph, len(result) >= 1)"])
observer("CircuitGraphBranch.leaf_nodes", params=dict(self=REF("CircuitGraphBranch")), returns=SEQ(REF("GraphNode")), reads=["graph"],
         ensures=["len(result) >= 1",
                  # the library's own definition of an empty graph: the only leaf is the root
                  "self.empty_graph == (len(result) == 1 and result[0].is_root)",
                  "implies(not self.empty_graph, forall(result, lambda n: isinstance(n, OperationGraphNode) and "
                  "exists(self.get_node_iterator(), lambda m: m is n)))"])

# the statement, at one nesting level: duration == latest end - earliest start over EVERY operation of the block
# (a nested sub-circuit is one operation whose own [start, end] covers its contents by the same contract)
SPAN = (f"exists({N}, lambda a: forall({N}, lambda c: a.operation.start_time <= c.operation.start_time) and "
        f"forall({N}, lambda b: result >= b.operation.end_time - a.operation.start_time) and "
        f"(result == 0 or exists({N}, lambda b: result == b.operation.end_time - a.operation.start_time)))")

contract("CircuitCompositeOperation.duration", params=dict(self=REF("CircuitCompositeOperation")), returns=REAL, pure=True,
         observer=True, reads="*", props=P, inst_depth=1,
         ensures=[
             f"implies({G}.empty_graph, result == 0)",
             "result >= 0",
             f"implies(not {G}.empty_graph, {SPAN})",
         ],
         loops={
             0: ["_i == 0 or exists(_seen, lambda a: a.operation.start_time == relative_start_time)",
                 "_i > 0 or relative_start_time == inf()",
                 "forall(_seen, lambda a: relative_start_time <= a.operation.start_time)",
                 "total_duration == 0"],
             1: ["total_duration >= 0",
                 "forall(_seen, lambda b: total_duration >= b.operation.end_time - relative_start_time)",
                 "total_duration == 0 or exists(_seen, lambda b: total_duration == b.operation.end_time - relative_start_time)",
                 f"exists({N}, lambda a: a.operation.start_time == relative_start_time)",
                 f"forall({N}, lambda a: relative_start_time <= a.operation.start_time)"],
         })


@lemma("duration_is_the_span", props=P, inst_depth=2,
       note="from the contract of duration: for arbitrary contained operations n, m the reported duration is at least end(n) - start(m) "
            "and it is attained (or zero with nothing longer); everything FOLLOWED_BY the block starts after all of the block's "
            "operations whenever no contained operation starts before the block itself")
def _span(L):
    L.sym("self", REF("CircuitCompositeOperation"))
    L.assume(f"not {G}.empty_graph")
    L.sym("jn", INT)
    L.sym("jm", INT)
    L.assume(f"0 <= jn and jn < len({N}) and 0 <= jm and jm < len({N})")
    L.define("n", f"{N}[jn]")
    L.define("m", f"{N}[jm]")
    L.assume("n.operation.duration >= 0 and m.operation.duration >= 0")
    L.define("result", "self.duration")
    L.prove("covers_every_operation", "result >= n.operation.end_time - m.operation.start_time")
    L.prove("attained", f"exists({N}, lambda a: exists({N}, lambda b: result == b.operation.end_time - a.operation.start_time)) or "
                        f"(result == 0 and n.operation.end_time - m.operation.start_time <= 0)")
    # consequence clause.  By C01 (lemma relation_equations: followed_by, end = start + duration) an operation FOLLOWED_BY the
    # block starts at  start(block) + duration(block);  that equation is the hypothesis here.
    L.sym("nxt_start", REAL)
    L.sym("block_start", REAL)
    L.assume("nxt_start == block_start + result")
    L.assume(f"forall({N}, lambda a: a.operation.start_time >= block_start)")        # nothing starts before the block ...
    L.assume(f"exists({N}, lambda a: a.operation.start_time == block_start)")        # ... whose first operations start with it (hand-down)
    L.prove("followers_start_after_everything", "nxt_start >= n.operation.end_time")
