"""C17 — derived gate-sequence descriptions keep exactly the gates that are not excluded / whose qubits are all involved.

Identifier equality (`in` on lists of IQubitID / IEdgeID) is the classes' own == (C19 verifies it for the shipped identifier classes);
here it is whatever relation `==` is: the clauses are stated with the same `in` expressions the property uses."""
from pyvc.api import *

P = ["C17"]
QID = REF("IQubitID")
EID = REF("IEdgeID")
LAYER = REF("GateSequenceLayer")
DESC = REF("IRepetitionCodeDescription")
CONN = REF("IGenericSurfaceCodeLayer")
# Operation[TIdentifier] is generic; the engine has no type parameters.  In the gate lists (annotated List[Operation[IEdgeID]]) the
# identifier is an edge identifier; park operations are only compared by identity here, so the erased parameter does not matter.
fields("Operation", identifier=EID, type=ENUM("OperationType"))
fields("GateSequenceLayer", _park_operations=SEQ(REF("Operation")), _gate_operations=SEQ(REF("Operation")))

observer("IRepetitionCodeDescription.gate_sequences", params=dict(self=DESC), returns=SEQ(LAYER), reads="*",
         ensures=["forall(result, lambda l: l is not None)"])
# IEdgeID.qubit_ids: observer declared in contracts/c16.py (two qubits)
observer("IConnectivityLayer.qubit_ids", params=dict(self=REF("IConnectivityLayer")), returns=SEQ(QID), reads="*")
# assumed pure function (C16 verifies the frequency-ordering helpers it is built from; the bounded stand-in checks parking on every layout)
contract("connectivity_surface_code.get_requires_parking", params=dict(element=QID, edge_ids=SEQ(EID), connectivity=REF("ISurfaceCodeLayer")),
         returns=BOOL, pure=True, observer=True, verify=False, reads="*")
# (assumed: the engine has no type parameters, and the field is typed for the gate lists, so storing a qubit id is a static mismatch)
contract("Operation.type_park", params=dict(qubit_id=QID), returns=REF("Operation"), fresh_result=True, pure=True, verify=False,
         ensures=["result.identifier is qubit_id", "result.type == OperationType.PARK"])

CD = REF("CompositeRepetitionCodeDescription")
BASE = ("(self._leading_gate_description.gate_sequences if self._leading_gate_description is not None "
        "else self._base_description.gate_sequences)")
EXCL = ("(op.identifier in self._exclude_gate_edge_ids or "
        "any([_qubit_id in self._exclude_gate_qubit_ids for _qubit_id in op.identifier.qubit_ids]))")
contract("CompositeRepetitionCodeDescription.gate_sequences", params=dict(self=CD), returns=SEQ(LAYER), pure=True, props=P, inst_depth=2,
         let={"base": BASE},
         ensures=[
             "len(result) == len(base)",
             # layer by layer: exactly the gates of the source layer that are not excluded (by edge or by one of their qubits), same objects
             f"forall_int(0, len(result), lambda i: forall(result[i]._gate_operations, lambda op: "
             f"exists(base[i].gate_operations, lambda s: s is op) and not {EXCL}))",
             f"forall_int(0, len(result), lambda i: forall(base[i].gate_operations, lambda op: "
             f"{EXCL} or exists(result[i]._gate_operations, lambda g: g is op)))",
             # parking: untouched unless only the required parking is asked for; then only qubits of the connectivity are parked
             "self._only_required_parking_operations or forall_int(0, len(result), lambda i: "
             "seq_is(result[i]._park_operations, base[i].park_operations))",
             "not self._only_required_parking_operations or forall_int(0, len(result), lambda i: forall(result[i]._park_operations, lambda p: "
             "p.type == OperationType.PARK and exists(self._connectivity.qubit_ids, lambda q: q is p.identifier)))",
         ],
         loops={
             "0:kinds": {"result": SEQ(LAYER), "filtered_gate_operations": SEQ(REF("Operation")), "filtered_park_operations": SEQ(REF("Operation"))},
             0: ["seq_is(_xs, base)", "len(result) == _i",
                 f"forall_int(0, _i, lambda i: forall(result[i]._gate_operations, lambda op: exists(base[i].gate_operations, lambda s: s is op) and not {EXCL}))",
                 f"forall_int(0, _i, lambda i: forall(base[i].gate_operations, lambda op: {EXCL} or exists(result[i]._gate_operations, lambda g: g is op)))",
                 "self._only_required_parking_operations or forall_int(0, _i, lambda i: seq_is(result[i]._park_operations, base[i].park_operations))",
                 "not self._only_required_parking_operations or forall_int(0, _i, lambda i: forall(result[i]._park_operations, lambda p: "
                 "p.type == OperationType.PARK and exists(self._connectivity.qubit_ids, lambda q: q is p.identifier)))"],
             "1:kinds": {"filtered_gate_operations": SEQ(REF("Operation"))},
             1: ["seq_is(_xs, _gate_sequence.gate_operations)",
                 f"forall(filtered_gate_operations, lambda op: exists_int(0, _i, lambda j: _xs[j] is op) and not {EXCL})",
                 f"forall_int(0, _i, lambda j: let(_xs[j], lambda op: {EXCL} or exists(filtered_gate_operations, lambda g: g is op)))"],
         })

# ---------------------------------------------------------------- RepetitionCodeDescription.from_connectivity
fields("RepetitionCodeDescription", _gate_sequences=SEQ(LAYER), _data_qubit_ids=SEQ(QID), _ancilla_qubit_ids=SEQ(QID),
       _parity_groups=SEQ(REF("IParityGroup")), _qubit_index_map=DICT(QID, INT), _qubit_refocusing=BOOL)
observer("IGateSequenceLayer.gate_sequence_count", params=dict(self=REF("IGateSequenceLayer")), returns=INT, reads="*", ensures=["result >= 0"])
observer("IGateSequenceLayer.get_gate_sequence_at_index", params=dict(self=REF("IGateSequenceLayer"), index=INT), returns=LAYER, reads="*",
         ensures=["result is not None"])
observer("ISurfaceCodeLayer.parity_group_x", params=dict(self=REF("ISurfaceCodeLayer")), returns=SEQ(REF("IParityGroup")), reads="*")
observer("ISurfaceCodeLayer.parity_group_z", params=dict(self=REF("ISurfaceCodeLayer")), returns=SEQ(REF("IParityGroup")), reads="*")
observer("ISurfaceCodeLayer.data_qubit_ids", params=dict(self=REF("ISurfaceCodeLayer")), returns=SEQ(QID), reads="*")
observer("ISurfaceCodeLayer.ancilla_qubit_ids", params=dict(self=REF("ISurfaceCodeLayer")), returns=SEQ(QID), reads="*")
contract("GateSequenceLayer.empty", params=dict(), returns=LAYER, fresh_result=True, pure=True, props=P,
         ensures=["len(result._park_operations) == 0", "len(result._gate_operations) == 0"])

GC = REF("IGenericSurfaceCodeLayer")
INVOLVED = "all([qubit_id in involved_qubit_ids for qubit_id in op.identifier.qubit_ids])"
SRC = "connectivity.get_gate_sequence_at_index(i).gate_operations"
contract("RepetitionCodeDescription.from_connectivity",
         params=dict(involved_qubit_ids=SEQ(QID), connectivity=GC, qubit_index_map=OPT(DICT(QID, INT)), qubit_refocusing=BOOL),
         returns=REF("RepetitionCodeDescription"), props=P, inst_depth=2, fresh_result=True, modifies=["dict"],
         ensures=[
             "len(result._gate_sequences) == connectivity.gate_sequence_count",
             # a derived description keeps, layer by layer, exactly the gates whose qubits are ALL involved (same objects)
             f"forall_int(0, len(result._gate_sequences), lambda i: forall(result._gate_sequences[i]._gate_operations, lambda op: "
             f"exists({SRC}, lambda s: s is op) and {INVOLVED}))",
             f"forall_int(0, len(result._gate_sequences), lambda i: forall({SRC}, lambda op: "
             f"not {INVOLVED} or exists(result._gate_sequences[i]._gate_operations, lambda g: g is op)))",
             # only qubits of the device are parked
             "forall_int(0, len(result._gate_sequences), lambda i: forall(result._gate_sequences[i]._park_operations, lambda p: "
             "p.type == OperationType.PARK and exists(connectivity.qubit_ids, lambda q: q is p.identifier)))",
             # data / ancilla roles: the involved qubits that the device lists as data / ancilla, in the given order
             "forall(result._data_qubit_ids, lambda q: exists(involved_qubit_ids, lambda x: x is q) and q in connectivity.data_qubit_ids)",
             "forall(involved_qubit_ids, lambda q: q not in connectivity.data_qubit_ids or exists(result._data_qubit_ids, lambda x: x is q))",
             "forall(result._ancilla_qubit_ids, lambda q: exists(involved_qubit_ids, lambda x: x is q) and q in connectivity.ancilla_qubit_ids)",
             "forall(involved_qubit_ids, lambda q: q not in connectivity.ancilla_qubit_ids or exists(result._ancilla_qubit_ids, lambda x: x is q))",
             "result._qubit_refocusing == qubit_refocusing",
             "qubit_index_map is None or result._qubit_index_map is qubit_index_map",
         ],
         loops={"0:kinds": {"gate_sequences": SEQ(LAYER)},
                0: ["len(gate_sequences) == _i",
                    f"forall_int(0, _i, lambda i: forall(gate_sequences[i]._gate_operations, lambda op: exists({SRC}, lambda s: s is op) and {INVOLVED}))",
                    f"forall_int(0, _i, lambda i: forall({SRC}, lambda op: not {INVOLVED} or exists(gate_sequences[i]._gate_operations, lambda g: g is op)))",
                    "forall_int(0, _i, lambda i: forall(gate_sequences[i]._park_operations, lambda p: "
                    "p.type == OperationType.PARK and exists(connectivity.qubit_ids, lambda q: q is p.identifier)))"]})
