"""C14 — noise dressing: the Pauli T1/T2 formula, block splitting, per-qubit / per-operation lookups."""
from pyvc.api import *

P = ["C14"]

E1 = "exp(-t / t1)"
E2 = "exp(-t / t2)"
contract("PauliAdditiveCircuitNoiseFactory.get_pauli_error", params=dict(t=REAL, t1=REAL, t2=REAL), returns=None, pure=True, props=P,
         requires=["t >= 0", "t1 > 0", "t2 > 0"],
         ensures=[
             "0 <= result[0] and result[0] <= 1 and 0 <= result[1] and result[1] <= 1 and 0 <= result[2] and result[2] <= 1",
             "result[0] + result[1] + result[2] <= 1",
             "result[0] == result[1]",
             # the T1 / T2 formula (depolarising part needs no clamp; the dephasing part is clamped at 0 when T2 > 2 T1)
             f"implies(t > 0, result[0] == 0.25 * (1 - {E1}))",
             f"implies(t > 0, result[2] == max(0.0, 0.5 * (1 - {E2}) - 0.25 * (1 - {E1})))",
             "implies(t == 0, result[0] == 0 and result[2] == 0)",
         ])

# block splitting: the blocks concatenate to the input; every block but the last ends with the split instruction and contains no other
external_class("StimInstruction", name=STR)     # stim.CircuitInstruction: only `.name` is used here
BLK = "__yielded__"
contract("PauliAdditiveCircuitNoiseFactory.split_instruction_blocks",
         params=dict(circuit_instructions=SEQ(REF("StimInstruction")), instruction_split=STR), returns=SEQ(SEQ(REF("StimInstruction"))), pure=True, props=P,
         ghosts={"offs": SEQ(INT), "done": INT},
         loops={"0:kinds": {"sub_set": SEQ(REF("StimInstruction")), "__yielded__": SEQ(SEQ(REF("StimInstruction")))},
                # ghost: offs[j] = position of block j in the input; done = number of instructions already handed out
                "0:ghost": {"offs": (SEQ(INT), "seq_empty_int()", "ite(len(sub_set) == 0, seq_concat(offs, [done]), offs)"),
                            "done": (INT, "0", "ite(len(sub_set) == 0, _i + 1, done)")},
                0: ["0 <= done and done <= _i",
                    "len(sub_set) == _i - done",
                    "forall_int(0, len(sub_set), lambda k: sub_set[k] is _xs[done + k] and _xs[done + k].name != instruction_split)",
                    f"len(offs) == len({BLK})",
                    f"forall_int(0, len(offs), lambda j: 0 <= offs[j] and len({BLK}[j]) >= 1 and "
                    f"offs[j] + len({BLK}[j]) == ite(j + 1 < len(offs), offs[j + 1], done))",
                    "len(offs) == 0 or offs[0] == 0",
                    "len(offs) > 0 or done == 0",
                    f"forall_int(0, len(offs), lambda j: forall_int(0, len({BLK}[j]), lambda k: {BLK}[j][k] is _xs[offs[j] + k] and "
                    f"({BLK}[j][k].name == instruction_split) == (k == len({BLK}[j]) - 1)))"]},
         ensures=["len(result) == len(offs) + 1",
                  # blocks tile the input in order: block j starts where block j-1 ended, the last block is the remainder
                  "forall_int(0, len(offs), lambda j: 0 <= offs[j] and len(result[j]) >= 1 and "
                  "offs[j] + len(result[j]) == ite(j + 1 < len(offs), offs[j + 1], done))",
                  "len(offs) == 0 or offs[0] == 0", "len(offs) > 0 or done == 0",
                  "done + len(result[len(offs)]) == len(circuit_instructions)",
                  "forall_int(0, len(offs), lambda j: forall_int(0, len(result[j]), lambda k: result[j][k] is circuit_instructions[offs[j] + k] and "
                  "(result[j][k].name == instruction_split) == (k == len(result[j]) - 1)))",
                  "forall_int(0, len(result[len(offs)]), lambda k: result[len(offs)][k] is circuit_instructions[done + k] and "
                  "result[len(offs)][k].name != instruction_split)"])


@specfun("flat_len")
def _flat_len(ex, st, blocks):
    """total number of instructions in a sequence of blocks (recursive; unfolded at the last block on use)"""
    import z3
    from pyvc.world import V, SLen, SAt
    w = ex.w
    blocks = ex.to_seq(blocks)
    f = w.uf("flat_len", blocks.t.sort(), z3.IntSort(), z3.IntSort())
    n = SLen(blocks.t)
    st.assume(z3.Implies(n == 0, f(blocks.t, n) == 0))
    st.assume(z3.Implies(n > 0, f(blocks.t, n) == f(blocks.t, n - 1) + SLen(SAt(blocks.t, n - 1))))
    return V("int", f(blocks.t, n))


# ---------------------------------------------------------------- per-qubit / per-operation lookups
fields("IndexedNoiseSettings", noise_settings=REF("NoiseSettings"), qubit_index_lookup=DICT(INT, REF("IQubitID")))
INS = REF("IndexedNoiseSettings")
# type-casting helper of the settings dataclasses: fields are already floats in every construction below (assumed no-op)
contract("noise_settings_manager.typecast_dataclass_fields", params=dict(instance=ANY), returns=None, pure=True, verify=False)

contract("NoiseSettings.get_default_noise_settings", params=dict(self=REF("NoiseSettings")), returns=REF("QubitNoiseModelParameters"),
         pure=True, fresh_result=True, props=P,
         ensures=["result.t1 == self.default_t1 and result.t2 == self.default_t2 and result.assignment_error == self.default_assignment_error "
                  "and result.single_qubit_gate_error == self.default_single_qubit_gate_error"])

# type invariants of the inputs: the annotated (non-Optional) dictionary fields hold dictionaries
classinv("NoiseSettings", "self.individual_noise is not None")
classinv("IndexedNoiseSettings", "self.qubit_index_lookup is not None", "self.noise_settings is not None")
PARAMS_OF = ("ite(dict_has(self.individual_noise, qubit_id), 0, 1)")
contract("NoiseSettings.get_noise_settings", params=dict(self=REF("NoiseSettings"), qubit_id=OPT(REF("IQubitID"))), returns=REF("QubitNoiseModelParameters"),
         pure=True, props=P, fresh_result=False,
         ensures=["implies(dict_has(self.individual_noise, qubit_id), result is dict_get(self.individual_noise, qubit_id))",
                  "implies(not dict_has(self.individual_noise, qubit_id), result.t1 == self.default_t1 and result.t2 == self.default_t2 and "
                  "result.assignment_error == self.default_assignment_error)"])

contract("IndexedNoiseSettings.contains", params=dict(self=INS, index=INT), returns=BOOL, pure=True, props=P,
         ensures=["result == dict_has(self.qubit_index_lookup, index)"])

# the configured parameters of circuit qubit `index`: the override of its identifier if the index is mapped and overridden, else the defaults
contract("IndexedNoiseSettings.get_noise_settings", params=dict(self=INS, index=INT), returns=REF("QubitNoiseModelParameters"), pure=True, props=P,
         ensures=["let(self.noise_settings, lambda ns: "
                  "implies(dict_has(self.qubit_index_lookup, index) and dict_has(ns.individual_noise, dict_get(self.qubit_index_lookup, index)), "
                  "result is dict_get(ns.individual_noise, dict_get(self.qubit_index_lookup, index))) and "
                  "implies(not (dict_has(self.qubit_index_lookup, index) and dict_has(ns.individual_noise, dict_get(self.qubit_index_lookup, index))), "
                  "result.t1 == ns.default_t1 and result.t2 == ns.default_t2 and result.assignment_error == ns.default_assignment_error))"])

# configured operation durations, measurements included (Stim names Z-basis measurement 'M'; 'MZ' is the library's alias)
contract("IndexedNoiseSettings.get_operation_duration", params=dict(self=INS, identifier=STR), returns=REAL, pure=True, props=P,
         ensures=["let(self.noise_settings.operation_durations, lambda od: result == "
                  "ite(identifier == 'M' or identifier == 'MZ', od.duration_mz, ite(identifier == 'CZ', od.duration_cz, "
                  "ite(identifier == 'H', od.duration_h, ite(identifier == 'X', od.duration_x, 0)))))"])
