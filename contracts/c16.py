"""C16 — simultaneous two-qubit gates: frequency order, moving side (the finite acceptance/parking domain is enumerated by the bounded stand-in)."""
from pyvc.api import *

P = ["C16"]
FG = REF("FrequencyGroupIdentifier")


@specfun("level")
def _level(ex, st, g):
    """numeric frequency level of a FrequencyGroup member: LOW 0 < MID 1 < HIGH 2 (written from the statement)"""
    import z3
    from pyvc.world import V
    sort, consts = ex.w.enum_sort("FrequencyGroup")
    return V("int", z3.If(g.t == consts["LOW"], 0, z3.If(g.t == consts["MID"], 1, 2)))


PAIR = dict(self=FG, other=FG)
contract("FrequencyGroupIdentifier.is_equal_to", params=PAIR, returns=BOOL, pure=True, props=P,
         ensures=["result == (level(self._id) == level(other._id))"])
contract("FrequencyGroupIdentifier.is_higher_than", params=PAIR, returns=BOOL, pure=True, props=P,
         ensures=["result == (level(self._id) > level(other._id))"])
contract("FrequencyGroupIdentifier.is_lower_than", params=PAIR, returns=BOOL, pure=True, props=P,
         ensures=["result == (level(self._id) < level(other._id))"])

observer("IEdgeID.contains", params=dict(self=REF("IEdgeID"), element=REF("IQubitID")), returns=BOOL, reads=[])
observer("IEdgeID.get_connected_qubit_id", params=dict(self=REF("IEdgeID"), element=REF("IQubitID")), returns=REF("IQubitID"), reads=[])
observer("IEdgeID.qubit_ids", params=dict(self=REF("IEdgeID")), returns=SEQ(REF("IQubitID")), reads=[],
         ensures=["len(result) == 2", "self.contains(result[0]) and self.contains(result[1])",
                  "self.get_connected_qubit_id(result[0]) is result[1] or self.get_connected_qubit_id(result[0]) == result[1]"])
observer("ISurfaceCodeLayer.get_frequency_group_identifier", params=dict(self=REF("ISurfaceCodeLayer"), element=REF("IQubitID")),
         returns=FG, reads=[])

MOVING = ("(edge_id.contains(qubit_id) and level(connectivity.get_frequency_group_identifier(qubit_id)._id) > "
          "level(connectivity.get_frequency_group_identifier(edge_id.get_connected_qubit_id(qubit_id))._id))")
contract("connectivity_surface_code.on_moving_side",
         params=dict(qubit_id=REF("IQubitID"), edge_id=REF("IEdgeID"), connectivity=REF("ISurfaceCodeLayer")), returns=BOOL, pure=True,
         props=P, ensures=[f"result == {MOVING}"])

EC = dict(edge_id=REF("IEdgeID"), connectivity=REF("ISurfaceCodeLayer"))
contract("connectivity_surface_code.get_higher_frequency_qubit_id", params=EC, returns=REF("IQubitID"), pure=True, props=P,
         ensures=["let(edge_id.qubit_ids[0], lambda q: result is ite(on_moving_side(q, edge_id, connectivity), q, edge_id.get_connected_qubit_id(q)))"])
contract("connectivity_surface_code.get_lower_frequency_qubit_id", params=EC, returns=REF("IQubitID"), pure=True, props=P,
         ensures=["let(edge_id.qubit_ids[0], lambda q: result is ite(on_moving_side(q, edge_id, connectivity), edge_id.get_connected_qubit_id(q), q))"])


@lemma("frequency_order_is_strict_total", props=P, note="the three comparisons are those of a strict total order on the three levels")
def _order(L):
    for n in "abc":
        L.sym(n, FG)
    L.prove("trichotomy", "(a.is_equal_to(b) and not a.is_higher_than(b) and not a.is_lower_than(b)) or "
                          "(not a.is_equal_to(b) and a.is_higher_than(b) and not a.is_lower_than(b)) or "
                          "(not a.is_equal_to(b) and not a.is_higher_than(b) and a.is_lower_than(b))")
    L.prove("antisymmetric", "a.is_higher_than(b) == b.is_lower_than(a)")
    L.prove("transitive", "implies(a.is_higher_than(b) and b.is_higher_than(c), a.is_higher_than(c))")
    L.prove("high_above_low", "implies(a._id == FrequencyGroup.HIGH and b._id == FrequencyGroup.LOW, a.is_higher_than(b) and b.is_lower_than(a))")
    L.prove("mid_below_high", "implies(a._id == FrequencyGroup.MID and b._id == FrequencyGroup.HIGH, a.is_lower_than(b) and not a.is_higher_than(b))")


@lemma("moving_side_is_the_higher_member", props=P,
       note="for a gate whose two members sit at different levels exactly one member is on the moving side: the higher-frequency one")
def _moving(L):
    e = L.sym("e", REF("IEdgeID"))
    c = L.sym("c", REF("ISurfaceCodeLayer"))
    L.define("q0", "e.qubit_ids[0]")
    L.define("q1", "e.qubit_ids[1]")
    L.assume("e.get_connected_qubit_id(q0) is q1 and e.get_connected_qubit_id(q1) is q0")
    L.assume("level(c.get_frequency_group_identifier(q0)._id) != level(c.get_frequency_group_identifier(q1)._id)")
    L.prove("exactly_one", "on_moving_side(q0, e, c) != on_moving_side(q1, e, c)")
    L.prove("higher_is_moving", "on_moving_side(get_higher_frequency_qubit_id(e, c), e, c)")
    L.prove("lower_is_not_moving", "not on_moving_side(get_lower_frequency_qubit_id(e, c), e, c)")
