"""C11 — flattening keeps the operations (the structural clauses; library identity is the bounded stand-in's)."""
from pyvc.api import *

P = ["C11"]
OP = REF("ICircuitOperation")
GB = REF("CircuitGraphBranch")
REL_FIELDS = [f"{c}.relation" for c in ["SingleQubitOperation", "TwoQubitOperation", "DispersiveMeasure", "Barrier", "CircuitCompositeOperation"]]
fields("CircuitCompositeOperation", _circuit_graph=GB)

# a fresh graph is empty (assumed constructor contract; the pointer layer is checked by the bounded stand-in of C02)
contract("CircuitGraphBranch.__new__", params=dict(self=GB), returns=None, verify=False, pure=True,
         ensures=["len(self.get_node_iterator()) == 0"])

NEW = "self._circuit_graph.get_node_iterator()"
OLD = "old(self.listing)"
contract("CircuitCompositeOperation.apply_flatten_to_self", params=dict(self=REF("CircuitCompositeOperation")), returns=OP, props=P, inst_depth=2,
         modifies=REL_FIELDS + ["graph", "CircuitCompositeOperation._circuit_graph"],
         requires=[
             # the listing lists leaf operations, each once (interface contract of decomposed_operations; C02)
             "forall_int(0, len(self.listing), lambda a: forall_int(0, a, lambda b: self.listing[a] is not self.listing[b]))",
             "forall(self.listing, lambda o: not isinstance(o, CircuitCompositeOperation))"],
         ensures=[
             "result is self",
             # exactly the listed leaf operations, each in exactly one node of the new graph: the leaf multiset is unchanged
             f"len({NEW}) == len({OLD})",
             f"forall({OLD}, lambda o: exists({NEW}, lambda n: n.operation is o))",
             f"forall({NEW}, lambda n: exists({OLD}, lambda o: n.operation is o))",
             # no sub-circuit remains
             f"forall({NEW}, lambda n: not isinstance(n.operation, CircuitCompositeOperation))",
         ],
         loops={0: ["seq_is(_xs, old(self.listing))",
                    "len(flatten_circuit_graph.get_node_iterator()) == _i",
                    "fresh(flatten_circuit_graph)",
                    "forall_int(0, _i, lambda j: exists(flatten_circuit_graph.get_node_iterator(), lambda n: n.operation is _xs[j]))",
                    "forall(flatten_circuit_graph.get_node_iterator(), lambda n: exists_int(0, _i, lambda j: n.operation is _xs[j]))"]})

# ---------------------------------------------------------------- DeclarativeCircuit.flatten (the public entry point)
DC = REF("DeclarativeCircuit")
S0 = "old(self._structure)"
contract("DeclarativeCircuit.flatten", params=dict(self=DC), returns=DC, props=P, inst_depth=2, fresh_result=True,
         modifies=REL_FIELDS + ["graph", "CircuitCompositeOperation._circuit_graph", "DeclarativeCircuit._structure", "DeclarativeCircuit._added_operations"],
         requires=["self._structure is not None",
                   "forall_int(0, len(self._structure.listing), lambda a: forall_int(0, a, lambda b: self._structure.listing[a] is not self._structure.listing[b]))",
                   "forall(self._structure.listing, lambda o: not isinstance(o, CircuitCompositeOperation))"],
         ensures=["fresh(result)", f"result._structure is {S0}", "seq_is(result._added_operations, old(self._added_operations))",
                  "result.nr_qubits == self.nr_qubits",
                  # the shared structure has been flattened (apply_flatten_to_self's contract): exactly the listed leaf operations, no sub-circuit
                  f"let({S0}, lambda s: len(s._circuit_graph.get_node_iterator()) == len(old(s.listing)) and "
                  "forall(old(s.listing), lambda o: exists(s._circuit_graph.get_node_iterator(), lambda n: n.operation is o)) and "
                  "forall(s._circuit_graph.get_node_iterator(), lambda n: not isinstance(n.operation, CircuitCompositeOperation)))"])
