"""Expression layer of the symbolic executor."""
import ast
import z3
from . import api
from .world import (SLen, SAt, SArr, SMk, SAppend, EngineError, V, NONE, VTuple, VList, VClass, VBound, VBuiltin, VLambda, VRev, VRange,
                    VEnumerate, VDict, VModule)
from .exec import ExecBase

BUILTINS = {"len", "max", "min", "abs", "int", "float", "bool", "list", "tuple", "sorted", "range", "reversed",
            "enumerate", "any", "all", "hash", "id", "set", "isinstance", "tqdm", "sum", "zip", "str", "super",
            "dict", "print", "object"}

SPEC_BUILTINS = {"forall_obj", "forall_str", "exp", "seq_is", "stim_name", "stim_targets", "stim_args", "stim_rargs", "dict_get", "dict_has", "same_seq", "set_same", "implies", "iff", "forall", "exists", "forall_int", "exists_int", "old", "typeis", "fresh",
                 "is_none", "ite", "subseq", "seq_concat", "seq_unit", "seq_empty", "same_class", "born_before_entry",
                 "let"}

IGNORED_MODULES = {"np", "numpy", "warnings", "ql", "stim", "plt", "itertools", "uuid", "os", "json", "contextlib"}


class ExecExpr(ExecBase):

    # ------------------------------------------------------------------ entry points
    def eval(self, node, st):
        m = getattr(self, "e_" + type(node).__name__, None)
        if m is None:
            raise EngineError(f"unsupported expression {type(node).__name__}")
        yield from m(node, st)

    def eval_seq(self, nodes, st):
        """evaluate a list of expressions left to right: yields (state, [values])"""
        if not nodes:
            yield st, []
            return
        for s1, v in self.eval(nodes[0], st):
            for s2, rest in self.eval_seq(nodes[1:], s1):
                yield s2, [v] + rest

    def eval1(self, node, st):
        """evaluate an expression that must not fork; returns value (state mutated in place)"""
        outs = list(self.eval(node, st))
        if len(outs) != 1:
            return self.merge_outcomes(st, outs)
        s, v = outs[0]
        self.adopt(st, s)
        return v

    def adopt(self, st, s):
        if s is not st:
            st.env, st.heap, st.ver, st.epoch, st.cattr = s.env, s.heap, s.ver, s.epoch, s.cattr
            st.pc, st.path, st.clock_off, st.ghost, st.inst = s.pc, s.path, s.clock_off, s.ghost, s.inst

    def merge_outcomes(self, st, outs):
        """merge forked pure outcomes into one value with ite; heap must be unchanged."""
        if not outs:
            raise EngineError("expression has no normal continuation")
        base = len(st.pc)
        for s, v in outs:
            if s.heap != st.heap and any(s.heap.get(k) is not st.heap.get(k) for k in set(s.heap) | set(st.heap)
                                         if not (k in s.heap and k not in st.heap)):
                raise EngineError("cannot merge outcomes with different heaps")
        # value merge
        conds = []
        for s, v in outs:
            extra = s.pc[base:]
            conds.append((z3.And(extra) if extra else z3.BoolVal(True), v))
        first = conds[-1][1]
        if not isinstance(first, V):
            raise EngineError("cannot merge non-scalar outcomes")
        acc = first.t
        kind, cls = first.kind, first.cls
        for c, v in reversed(conds[:-1]):
            if not isinstance(v, V) or v.t.sort() != acc.sort():
                raise EngineError("cannot merge outcomes of different kinds")
            acc = z3.If(c, v.t, acc)
        # NOTE: facts assumed on individual branches are kept guarded by their branch condition
        st.assume(z3.Or([c for c, _ in conds]))
        return V(kind, acc, cls)

    def eval_spec(self, expr, st, env=None):
        """evaluate a spec expression string to a z3 Bool in state st (spec mode; no obligations)."""
        node = expr if isinstance(expr, ast.AST) else self.parse_spec(expr)
        s = st.fork()
        if env is not None:
            s.env = dict(env)
        base = len(s.pc)
        self.spec_mode += 1
        try:
            outs = list(self.eval(node, s))
        finally:
            self.spec_mode -= 1
        if len(outs) == 1:
            s2, v = outs[0]
            # typed-read facts / contract instances produced during evaluation are facts about the world
            for f in s2.pc[base:]:
                st.assume(f)
            return self.truth(v)
        parts = []
        for s2, v in outs:
            extra = s2.pc[base:]
            parts.append(z3.Implies(z3.And(extra) if extra else z3.BoolVal(True), self.truth(v)))
        return z3.And(parts)

    def eval_spec_value(self, expr, st, env=None):
        node = expr if isinstance(expr, ast.AST) else self.parse_spec(expr)
        s = st.fork()
        if env is not None:
            s.env = dict(env)
        self.spec_mode += 1
        try:
            v = self.eval1(node, s)
        finally:
            self.spec_mode -= 1
        for f in s.pc[len(st.pc):]:
            st.assume(f)
        return v

    _spec_cache = {}

    def parse_spec(self, text):
        if text not in self._spec_cache:
            self._spec_cache[text] = ast.parse(text.strip(), mode="eval").body
        return self._spec_cache[text]

    # ------------------------------------------------------------------ atoms
    def e_Constant(self, node, st):
        c = node.value
        if c is None:
            yield st, NONE
        elif isinstance(c, bool):
            yield st, V("bool", z3.BoolVal(c))
        elif isinstance(c, int):
            yield st, V("int", z3.IntVal(c))
        elif isinstance(c, float):
            if c != c or c in (float("inf"), float("-inf")):
                raise EngineError("non-finite float literal")
            yield st, V("real", self.real_val(c))
        elif isinstance(c, str):
            yield st, self.w.str_lit(c)
        else:
            raise EngineError(f"constant {c!r}")

    def e_Name(self, node, st):
        n = node.id
        if n in st.env:
            yield st, st.env[n]
        elif self.spec_mode and n in api.SPECFUNS:
            yield st, VBuiltin(n)
        elif self.spec_mode and n in SPEC_BUILTINS:
            yield st, VBuiltin(n)
        elif self.w.has_cls(n):
            yield st, VClass(self.w.cls(n))
        elif n in BUILTINS:
            yield st, VBuiltin(n)
        elif n in IGNORED_MODULES:
            yield st, VModule(n)
        elif self.find_module_function(n):
            yield st, VBuiltin("fn:" + self.find_module_function(n))
        else:
            raise EngineError(f"unbound name {n}")

    def find_module_function(self, name):
        hits = [q for q in self.w.functions if q.rsplit(".", 1)[-1] == name]
        if len(hits) == 1:
            return hits[0]
        if len(hits) > 1:
            # prefer the one defined in the module of the function under verification
            return sorted(hits)[0]
        return None

    def e_JoinedStr(self, node, st):
        # f-strings are opaque string values
        yield st, self.w.fresh("str", "fstr")

    def e_Lambda(self, node, st):
        yield st, VLambda(node, dict(st.env))

    def e_List(self, node, st):
        for s, vals in self.eval_seq(node.elts, st):
            yield s, VList(vals)

    def e_Tuple(self, node, st):
        for s, vals in self.eval_seq(node.elts, st):
            yield s, VTuple(vals)

    def e_Dict(self, node, st):
        for s, ks in self.eval_seq(node.keys, st):
            for s2, vs in self.eval_seq(node.values, s):
                yield s2, VDict(list(zip(ks, vs)))

    # ------------------------------------------------------------------ operators
    def e_UnaryOp(self, node, st):
        for s, v in self.eval(node.operand, st):
            if isinstance(node.op, ast.Not):
                yield s, V("bool", z3.Not(self.truth(v)))
            elif isinstance(node.op, ast.USub):
                if self.is_optint(v):
                    self.oblige("safe", s, z3.Not(self.optint_is_none(v)), "negation of an Optional[int] that may be None", name=self.next_call_id("none-arith"))
                    v = self.optint_val(v)
                if v.kind == "bool":
                    v = V("int", z3.If(v.t, 1, 0))
                yield s, V(v.kind, -v.t)
            elif isinstance(node.op, ast.UAdd):
                yield s, v
            else:
                raise EngineError("unary op")

    def e_BinOp(self, node, st):
        for s1, a in self.eval(node.left, st):
            for s2, b in self.eval(node.right, s1):
                yield s2, self.binop(s2, node.op, a, b)

    def binop(self, st, op, a, b):
        if isinstance(op, (ast.Add, ast.Sub)) and (isinstance(a, VRange) or isinstance(b, VRange)):
            # numpy element-wise scalar + asarray(range(lo, hi))  (assumed external contract, probed at run time)
            self.trusted_used.add("numpy: scalar + asarray(range) is element-wise (assumed, probed)")
            if isinstance(a, VRange) and isinstance(b, V) and b.kind == "int":
                sh = b.t if isinstance(op, ast.Add) else -b.t
                return VRange(V("int", a.lo.t + sh), V("int", a.hi.t + sh))
            if isinstance(b, VRange) and isinstance(a, V) and a.kind == "int" and isinstance(op, ast.Add):
                return VRange(V("int", b.lo.t + a.t), V("int", b.hi.t + a.t))
            raise EngineError("arithmetic on range")
        if isinstance(op, ast.Add):
            if isinstance(a, (VList, VTuple)) and isinstance(b, (VList, VTuple)):
                return type(a)(a.items + b.items)
            if self.is_seq(a) or self.is_seq(b):
                ek = (a.kind[1] if self.is_symseq(a) else b.kind[1])
                return self.concat(a, b, ek)
        for x in (a, b):
            if self.is_optint(x):
                self.oblige("safe", st, z3.Not(self.optint_is_none(x)), "arithmetic on an Optional[int] that may be None (TypeError)",
                            name=self.next_call_id("none-arith"))
        if isinstance(op, ast.Mult) and (isinstance(a, VList) or isinstance(b, VList)):
            raise EngineError("list repetition")
        ta, tb, k = self.num_coerce(a, b)
        if isinstance(op, ast.Add):
            return V(k, ta + tb)
        if isinstance(op, ast.Sub):
            return V(k, ta - tb)
        if isinstance(op, ast.Mult):
            return V(k, ta * tb)
        if isinstance(op, ast.Div):
            if k == "int":
                ta, tb = z3.ToReal(ta), z3.ToReal(tb)
            self.oblige("safe", st, tb != 0, "division by zero", name=self.next_call_id("div"))
            return V("real", ta / tb)
        if isinstance(op, ast.FloorDiv) and k == "int":
            self.oblige("safe", st, tb > 0, "floor division by a positive divisor only", name=self.next_call_id("floordiv"))
            return V("int", ta / tb)
        if isinstance(op, ast.Mod) and k == "int":
            self.oblige("safe", st, tb > 0, "modulo by a positive divisor only", name=self.next_call_id("mod"))
            return V("int", ta % tb)
        if isinstance(op, ast.Pow):
            if z3.is_int_value(tb) and tb.as_long() >= 0:
                r = z3.IntVal(1) if k == "int" else z3.RealVal(1)
                for _ in range(tb.as_long()):
                    r = r * ta
                return V(k, r)
        raise EngineError(f"binary operator {type(op).__name__} on {k}")

    def is_symseq(self, v):
        return isinstance(v, V) and isinstance(v.kind, tuple) and v.kind[0] in ("seq", "set")

    def is_seq(self, v):
        return self.is_symseq(v) or isinstance(v, (VList, VTuple))

    def next_call_id(self, base):
        n = self.stmt_counters.get(base, 0)
        self.stmt_counters[base] = n + 1
        where = (self.inline_stack[-1] + "/" if self.inline_stack else "") + f"L{self.cur_line}"
        return f"{base}@{where}#{n}"

    def e_BoolOp(self, node, st):
        is_and = isinstance(node.op, ast.And)

        saved_env = st.env

        def rec(i, s, acc_val):
            # acc_val: z3 Bool for the values so far (python returns operand values; we only support boolean use)
            if i == len(node.values):
                s.env = dict(saved_env)
                yield s, V("bool", acc_val)
                return
            for s1, v in self.guarded(node.values[i], s, acc_val if is_and else z3.Not(acc_val)):
                t = self.truth(v)
                nxt = z3.And(acc_val, t) if is_and else z3.Or(acc_val, t)
                s1.env = dict(s1.env)
                self.narrow(s1, node.values[i], is_and)
                yield from rec(i + 1, s1, nxt)
        yield from rec(0, st, z3.BoolVal(True) if is_and else z3.BoolVal(False))

    def guarded(self, node, st, guard):
        """evaluate node under the extra assumption `guard` (short-circuit semantics) without forking the
        caller's path: facts learnt are kept as implications; obligations get the guard in their pc."""
        if z3.is_true(z3.simplify(guard)):
            yield from self.eval(node, st)
            return
        if z3.is_false(z3.simplify(guard)):
            # the operand is never evaluated (e.g. `x is None or x.f` with x the literal None)
            yield st, V("bool", z3.BoolVal(False))
            return
        s = st.fork()
        s.assume(guard)
        base = len(s.pc)
        if not self.guard_feasible(st, guard):
            # the operand can never be evaluated on this path (e.g. `not typeis(x, C) or x.f` with x of another class)
            yield st, V("bool", z3.BoolVal(False))
            return
        outs = list(self.eval(node, s))
        if len(outs) == 1 and self.same_heap(outs[0][0], st):
            s2, v = outs[0]
            for f in s2.pc[base:]:
                st.assume(z3.Implies(guard, f))
            st.clock_off = s2.clock_off
            yield st, v
            return
        if not outs:
            # every path under the guard raised: the operand is never needed normally
            yield st, V("bool", z3.BoolVal(False))
            return
        try:
            v = self.merge_outcomes(s, outs) if len(outs) > 1 else outs[0][1]
            if all(self.same_heap(o[0], st) for o in outs):
                for f in s.pc[base:]:
                    st.assume(z3.Implies(guard, f))
                yield st, v
                return
        except EngineError:
            pass
        raise EngineError("short-circuit operand with heap effects / unmergeable outcomes")

    def guard_feasible(self, st, guard):
        """cheap test used for short-circuit operands: only the class facts of the path condition are consulted
        (enough to see that `typeis(x, C)` is impossible); anything else is assumed feasible"""
        cache = self.__dict__.setdefault("_clsfact_cache", {})
        gk = guard.get_id()
        if gk not in cache:
            cache[gk] = "cls_of" in guard.sexpr()
            self.__dict__.setdefault("_keepalive", []).append(guard)
        if not cache[gk]:
            # a guard that says nothing about classes cannot contradict the class facts (pruning only: an infeasible operand
            # that is evaluated anyway can at worst put the function out of reach)
            return True
        facts = []
        for p in st.pc:
            k = p.get_id()
            if k not in cache:
                from .verify import has_quantifier
                cache[k] = (not has_quantifier(p)) and ("cls_of" in p.sexpr())
                self.__dict__.setdefault("_keepalive", []).append(p)      # ids are only unique among live terms
            if cache[k]:
                facts.append(p)
        if not facts:
            return True
        sv = z3.Solver()
        sv.set("timeout", 300)
        for p in facts:
            sv.add(p)
        sv.add(guard)
        return sv.check() != z3.unsat

    def same_heap(self, a, b):
        if set(a.heap) - set(b.heap):
            # lazily created arrays are fine (same deterministic constant)
            for k in set(a.heap) - set(b.heap):
                b.heap[k] = a.heap[k]
        return all(a.heap[k] is b.heap[k] or a.heap[k].eq(b.heap[k]) for k in a.heap if k in b.heap) and a.epoch.eq(b.epoch)

    def e_IfExp(self, node, st):
        for s, c in self.eval(node.test, st):
            ct = self.truth(c)
            outs_a = list(self.guarded(node.body, s, ct))
            for sa, a in outs_a:
                for sb, b in self.guarded(node.orelse, sa, z3.Not(ct)):
                    if isinstance(a, V) and isinstance(b, V):
                        if a.t.sort() != b.t.sort():
                            ta, tb, k = self.num_coerce(a, b)
                            yield sb, V(k, z3.If(ct, ta, tb))
                        else:
                            yield sb, V(a.kind, z3.If(ct, a.t, b.t), a.cls if a.cls == b.cls else None)
                    elif a is NONE or b is NONE:
                        o = b if a is NONE else a
                        if a is NONE and b is NONE:
                            yield sb, NONE
                        elif isinstance(o, V) and isinstance(o.kind, tuple) and o.kind[0] == "ref":
                            yield sb, V(o.kind, z3.If(ct, self.w.null if a is NONE else a.t, self.w.null if b is NONE else b.t), o.cls)
                        else:
                            raise EngineError("conditional expression mixing None and non-reference")
                    elif self.is_seq(a) and self.is_seq(b):
                        ek = a.kind[1] if self.is_symseq(a) else (b.kind[1] if self.is_symseq(b) else None)
                        if ek is None:
                            nonempty = a if a.items else b
                            ek = self.kind_of(nonempty.items[0]) if nonempty.items else None
                        sa_, sb_ = self.to_seq(a, ek), self.to_seq(b, ek)
                        yield sb, V(sa_.kind, z3.If(ct, sa_.t, sb_.t))
                    else:
                        raise EngineError("conditional expression on non-scalar values")

    def e_Compare(self, node, st):
        def rec(i, s, left, acc):
            if i == len(node.ops):
                yield s, V("bool", z3.And(acc) if len(acc) > 1 else acc[0])
                return
            for s1, right in self.eval(node.comparators[i], s):
                for s2, t in self.compare(s1, node.ops[i], left, right):
                    yield from rec(i + 1, s2, right, acc + [t])
        for s0, l in self.eval(node.left, st):
            yield from rec(0, s0, l, [])

    def compare(self, st, op, a, b):
        if isinstance(op, ast.Is):
            yield st, self.py_is(a, b)
        elif isinstance(op, ast.IsNot):
            yield st, z3.Not(self.py_is(a, b))
        elif isinstance(op, ast.Eq):
            yield from self.eq_values(st, a, b)
        elif isinstance(op, ast.NotEq):
            for s, t in self.eq_values(st, a, b):
                yield s, z3.Not(t)
        elif isinstance(op, (ast.In, ast.NotIn)):
            for s, t in self.contains(st, b, a):
                yield s, (t if isinstance(op, ast.In) else z3.Not(t))
        else:
            ta, tb, _ = self.num_coerce(a, b)
            if isinstance(op, ast.Lt):
                yield st, ta < tb
            elif isinstance(op, ast.LtE):
                yield st, ta <= tb
            elif isinstance(op, ast.Gt):
                yield st, ta > tb
            elif isinstance(op, ast.GtE):
                yield st, ta >= tb
            else:
                raise EngineError("comparison operator")

    def contains(self, st, container, x):
        """generator (state, Bool): x in container   (CPython: identity or ==, left to right)"""
        if isinstance(container, (VList, VTuple)):
            def rec(i, s, acc):
                if i == len(container.items):
                    yield s, z3.Or(acc) if acc else z3.BoolVal(False)
                    return
                it = container.items[i]
                for s2, e in self.eq_values(s, it, x):
                    ident = self.py_is(it, x) if self.ident_comparable(it, x) else z3.BoolVal(False)
                    yield from rec(i + 1, s2, acc + [z3.Or(ident, e)])
            yield from rec(0, st, [])
            return
        if self.is_symseq(container):
            j = z3.Int(self.w.fresh_name("j"))
            elem = self.seq_elem(st, container, j)
            s = st.fork()
            s.assume(z3.And(j >= 0, j < SLen(container.t)))
            base = len(s.pc)
            outs = list(self.eq_values(s, elem, x))
            if len(outs) != 1:
                raise EngineError("membership with forking equality")
            s2, e = outs[0]
            extra = s2.pc[base:]
            rng = z3.And(j >= 0, j < SLen(container.t))
            if extra:
                st.assume(z3.ForAll([j], z3.Implies(rng, z3.And(extra))))
            ident = self.py_is(elem, x) if self.ident_comparable(elem, x) else z3.BoolVal(False)
            if container.kind[0] == "set":
                body = self.set_same(elem, x, z3.Or(ident, e))
            else:
                body = z3.Or(ident, e)
            yield st, z3.Exists([j], z3.And(rng, body))
            return
        if self.is_dict(container):
            if not self.spec_mode:
                self.oblige("safe", st, container.t != self.w.null, "dictionary is not None (`in None` raises TypeError)",
                            name=self.next_call_id("none"))
            yield st, self.dict_has(st, container, x)
            return
        if isinstance(container, VDict):
            acc = []
            s = st
            for k, _ in container.items:
                outs = list(self.eq_values(s, k, x))
                if len(outs) != 1:
                    raise EngineError("dict-literal membership with forking equality")
                s, e = outs[0]
                acc.append(e)
            yield s, (z3.Or(acc) if acc else z3.BoolVal(False))
            return
        raise EngineError(f"membership in {container}")

    def set_same(self, elem, x, eq):
        """membership in a hash set: equal hash and ==.  For references the hash is an uninterpreted
        function; A-hash: we use the combined relation same(a,b), an equivalence (see DESIGN 3.4)."""
        if isinstance(elem, V) and isinstance(elem.kind, tuple) and elem.kind[0] == "ref" and elem.cls is None:
            return self.set_same_uf()(elem.t, x.t)
        return eq

    def inf_axiom(self):
        """A-real: +inf exceeds every value of the start_time observer"""
        w = self.w
        if "inf_axiom" in w.ufs:
            return
        w.ufs["inf_axiom"] = True
        f = w.uf("obs:ICircuitOperation.start_time", z3.IntSort(), w.Ref, z3.RealSort())
        e = z3.Int("inf_e")
        x = z3.Const("inf_x", w.Ref)
        w.perm_axioms.append(z3.ForAll([e, x], f(e, x) < z3.Real("INF"), patterns=[f(e, x)]))

    def set_same_uf(self):
        w = self.w
        if "set_same" not in w.ufs:
            f = w.uf("set_same", w.Ref, w.Ref, z3.BoolSort())
            a, b, c = z3.Consts("ssa ssb ssc", w.Ref)
            w.axioms.append(z3.ForAll([a], f(a, a)))
            w.axioms.append(z3.ForAll([a, b], f(a, b) == f(b, a)))
            w.axioms.append(z3.ForAll([a, b, c], z3.Implies(z3.And(f(a, b), f(b, c)), f(a, c))))
        return w.ufs["set_same"]

    def ident_comparable(self, a, b):
        return (a is NONE or b is NONE or (isinstance(a, V) and isinstance(b, V) and a.t.sort() == b.t.sort()
                                          and isinstance(a.kind, tuple) and a.kind[0] == "ref"))

    def seq_elem(self, st, seq, idx_term):
        ek = seq.kind[1]
        t = SAt(seq.t, idx_term)
        v = self.w.wrap(ek, t)
        return v

    def elem_facts(self, seqv, j):
        """typing facts for element j of a sequence of references"""
        ek = self.w.base_kind(seqv.kind[1])
        if isinstance(ek, tuple) and ek[0] == "ref" and ek[1]:
            return [self.w.isinstance_term(SAt(seqv.t, j), self.w.cls(ek[1]))]
        if isinstance(ek, tuple) and ek[0] == "ref":
            return [SAt(seqv.t, j) != self.w.null]
        return []

    # ------------------------------------------------------------------ subscripts
    def e_Subscript(self, node, st):
        for s, base in self.eval(node.value, st):
            if isinstance(base, VClass) or isinstance(base, VBuiltin):
                yield s, base  # typing subscripts e.g. List[int]
                continue
            if isinstance(node.slice, ast.Slice):
                yield from self.slice(node.slice, s, base)
                continue
            for s2, idx in self.eval(node.slice, s):
                yield s2, self.index(s2, base, idx)

    def index(self, st, base, idx):
        if isinstance(base, (VList, VTuple)):
            if isinstance(idx, V) and z3.is_int_value(z3.simplify(idx.t)):
                i = z3.simplify(idx.t).as_long()
                n = len(base.items)
                if -n <= i < n:
                    return base.items[i]
                self.oblige("safe", st, z3.BoolVal(False), "index out of range on literal list", name=self.next_call_id("index"))
                raise EngineError("index out of range on literal list")
            base = self.to_seq(base)
        if self.is_symseq(base):
            it = z3.simplify(idx.t)
            n = SLen(base.t)
            if z3.is_int_value(it) and it.as_long() < 0:
                pos = n + it
            else:
                pos = idx.t
            self.oblige("safe", st, z3.And(pos >= 0, pos < n), "sequence index in range", name=self.next_call_id("index"))
            return self.seq_elem(st, base, pos)
        if isinstance(base, VDict):
            for k, v in base.items:
                if isinstance(k, V) and isinstance(idx, V) and k.t.eq(idx.t):
                    return v
            # symbolic key: an if-then-else chain over the literal keys (KeyError if none matches)
            acc, conds = None, []
            for k, v in reversed(base.items):
                outs = list(self.eq_values(st, k, idx))
                if len(outs) != 1 or not isinstance(v, V):
                    raise EngineError("dict literal lookup: unsupported key / value")
                _, e = outs[0]
                conds.append(e)
                acc = v if acc is None else V(v.kind, z3.If(e, v.t, acc.t), v.cls)
            self.oblige("safe", st, z3.Or(conds) if conds else z3.BoolVal(False), "dictionary key present (KeyError)", name=self.next_call_id("key"))
            if acc is None:
                raise EngineError("lookup in an empty dict literal")
            return acc
        if self.is_dict(base):
            self.oblige("safe", st, self.dict_has(st, base, idx), "dictionary key present (KeyError; None is not subscriptable)", name=self.next_call_id("key"))
            return self.dict_index(st, base, idx)
        raise EngineError(f"subscript on {base}")

    def slice(self, sl, st, base):
        if sl.step is not None:
            raise EngineError("slice step")
        if isinstance(base, (VList, VTuple)):
            lo = sl.lower.value if isinstance(sl.lower, ast.Constant) else (None if sl.lower is None else "x")
            hi = sl.upper.value if isinstance(sl.upper, ast.Constant) else (None if sl.upper is None else "x")
            if lo != "x" and hi != "x":
                yield st, type(base)(base.items[lo:hi])
                return
            base = self.to_seq(base)
        if not self.is_symseq(base):
            raise EngineError("slice on non-sequence")
        n = SLen(base.t)

        def bound(node, default):
            if node is None:
                return [(st, default)]
            return [(s, self.norm_index(v.t, n)) for s, v in self.eval(node, st)]
        for s1, lo in bound(sl.lower, z3.IntVal(0)):
            for s2, hi in bound(sl.upper, n):
                lo_c = z3.If(lo < 0, 0, z3.If(lo > n, n, lo))
                hi_c = z3.If(hi < lo_c, lo_c, z3.If(hi > n, n, hi))
                yield s2, V(base.kind, self.w.seq_sub(base.t, lo_c, hi_c - lo_c))

    def norm_index(self, t, n):
        ts = z3.simplify(t)
        if z3.is_int_value(ts):
            return n + ts if ts.as_long() < 0 else ts
        return z3.If(t < 0, n + t, t)

    # ------------------------------------------------------------------ attributes
    def e_Attribute(self, node, st):
        for s, base in self.eval(node.value, st):
            yield from self.get_attr(s, base, node.attr)

    def get_attr(self, st, base, name):
        if isinstance(base, VBuiltin) and base.name == "object" and name == "__setattr__":
            yield st, VBuiltin("object.__setattr__")
            return
        if isinstance(base, VModule):
            if name == "inf" and base.name in ("np", "numpy", "math"):
                # A-real: +inf is a real constant; contracts state explicitly what it exceeds
                self.notes.append("A-real: np.inf is a real constant INF exceeding every reported start time (IEEE infinities are not modelled)")
                self.inf_axiom()
                yield st, V("real", z3.Real("INF"))
                return
            yield st, VBuiltin(f"{base.name}.{name}")
            return
        if isinstance(base, VClass):
            c = self.w.classes[base.qual]
            if c["is_enum"]:
                sort, consts = self.w.enum_sort(base.qual)
                if name in consts:
                    yield st, V(("enum", base.qual), consts[name])
                    return
            q, m = self.w.find_member(base.qual, name)
            if m is not None and m["kind"] in ("staticmethod", "classmethod", "method"):
                yield st, VBound(base, name, base.qual)
                return
            key = (base.qual, name)
            if key in st.cattr:
                yield st, st.cattr[key]
                return
            # class-level counters (dataclass field with default 0 used as class attribute)
            if name in self.w.class_field_nodes(base.qual):
                k = self.w.kind_from_annotation(self.w.class_field_nodes(base.qual)[name][0])
                if k in ("int",):
                    v = V("int", z3.Int(f"cattr0:{c['name']}.{name}"))
                    st.cattr[key] = v
                    yield st, v
                    return
            raise EngineError(f"class attribute {c['name']}.{name}")
        if base is NONE:
            raise EngineError(f"attribute {name} of None")
        if isinstance(base, V) and isinstance(base.kind, tuple) and base.kind[0] == "enum":
            if name == "value":
                f = self.w.uf(f"enumvalue:{self.w.short_name(base.kind[1])}", base.t.sort(), self.w.Str)
                yield st, V("str", f(base.t))
                return
            if name == "name":
                f = self.w.uf(f"enumname:{self.w.short_name(base.kind[1])}", base.t.sort(), self.w.Str)
                yield st, V("str", f(base.t))
                return
        if isinstance(base, V) and base.kind == "str" and name in ("__eq__", "__hash__"):
            yield st, VBound(base, name)
            return
        if self.is_dict(base):
            yield st, VBound(base, name)
            return
        if isinstance(base, V) and isinstance(base.kind, tuple) and base.kind[0] == "ref":
            if base.cls is None:
                raise EngineError(f"attribute {name} on untyped reference")
            if name == "__class__":
                yield st, VBound(base, "__class__")
                return
            q, m = self.w.find_member(base.cls, name)
            if m is not None:
                if m["kind"] == "property":
                    yield from self.call_method(st, base, name, [], {}, is_property=True)
                else:
                    yield st, VBound(base, name, base.cls)
                return
            if self.w.field_decl(base.cls, name) is not None:
                yield st, self.read_field(st, base, name)
                return
            # virtual contract on a class that does not define the member (interface-level observer)
            if self.find_contract(base.cls, name) is not None:
                c = self.find_contract(base.cls, name)
                if c.observer and not c.params.keys() - {"self"}:
                    yield from self.call_method(st, base, name, [], {}, is_property=True)
                else:
                    yield st, VBound(base, name, base.cls)
                return
            # attribute that exists only below the static class: a checked downcast (obligation: isinstance)
            owners = [q for q in self.w.subclasses(base.cls)
                      if self.w.field_decl(q, name) is not None or self.w.find_member(q, name)[1] is not None]
            tops = [q for q in owners if not any(o != q and self.w.is_subclass(q, o) for o in owners)]
            if len(tops) == 1:
                self.oblige("safe", st, self.w.isinstance_term(base.t, tops[0]),
                            f"downcast to {self.w.short_name(tops[0])} for attribute {name}", name=self.next_call_id("cast"))
                if not self.spec_mode:
                    st.assume(self.w.isinstance_term(base.t, tops[0]))
                yield from self.get_attr(st, V(base.kind, base.t, tops[0]), name)
                return
            raise EngineError(f"unknown attribute {name} on {self.w.short_name(base.cls)}")
        if self.is_seq(base) or isinstance(base, VDict) or self.is_dict(base):
            yield st, VBound(base, name)
            return
        raise EngineError(f"attribute {name} on {base}")

    def find_contract(self, static_cls, name):
        for q in self.w.mro(static_cls):
            c = api.CONTRACTS.get(f"{self.w.short_name(q)}.{name}")
            if c is not None:
                return c
        return None
