"""Function-by-function verification against sidecar contracts; lemma layer; solver back ends."""
import ast, json, os, subprocess, tempfile, time, traceback
import z3
from . import api
from .world import World, EngineError, V, NONE, VList, VTuple, VClass
from .state import State
from .exec_stmt import Executor
from .exec import Obligation

QUICK_TIMEOUT_MS = 10000
THOROUGH_TIMEOUT_MS = 60000


def locate(world, cname, override_src=None):
    """contract name -> (record, defining class qual | None)"""
    cname = cname.split(":")[0]        # "<function>:<variant>" = contract variant of the same function (overload by argument kind)
    parts = cname.split(".")
    if parts[-1] == "setter":
        cls, prop = parts[0], parts[1]
        q = world.cls(cls)
        dq, m = world.find_member(q, prop)
        if m is None or "setter" not in m:
            raise EngineError(f"{cname}: no such setter")
        return m["setter"], dq, q
    if world.has_cls(parts[0]) and len(parts) == 2:
        q = world.cls(parts[0])
        dq, m = world.find_member(q, parts[1])
        if m is None:
            raise EngineError(f"{cname}: no such member")
        return m, dq, q
    hits = [k for k in world.functions if k.endswith("." + cname) or k == cname]
    if len(hits) != 1:
        raise EngineError(f"{cname}: function not found / ambiguous: {hits}")
    return world.functions[hits[0]], None, None


class FnResult:
    def __init__(self, name):
        self.name = name
        self.status = "ok"          # ok | out_of_reach | engine_error
        self.reason = ""
        self.obligations = []       # dicts
        self.trusted = []
        self.inlined = []
        self.notes = []
        self.file = ""
        self.lineno = 0
        self.sha = ""
        self.dropped = []
        self.seconds = 0.0
        self.paths = 0
        self.contract_name = name


def make_param(ex, st, name, kind):
    w = ex.w
    v = w.fresh(kind, name)
    v.t = z3.Const(f"arg:{name}", w.sort_of(kind))
    bk = w.base_kind(kind)
    if isinstance(bk, tuple) and bk[0] == "ref" and bk[1]:
        v.cls = w.cls(bk[1])
    for f in ex.type_facts(st, v, kind):
        st.assume(f)
    return v


def assume_classinv(ex, st, v, kind):
    w = ex.w
    bk = w.base_kind(kind)
    if isinstance(bk, tuple) and bk[0] == "ref" and bk[1] and isinstance(v, V):
        for q in w.mro(w.cls(bk[1])):
            for e in api.CLASSINV.get(w.short_name(q), []):
                t = ex.eval_spec(e, st, {"self": v})
                st.assume(z3.Implies(v.t != w.null, t))


def verify_function(world, cname, prop, timeout_ms=QUICK_TIMEOUT_MS, source_override=None, refine_of=None, part=None):
    """Verify the real body of `cname` against its contract (or, for refinement, against contract refine_of)."""
    res = FnResult(cname)
    res.contract_name = refine_of or cname
    t0 = time.time()
    c = api.CONTRACTS[refine_of or cname]
    own = api.CONTRACTS.get(cname)
    if refine_of and own is not None and own is not c and own.loops:
        # the implementation's own contract supplies the loop invariants for the refinement proof
        import copy
        c = copy.copy(c)
        c.loops, c.inst_depth, c.ghosts = own.loops, own.inst_depth, own.ghosts
    try:
        rec, dq, q = locate(world, cname)
        if source_override is not None:
            rec = dict(rec)
            rec["source"] = source_override
            rec["sha"] = "override:" + str(hash(source_override))
        res.file, res.lineno, res.sha = rec["file"], rec["lineno"], rec["sha"]
        res.dropped = [d for d in rec.get("decorators", [])]
        fn = world.fn_ast(rec)
        ex = Executor(world, fn_label=f"{prop}:{cname}")
        ex.contract = c
        ex.max_inst_depth = c.inst_depth

        def loops_in_order(node, acc):
            for ch in ast.iter_child_nodes(node):
                if isinstance(ch, (ast.For, ast.While)):
                    acc.append(ch)
                loops_in_order(ch, acc)
            return acc
        ex.loop_ids = {id(n): k for k, n in enumerate(loops_in_order(fn, []))}
        ex.cur_cls = q if q else dq
        st = State(world)
        st.heap_closure = bool(getattr(c, "heap_closure", False))
        env = {}
        for n, k in c.params.items():
            kk = k
            if n == "self" and refine_of and q:
                kk = ("ref", world.short_name(q))
            env[n] = make_param(ex, st, n, kk)
        st.env = dict(env)
        if refine_of and q and "self" in env and isinstance(env["self"], V):
            # the body under verification runs only for receivers whose class RESOLVES the member to this implementation
            # (a subclass that overrides it never executes this body)
            mname = cname.split(":")[0].split(".")[1] if "." in cname else None
            allowed = [cq for cq in [q] + world.subclasses(q)
                       if not world.classes[cq].get("is_abstract") and mname and world.find_member(cq, mname)[0] == dq]
            if allowed:
                st.assume(z3.Or([world.cls_of(env["self"].t) == world.class_id[cq] for cq in allowed]))
        st.pre = st.snapshot()
        for n, k in c.params.items():
            assume_classinv(ex, st, env[n], k)
        env_l = ex.with_lets(st, c, dict(env))
        ex.let_env = {k: v for k, v in env_l.items() if k not in env}
        for r in c.requires:
            st.assume(ex.eval_spec(r, st, env_l))
        st.pre = st.snapshot()
        st.pre.pre = st.pre
        ex.obligations.append(Obligation(f"{prop}:{cname}:cover", "cover", st.pc, z3.BoolVal(True), "requires is satisfiable"))
        # parameter names of the real signature must match the contract
        sig = [a.arg for a in fn.args.posonlyargs + fn.args.args + fn.args.kwonlyargs]
        if rec["kind"] == "classmethod":
            sig = sig[1:]
        if sig != list(c.params):
            raise EngineError(f"signature {sig} does not match contract parameters {list(c.params)}")
        st.env = dict(env)
        if fn.args.kwarg:
            from .world import VDict
            st.env[fn.args.kwarg.arg] = VDict([])      # verified for calls without extra keyword arguments
            ex.notes.append("**kwargs assumed empty")
        if any(isinstance(n, ast.Yield) for n in ast.walk(fn)) and c.returns is not None:
            st.env["__yielded__"] = ex.to_seq(VList([]), world.base_kind(c.returns)[1])
        outs = ex.exec_block(fn.body, st)
        outs.extend(ex.drain_pending())
        res.paths = len(outs)
        nret = 0
        for s, oc in outs:
            if oc is None:
                oc = ("return", NONE)
            if oc[0] == "return" and oc[1] is NONE and "__yielded__" in s.env:
                oc = ("return", s.env["__yielded__"])
            if oc[0] == "return":
                nret += 1
                envp = dict(env)
                val = oc[1]
                if c.returns is not None:
                    try:
                        val = ex.coerce_param(val, c.returns) if val is not NONE or True else val
                    except EngineError as e:
                        if "static type mismatch" in str(e):
                            ex.oblige("post", s, z3.BoolVal(False), f"returned object has the wrong class: {e}", name="post:return-class")
                            continue
                        raise EngineError(f"return value {oc[1]} does not fit declared kind {c.returns}: {e}")
                envp["result"] = val
                for gname in c.ghosts:
                    if gname not in s.env:
                        raise EngineError(f"ghost result {gname} not defined at return")
                    envp[gname] = s.env[gname]
                envp = ex.with_lets(s, c, envp)
                for k, e in enumerate(c.ensures):
                    t = ex.eval_spec(e, s, envp)
                    ex.oblige("post", s, t, f"ensures {e}", name=f"post{k}")
                ex.obligations.append(Obligation(f"{prop}:{cname}:canary", "canary", s.pc, z3.BoolVal(True), "some return path is reachable", s.path))
            elif oc[0] == "raise":
                when = c.raises.get(oc[1]) or c.raises.get("*")
                if when is not None:
                    envp = ex.with_lets(s, c, dict(env))
                    saved = s.pre
                    t = ex.eval_spec(when, s, envp)
                    ex.oblige("raise", s, t, f"raises {oc[1]} only when {when}", name=f"raises:{oc[1]}")
                elif c.allow_raise:
                    pass
                else:
                    ex.oblige("noraise", s, z3.BoolVal(False), f"{oc[1]} must be unreachable under requires", name=f"noraise:{oc[1]}")
            else:
                raise EngineError(f"outcome {oc[0]} at function level")
        # `raises` clauses are two-sided: when the condition holds on entry the function must not return normally
        for exc, when in c.raises.items():
            if exc == "*":
                continue
            for s, oc in outs:
                if oc is None or oc[0] == "return":
                    envp = ex.with_lets(s, c, dict(env))
                    pre = s.pre.fork()
                    pre.pc = list(s.pc)
                    t = ex.eval_spec(when, pre, envp)
                    s2 = s.fork()
                    for f in pre.pc[len(s.pc):]:
                        s2.assume(f)
                    ex.oblige("raise", s2, z3.Not(t), f"returns normally only when not ({when})", name=f"raises:{exc}:complete")
        res.trusted = sorted(ex.trusted_used)
        res.inlined = sorted(ex.inlined)
        res.notes = sorted(set(ex.notes))
        from .witness import Prober
        prober = Prober(world, ex, st.pre, env, c)
        obs = ex.obligations
        res.n_generated = len(obs)
        res.ob_ids = [o.id + '@' + str(o.path) for o in obs]
        if part is not None:
            # symbolic execution is deterministic: process r of k solves obligations r, r+k, ... of the same list
            obs = [o for j, o in enumerate(obs) if j % part[1] == part[0]]
            res.part_index = [j for j in range(res.n_generated) if j % part[1] == part[0]]
        res.obligations = solve_all(world, obs, timeout_ms, prober)
    except EngineError as e:
        res.status = "out_of_reach"
        res.reason = str(e)
    except Exception as e:  # engine bug: never a verdict about the repository
        res.status = "engine_error"
        res.reason = f"{type(e).__name__}: {e}\n{traceback.format_exc()[-1500:]}"
    res.seconds = round(time.time() - t0, 3)
    return res


# ---------------------------------------------------------------------------------- solving
def model_to_dict(m, limit=60):
    out = {}
    for d in m.decls():
        if d.arity() == 0:
            n = d.name()
            if n.startswith("arg:") or n.startswith("H0:") or n.startswith("cattr0:") or len(out) < limit:
                try:
                    out[n] = str(m[d])[:400]
                except Exception:
                    pass
    return out


def run_external(smt2, tool, timeout_s):
    with tempfile.NamedTemporaryFile("w", suffix=".smt2", delete=False, dir=os.environ.get("PYVC_TMP", None)) as fh:
        fh.write(smt2)
        path = fh.name
    try:
        if tool == "cvc5":
            cmd = ["/usr/bin/cvc5", "--strings-exp", f"--tlimit={int(timeout_s*1000)}", path]
        else:
            cmd = ["/usr/bin/z3", f"-T:{int(timeout_s)}", path]
        p = subprocess.run(cmd, capture_output=True, text=True, timeout=timeout_s + 5)
        out = (p.stdout or "").strip().splitlines()
        return out[0] if out else "unknown"
    except Exception:
        return "unknown"
    finally:
        os.unlink(path)


def has_quantifier(t):
    seen = set()
    stack = [t]
    while stack:
        x = stack.pop()
        if x.get_id() in seen:
            continue
        seen.add(x.get_id())
        if z3.is_quantifier(x):
            return True
        stack.extend(x.children())
    return False


def seq_terms(exprs):
    """ground sub-terms of sequence sort (for the small-scope restriction)"""
    out, seen = {}, set()
    stack = list(exprs)
    while stack:
        x = stack.pop()
        if x.get_id() in seen:
            continue
        seen.add(x.get_id())
        if z3.is_quantifier(x):
            stack.append(x.body())
            continue
        if z3.is_app(x):
            stack.extend(x.children())
            if x.sort().name().startswith("Seq<") and x.decl().kind() != z3.Z3_OP_ITE:
                has_var = False
                st2 = [x]
                seen2 = set()
                while st2:
                    y = st2.pop()
                    if y.get_id() in seen2:
                        continue
                    seen2.add(y.get_id())
                    if z3.is_var(y):
                        has_var = True
                        break
                    if z3.is_app(y):
                        st2.extend(y.children())
                if not has_var:
                    out[x.get_id()] = x
    return list(out.values())


def small_scope_model(world, ob, timeout_ms):
    """the full query plus `every sequence that is mentioned has length <= 2`: a model of the restricted query is a model of the
    full query, so `sat` here is a genuine refutation (small-scope search); `unsat`/`unknown` here decide nothing"""
    from .world import SLen
    for bound in (2, 3):
        s = z3.Solver()
        s.set("timeout", min(timeout_ms, 8000))
        for a in world.global_axioms():
            s.add(a)
        for p in ob.pc:
            s.add(p)
        s.add(z3.Not(ob.goal))
        for t in seq_terms(list(ob.pc) + [ob.goal]):
            s.add(z3.And(SLen(t) >= 0, SLen(t) <= bound))
        if s.check() == z3.sat:
            return s.model()
    return None


def candidate_models(world, ob, timeout_ms, prober, limit=24):
    """several diverse candidate inputs on the path of the obligation (quantified hypotheses dropped)"""
    out = []
    try:
        shape = prober.shape_constraints(True)
        atoms = prober.diversity_atoms()
    except Exception:
        return out
    s = z3.Solver()
    s.set("timeout", 2000)
    for p in ob.pc:
        if not has_quantifier(p):
            s.add(p)
    cs = list(world.str_consts.values())
    if len(cs) > 1:
        s.add(z3.Distinct(*cs))
    for c in shape:
        s.add(c)
    for _ in range(limit):
        if s.check() != z3.sat:
            break
        m = s.model()
        out.append(m)
        block = []
        for a in atoms:
            v = m.eval(a, model_completion=True)
            block.append(a != v)
        if not block:
            break
        s.add(z3.Or(block))
    return out


def candidate_model(world, ob, timeout_ms, prober=None):
    if prober is not None:
        # first: the FULL query restricted to tiny shapes (sequence lengths <= 3, small integers): with such a small domain
        # model-based instantiation usually terminates with a genuine counter-model of the encoding
        try:
            shape = prober.shape_constraints(True)
            s = z3.Solver()
            s.set("timeout", min(timeout_ms, 6000))
            for a in world.global_axioms():
                s.add(a)
            for p in ob.pc:
                s.add(p)
            for c in shape:
                s.add(c)
            s.add(z3.Not(ob.goal))
            if s.check() == z3.sat:
                return s.model()
        except Exception:
            pass
        for small in (True, False):
            try:
                shape = prober.shape_constraints(small)
            except Exception:
                break
            for with_goal in (True, False):
                s = z3.Solver()
                s.set("timeout", min(timeout_ms, 4000))
                for p in ob.pc:
                    if not has_quantifier(p):
                        s.add(p)
                cs = list(world.str_consts.values())
                if len(cs) > 1:
                    s.add(z3.Distinct(*cs))
                for c in shape:
                    s.add(c)
                if with_goal:
                    s.add(z3.Not(ob.goal))
                if s.check() == z3.sat:
                    return s.model()
    return _candidate_model_plain(world, ob, timeout_ms)


def _candidate_model_plain(world, ob, timeout_ms):
    """weaken the query (drop quantified hypotheses): a model of the weakened query is only a CANDIDATE
    counterexample; it counts for nothing until it is replayed on the real code."""
    s = z3.Solver()
    s.set("timeout", min(timeout_ms, 5000))
    for p in ob.pc:
        if not has_quantifier(p):
            s.add(p)
    cs = list(world.str_consts.values())
    if len(cs) > 1:
        s.add(z3.Distinct(*cs))
    s.add(z3.Not(ob.goal))
    r = s.check()
    if r == z3.sat:
        return s.model()
    s2 = z3.Solver()
    s2.set("timeout", min(timeout_ms, 5000))
    for p in ob.pc:
        if not has_quantifier(p):
            s2.add(p)
    if len(cs) > 1:
        s2.add(z3.Distinct(*cs))
    if s2.check() == z3.sat:   # any input satisfying the path condition is worth a native try
        return s2.model()
    return None


def solve_one(world, ob, timeout_ms, prober=None):
    s = z3.Solver()
    s.set("timeout", timeout_ms)
    for a in world.global_axioms():
        s.add(a)
    for p in ob.pc:
        s.add(p)
    t0 = time.time()
    rec = {"id": ob.id, "kind": ob.kind, "desc": ob.desc, "path": ob.path, "backend": "z3-5.1(api)"}
    if ob.kind in ("cover", "canary"):
        # vacuity guard: fails only if the solver PROVES the assumptions contradictory (with quantified
        # assumptions a model is usually out of reach, so `unknown` is accepted and recorded)
        s.set("timeout", min(timeout_ms, 3000))
        r = s.check()
        rec["verdict"] = "refuted" if r == z3.unsat else "proved"
        rec["solver_answer"] = str(r)
        rec["ms"] = int((time.time() - t0) * 1000)
        return rec
    s.add(z3.Not(ob.goal))
    # pass 1: E-matching only (model-based instantiation off): fast and enough for almost every valid obligation
    s1 = z3.Solver()
    s1.set("timeout", min(timeout_ms, 8000))
    s1.set("smt.mbqi", False)
    s1.set("smt.auto_config", False)
    s1.add(s.assertions())
    r = s1.check()
    if r == z3.unsat:
        rec["backend"] = "z3-5.1(api, e-matching)"
    else:
        # pass 2: default configuration, first with a short budget (z3's model-based instantiation finds counter-models
        # under a 10 s budget that it misses under a longer one - observed), then with the full budget
        s2 = z3.Solver()
        s2.set("timeout", min(timeout_ms, 10000))
        s2.add(s.assertions())
        r = s2.check()
        if r == z3.sat:
            s = s2
        elif r == z3.unknown and timeout_ms > 10000:
            r = s.check()
    if r == z3.unsat:
        rec["verdict"] = "proved"
    elif r == z3.sat:
        rec["verdict"] = "refuted"
        try:
            rec["model"] = model_to_dict(s.model())
        except Exception:
            rec["model"] = {}
        if prober is not None:
            try:
                rec["witness"] = prober.witness(s.model())
            except Exception as e:
                rec["witness_error"] = str(e)[:200]
    else:
        rec["verdict"] = "unknown"
        rec["reason"] = s.reason_unknown()
        try:
            smt2 = s.to_smt2()
            for tool in ("cvc5", "z3-4.8"):
                out = run_external(smt2, "cvc5" if tool == "cvc5" else "z3", max(5, timeout_ms / 1000))
                if out == "unsat":
                    rec["verdict"], rec["backend"] = "proved", tool
                    break
        except Exception:
            pass
        if rec["verdict"] == "unknown":
            try:
                m = small_scope_model(world, ob, timeout_ms)
                if m is not None:
                    rec["verdict"], rec["backend"] = "refuted", "z3-5.1(api, small-scope restriction)"
                    rec["model"] = model_to_dict(m)
                    if prober is not None:
                        rec["witness"] = prober.witness(m)
            except Exception as e:
                rec["small_scope_error"] = str(e)[:200]
        if rec["verdict"] == "unknown" and prober is not None:
            try:
                m = candidate_model(world, ob, timeout_ms, prober)
                ws = []
                if m is not None:
                    ws.append(prober.witness(m))
                for m2 in candidate_models(world, ob, timeout_ms, prober):
                    ws.append(prober.witness(m2))
                if ws:
                    rec["witness"] = ws[0]
                    rec["witnesses"] = ws
                    rec["witness_is_candidate_only"] = True
            except Exception as e:
                rec["witness_error"] = str(e)[:200]
    rec["ms"] = int((time.time() - t0) * 1000)
    return rec


def solve_all(world, obligations, timeout_ms, prober=None):
    return [solve_one(world, ob, timeout_ms, prober) for ob in obligations]


# ---------------------------------------------------------------------------------- lemma layer
class LemmaCtx:
    """A lemma is a closed statement over the contracts: hypotheses are obtained by *instantiating*
    contracts (their ensures are assumed, exactly as at a call site), goals are proved by the solver."""

    def __init__(self, world, prop, name, timeout_ms):
        self.w = world
        self.prop, self.name = prop, name
        self.ex = Executor(world, fn_label=f"{prop}:lemma:{name}")
        self.ex.spec_mode = 1
        self.st = State(world)
        self.st.pre = self.st.snapshot()
        self.env = {}
        self.timeout_ms = timeout_ms
        self.uses = []

    def sym(self, name, kind):
        v = make_param(self.ex, self.st, name, kind)
        self.env[name] = v
        return v

    def assume(self, expr, **env):
        e = dict(self.env)
        e.update(env)
        self.st.assume(self.ex.eval_spec(expr, self.st, e))

    def narrow(self, name, cls):
        """give a named value the static class `cls` (after an assume(typeis/isinstance ...))"""
        v = self.env[name]
        self.env[name] = V(v.kind, v.t, self.w.cls(cls))
        return self.env[name]

    def assume_term(self, t):
        self.st.assume(t)

    def value(self, expr, **env):
        e = dict(self.env)
        e.update(env)
        return self.ex.eval_spec_value(expr, self.st, e)

    def define(self, name, expr, **env):
        self.env[name] = self.value(expr, **env)
        return self.env[name]

    def prove(self, label, expr, **env):
        e = dict(self.env)
        e.update(env)
        t = expr if z3.is_expr(expr) else self.ex.eval_spec(expr, self.st, e)
        self.ex.obligations.append(Obligation(f"{self.prop}:lemma:{self.name}:{label}", "lemma", self.st.pc, t,
                                              expr if isinstance(expr, str) else str(expr)[:200]))

    def case(self):
        """fork the context (for base / step of an induction)"""
        other = LemmaCtx.__new__(LemmaCtx)
        other.__dict__.update(self.__dict__)
        other.st = self.st.fork()
        other.env = dict(self.env)
        return other


def verify_lemma(world, lname, prop, timeout_ms):
    res = FnResult("lemma:" + lname)
    t0 = time.time()
    lem = api.LEMMAS[lname]
    try:
        L = LemmaCtx(world, prop, lname, timeout_ms)
        L.ex.max_inst_depth = lem.inst_depth
        lem.fn(L)
        L.ex.obligations.append(Obligation(f"{prop}:lemma:{lname}:cover", "cover", L.st.pc, z3.BoolVal(True), "lemma hypotheses are satisfiable"))
        res.trusted = sorted(L.ex.trusted_used)
        res.obligations = solve_all(world, L.ex.obligations, timeout_ms)
    except EngineError as e:
        res.status, res.reason = "out_of_reach", str(e)
    except Exception as e:
        res.status = "engine_error"
        res.reason = f"{type(e).__name__}: {e}\n{traceback.format_exc()[-1500:]}"
    res.seconds = round(time.time() - t0, 3)
    return res
