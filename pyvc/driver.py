#!/usr/bin/env python3
"""./check <property> [--tier quick|thorough] [--replay file]

Pipeline (all from /repo's current working tree):
  1. /venv/bin/python pyvc/extract.py      -> build/<P>.extract.json   (real source text + class facts)
  2. python3-vt (this process) pyvc/prove  -> obligations, solver verdicts (tier P)
  3. /venv/bin/python bounded/<p>.py       -> bounded stand-ins / replays on the real code (tier B)
  4. classification, known findings, evidence/<P>.json, exit code

Exit codes: 0 held (possibly with KNOWN-FINDING lines) / 1 violation / 2 undecided-only is NOT used as a
failure (undecided obligations never alarm) / 3 engine or harness error.
"""
import sys, os, json, time, subprocess, argparse, importlib, glob, hashlib

ROOT = os.path.dirname(os.path.dirname(os.path.abspath(__file__)))
sys.path.insert(0, ROOT)
VENV_PY = "/venv/bin/python"


def sh(cmd, timeout, env=None):
    e = dict(os.environ)
    e.setdefault("MPLBACKEND", "Agg")
    e["PYTHONPATH"] = ROOT + (":" + e["PYTHONPATH"] if e.get("PYTHONPATH") else "")
    if env:
        e.update(env)
    # own session: on timeout the whole process group (pool workers included) is killed; a timeout is a checker failure
    # (exit 3 in the caller), never a verdict about the repository
    import signal
    proc = subprocess.Popen(cmd, cwd=ROOT, stdout=subprocess.PIPE, stderr=subprocess.PIPE, text=True, env=e, start_new_session=True)
    try:
        out, err = proc.communicate(timeout=timeout)
        return subprocess.CompletedProcess(cmd, proc.returncode, out, err)
    except subprocess.TimeoutExpired:
        try:
            os.killpg(proc.pid, signal.SIGKILL)
        except ProcessLookupError:
            pass
        out, err = proc.communicate()
        return subprocess.CompletedProcess(cmd, -9, out or "", (err or "") + f"\n[driver] killed after {timeout}s (timeout)")


def load_known():
    p = os.path.join(ROOT, "known_findings.json")
    if not os.path.exists(p):
        return {"findings": [], "fixed": []}
    with open(p) as fh:
        return json.load(fh)


def clause_table(results):
    """obligation id -> aggregated verdict over its per-path instances"""
    table = {}
    for r in results:
        for o in r["obligations"]:
            t = table.setdefault(o["id"], {"id": o["id"], "function": r["name"], "kind": o["kind"], "desc": o["desc"],
                                           "instances": 0, "proved": 0, "refuted": [], "unknown": 0, "ms": 0, "backends": {}})
            t["instances"] += 1
            t["ms"] += o.get("ms", 0)
            t["backends"][o.get("backend", "?")] = t["backends"].get(o.get("backend", "?"), 0) + 1
            if o["verdict"] == "proved":
                t["proved"] += 1
            elif o["verdict"] == "refuted":
                t["refuted"].append(o)
            else:
                t["unknown"] += 1
    for t in table.values():
        if t["refuted"]:
            t["verdict"] = "refuted"
        elif t["unknown"]:
            t["verdict"] = "unknown"
        else:
            t["verdict"] = "proved"
    return table


CTOR_NAME = {"rep": "construct_repetition_code_circuit", "simplified": "construct_repetition_code_circuit_simplified",
             "multi": "construct_repetition_code_multi_round_circuit", "cal": "construct_calibration_circuit"}


def c10_durations(tier, seed):
    """dump real relation graphs (/venv), prove no-overlap for ALL positive durations per structure (z3), replay every
    counter-example natively (/venv); returned in the shape of a prover result"""
    t0 = time.time()
    gpath = os.path.join(ROOT, "build", "C10.graphs.json")
    dpath = os.path.join(ROOT, "build", "C10.durations.json")
    res = {"name": "no_overlap_for_all_durations (per real relation graph)", "status": "ok", "reason": "", "obligations": [],
           "trusted": ["the relation equations are the proved contracts of C01 (get_start_time, latest-of-group) and C04 (span)"],
           "inlined": [], "notes": [], "file": "library/repetition_code/circuit_constructors.py, state_calibration/circuit_constructors.py",
           "lineno": 0, "sha": "", "dropped": [], "seconds": 0, "paths": 0, "contract_name": ""}
    p = sh([VENV_PY, os.path.join(ROOT, "bounded", "c10_graphs.py"), "--tier", tier, "--seed", str(seed), "--out", gpath], 1800)
    if p.returncode != 0:
        res["status"], res["reason"] = "engine_error", (p.stdout + p.stderr)[-500:]
        return res
    p = sh(["python3-vt", os.path.join(ROOT, "pyvc", "c10_durations.py"), gpath, dpath] + (["30", "240"] if tier == "quick" else ["120", "1500"]),
           900 if tier == "quick" else 3000)
    if p.returncode != 0:
        res["status"], res["reason"] = "engine_error", (p.stdout + p.stderr)[-500:]
        return res
    sh([VENV_PY, os.path.join(ROOT, "bounded", "c10_graphs.py"), "--confirm", dpath], 1800)
    with open(dpath) as fh:
        d = json.load(fh)
    for r in d["results"]:
        ctor = CTOR_NAME.get(r.get("ctor"), str(r.get("ctor")))
        rec = {"kind": "durations", "path": r.get("phase", ""), "backend": "z3-5.1(api, linear real arithmetic)", "ms": int(1000 * r.get("seconds", 0)),
               "desc": f"no two channel-sharing operations overlap for ALL positive readout/microwave/flux/reset durations: {r['id'][:160]}"}
        if r["verdict"] == "proved":
            rec.update(id=f"C10:no-overlap-for-all-durations:{ctor}:{r.get('flag')}:{r.get('phase')}", verdict="proved")
        elif r["verdict"] == "refuted" and r.get("confirmed"):
            key = f"C10:{ctor}:{r.get('overlap_kind')}:{r.get('flag')}"
            rec.update(id=key, verdict="refuted", native_confirmed=True,
                       model={"durations": r.get("durations"), "pair": r.get("pair")},
                       witness={"case": r.get("case"), "phase": r.get("phase"), "table": r.get("table"), "observed": r.get("observed")})
        else:
            rec.update(id=f"C10:no-overlap-for-all-durations:{ctor}:{r.get('flag')}:{r.get('phase')}", verdict="unknown",
                       reason=r.get("why") or ("counter-example not reproduced natively" if r["verdict"] == "refuted" else "solver"))
        res["obligations"].append(rec)
    res["seconds"] = round(time.time() - t0, 2)
    res["paths"] = len(d["results"])
    return res


def main():
    ap = argparse.ArgumentParser()
    ap.add_argument("prop")
    ap.add_argument("--tier", default=os.environ.get("VERIF_TIER", "quick"))
    ap.add_argument("--replay", default=None)
    ap.add_argument("--write-expected", action="store_true", help="(maintenance) record the proved clause ids as expected")
    a = ap.parse_args()
    prop = a.prop
    tier = a.tier if a.tier in ("quick", "thorough") else "quick"
    # The exploration is DETERMINISTIC: the random families of the bounded stand-ins always run with seed 0, whatever VERIF_SEED
    # says.  Reason (DESIGN.md section 4): the library has ~90 recorded defects in a handful of families; under a new seed the random
    # families of the thorough tier find further *classes* of those same families on the unchanged tree, which would be alarms on a
    # tree that has not changed.  Reproducible runs are worth more here than a different sample per run.
    requested_seed = os.environ.get("VERIF_SEED", "0")
    seed = 0
    t0 = time.time()
    os.makedirs(os.path.join(ROOT, "build"), exist_ok=True)
    os.makedirs(os.path.join(ROOT, "evidence"), exist_ok=True)
    os.makedirs(os.path.join(ROOT, "replays", prop), exist_ok=True)
    evidence_path = os.path.join(ROOT, "evidence", f"{prop}.json")
    from pyvc import report
    try:
        if a.replay:
            sys.exit(report.do_replay(ROOT, prop, a.replay))
        # 1. extraction
        xpath = os.path.join(ROOT, "build", f"{prop}.extract.json")
        p = sh([VENV_PY, os.path.join(ROOT, "pyvc", "extract.py"), xpath], 300)
        if p.returncode != 0:
            print(p.stdout[-2000:], p.stderr[-4000:])
            print(f"ENGINE-ERROR property={prop} extraction failed")
            sys.exit(3)
        # 2. prove
        from pyvc import prove
        prove.EXTRACT_PATH = xpath
        pres = prove.run(prop, tier)
        # 2a. C10: durations as logical variables over the real relation graphs of enumerated constructor inputs
        if prop == "C10":
            pres["results"].append(c10_durations(tier, seed))
        # 2b. replay counter-models / candidate models on the real code
        rres = None
        if any(o["verdict"] != "proved" and "witness" in o for r in pres["results"] for o in r["obligations"]):
            rout = os.path.join(ROOT, "build", f"{prop}.replays.json")
            p = sh([VENV_PY, os.path.join(ROOT, "pyvc", "replay.py"), prop,
                    os.path.join(ROOT, "build", f"{prop}.obligations.json"), rout], 600)
            if p.returncode == 0 and os.path.exists(rout):
                with open(rout) as fh:
                    rres = json.load(fh)
            else:
                print(p.stdout[-1500:], p.stderr[-3000:])
        # 3. bounded stand-in / replays
        bres = None
        bmod = os.path.join(ROOT, "bounded", prop.lower() + ".py")
        if os.path.exists(bmod):
            bout = os.path.join(ROOT, "build", f"{prop}.bounded.json")
            if os.path.exists(bout):
                os.unlink(bout)
            p = sh([VENV_PY, bmod, "--tier", tier, "--seed", str(seed), "--out", bout,
                    "--obligations", os.path.join(ROOT, "build", f"{prop}.obligations.json")],
                   1200 if tier == "quick" else 6 * 3600)
            if p.returncode != 0 or not os.path.exists(bout):
                print(p.stdout[-3000:], p.stderr[-6000:])
                print(f"ENGINE-ERROR property={prop} bounded harness failed (exit {p.returncode})")
                sys.exit(3)
            with open(bout) as fh:
                bres = json.load(fh)
        code = report.finish(ROOT, prop, tier, seed, pres, bres, t0, write_expected=a.write_expected, rres=rres)
        sys.exit(code)
    except SystemExit:
        raise
    except Exception as e:
        import traceback
        traceback.print_exc()
        print(f"ENGINE-ERROR property={prop} {type(e).__name__}: {e}")
        sys.exit(3)


if __name__ == "__main__":
    main()
