"""Call layer: builtins, spec builtins, method resolution, contract application, inlining, constructors."""
import ast
import z3
from . import api
from .world import (SLen, SAt, SArr, SMk, SAppend, EngineError, V, NONE, VTuple, VList, VClass, VBound, VBuiltin, VLambda, VRev, VRange,
                    VEnumerate, VDict, VModule, VView)
from .exec_expr import ExecExpr
from .exec import MAX_INLINE_DEPTH

MUTATORS = {"append", "extend", "add", "remove", "clear", "insert", "pop", "update"}


class ExecCall(ExecExpr):

    def e_Call(self, node, st):
        f = node.func
        # in-place mutation of a local list / set or of a field
        if isinstance(f, ast.Attribute) and f.attr in MUTATORS:
            handled = yield from self.try_mutator(node, st)
            if handled:
                return
        if (isinstance(f, ast.Name) and f.id == "warn") or (isinstance(f, ast.Attribute) and f.attr == "warn"):
            yield st, NONE      # warnings.warn(...) is a no-op (assumes no `error` warning filter)
            return
        if isinstance(f, ast.Name) and f.id == "super":
            raise EngineError("bare super()")
        if isinstance(f, ast.Attribute) and isinstance(f.value, ast.Call) and isinstance(f.value.func, ast.Name) \
                and f.value.func.id == "super":
            yield from self.super_call(node, st)
            return
        if isinstance(f, ast.Name) and self.spec_mode and f.id in ("forall", "exists", "forall_int", "exists_int", "old", "let", "implies", "forall_obj", "forall_str"):
            yield from self.spec_special(f.id, node, st)
            return
        if isinstance(f, ast.Name) and f.id in ("any", "all") and len(node.args) == 1 and \
                isinstance(node.args[0], (ast.GeneratorExp, ast.ListComp)):
            yield from self.any_all(f.id, node.args[0], st)
            return
        if isinstance(f, ast.Subscript) and isinstance(f.value, ast.Name) and f.value.id not in st.env and self.w.has_cls(f.value.id):
            # Generic[T] class subscripted in a constructor call, e.g. Operation[IQubitID](...): the parameter is erased at run time
            node = ast.copy_location(ast.Call(func=f.value, args=node.args, keywords=node.keywords), node)
            f = node.func
        if any(isinstance(a, ast.Starred) for a in node.args):
            raise EngineError("star arguments")
        star_kw = [k for k in node.keywords if k.arg is None]
        if star_kw:
            # `**kwargs` is supported only when it is provably empty (the forwarding idiom of the library)
            for k in star_kw:
                v = self.eval1(k.value, st)
                if not (isinstance(v, VDict) and not v.items):
                    raise EngineError("**kwargs with content")
            node = ast.copy_location(ast.Call(func=node.func, args=node.args, keywords=[k for k in node.keywords if k.arg is not None]), node)
        for s0, fv in self.eval(f, st):
            for s1, args in self.eval_seq(node.args, s0):
                for s2, kwv in self.eval_seq([k.value for k in node.keywords], s1):
                    kwargs = {k.arg: v for k, v in zip(node.keywords, kwv)}
                    yield from self.call_value(s2, fv, args, kwargs)

    # ------------------------------------------------------------------ mutation of lists / sets
    def try_mutator(self, node, st):
        f = node.func
        tgt = f.value
        if isinstance(tgt, ast.Name) and tgt.id in st.env and (self.is_seq(st.env[tgt.id])):
            cur = st.env[tgt.id]
            if isinstance(cur, V) and cur.alias is not None:
                raise EngineError(f"in-place mutation of {tgt.id}, which aliases field {cur.alias[1]}")
            for s, args in self.eval_seq(node.args, st):
                cur = s.env[tgt.id]
                s.env[tgt.id] = self.mutated(s, cur, f.attr, args)
                yield s, NONE
            return True
        if isinstance(tgt, ast.Attribute):
            outs = list(self.eval(tgt.value, st))
            done = False
            for s0, obj in outs:
                if isinstance(obj, V) and isinstance(obj.kind, tuple) and obj.kind[0] == "ref" and obj.cls \
                        and self.w.find_member(obj.cls, tgt.attr)[1] is None and self.w.field_decl(obj.cls, tgt.attr) \
                        and self.w.base_kind(self.w.field_decl(obj.cls, tgt.attr)[1])[0] in ("seq", "set"):
                    done = True
                    for s, args in self.eval_seq(node.args, s0):
                        cur = self.read_field(s, obj, tgt.attr)
                        cur = V(cur.kind, cur.t)
                        self.write_field(s, obj, tgt.attr, self.mutated(s, cur, f.attr, args))
                        yield s, NONE
                else:
                    if done:
                        raise EngineError("mixed mutator targets")
                    return False
            return done
        return False

    def mutated(self, st, cur, op, args):
        if op == "append" or op == "add":
            (x,) = args
            if isinstance(cur, VList):
                return VList(cur.items + [x])
            ek = cur.kind[1]
            return V(cur.kind, SAppend(cur.t, self.coerce(x, ek).t))
        if op == "extend":
            (xs,) = args
            if isinstance(cur, VList) and isinstance(xs, (VList, VTuple)):
                return VList(cur.items + xs.items)
            if isinstance(cur, VList) and not cur.items and self.is_symseq(xs):
                return V(("seq", xs.kind[1]), xs.t)
            ek = cur.kind[1] if self.is_symseq(cur) else xs.kind[1]
            r = self.concat(cur, xs, ek)
            return V(cur.kind if self.is_symseq(cur) else r.kind, r.t)
        raise EngineError(f"list/set mutator {op}")

    # ------------------------------------------------------------------ dispatch on callee value
    def call_value(self, st, fv, args, kwargs):
        if isinstance(fv, VBuiltin):
            yield from self.call_builtin(st, fv.name, args, kwargs)
        elif isinstance(fv, VClass):
            yield from self.construct(st, fv.qual, args, kwargs)
        elif isinstance(fv, VBound):
            recv = fv.recv
            if isinstance(recv, VClass):
                yield from self.call_static(st, recv.qual, fv.name, args, kwargs)
            elif isinstance(recv, V) and recv.kind == "str":
                yield from self.str_method(st, recv, fv.name, args)
            elif isinstance(recv, V) and isinstance(recv.kind, tuple) and recv.kind[0] == "ref":
                yield from self.call_method(st, recv, fv.name, args, kwargs)
            elif self.is_seq(recv) or isinstance(recv, VDict) or self.is_dict(recv):
                yield from self.container_method(st, recv, fv.name, args, kwargs)
            else:
                raise EngineError(f"call of bound {fv.name} on {recv}")
        elif isinstance(fv, VLambda):
            yield from self.call_lambda(st, fv, args)
        else:
            raise EngineError(f"call of {fv}")

    def call_lambda(self, st, lam, args):
        names = [a.arg for a in lam.node.args.args]
        if len(names) != len(args):
            raise EngineError("lambda arity")
        saved = st.env
        env = dict(lam.env)
        # names of the enclosing scope that were rebound later are not visible; lambdas here are immediate
        env.update(saved)
        env.update(dict(zip(names, args)))
        st.env = env
        for s, v in self.eval(lam.node.body, st):
            s.env = dict(saved)
            yield s, v

    def str_method(self, st, recv, name, args):
        if name == "__eq__":
            (o,) = args
            if isinstance(o, V) and o.kind == "str":
                yield st, V("bool", recv.t == o.t)
            else:
                yield st, V("bool", z3.BoolVal(False))
        elif name == "__hash__":
            h = self.w.uf("hash_str", self.w.Str, z3.IntSort())
            yield st, V("int", h(recv.t))
        else:
            raise EngineError(f"str method {name}")

    def container_method(self, st, recv, name, args, kwargs):
        if name == "copy" and self.is_seq(recv):
            yield st, (V(recv.kind, recv.t) if isinstance(recv, V) else VList(recv.items))
            return
        if name == "index" and self.is_seq(recv) and len(args) == 1:
            seq = self.to_seq(recv) if not self.is_symseq(recv) else recv
            x = args[0]
            k = z3.Int(self.w.fresh_name("idx"))
            j = z3.Int(self.w.fresh_name("j"))
            outs = list(self.eq_values(st, self.seq_elem(st, seq, k), x))
            outs_j = list(self.eq_values(st, self.seq_elem(st, seq, j), x))
            if len(outs) != 1 or len(outs_j) != 1:
                raise EngineError("list.index with forking equality")
            hit_k, hit_j = outs[0][1], outs_j[0][1]
            n = SLen(seq.t)
            self.oblige("safe", st, z3.Exists([j], z3.And(0 <= j, j < n, hit_j)), "list.index: element present (ValueError)",
                        name=self.next_call_id("list-index"))
            st.assume(z3.And(0 <= k, k < n, hit_k))
            st.assume(z3.ForAll([j], z3.Implies(z3.And(0 <= j, j < k), z3.Not(hit_j))))
            yield st, V("int", k)
            return
        if name == "get" and isinstance(recv, VDict) and not recv.items:
            yield st, (args[1] if len(args) > 1 else NONE)
            return
        if name in ("get", "keys") and self.is_dict(recv) and not self.spec_mode:
            # a method call on None raises AttributeError
            self.oblige("safe", st, recv.t != self.w.null, f"dictionary is not None (.{name} on None raises AttributeError)",
                        name=self.next_call_id("none"))
        if name == "get" and self.is_dict(recv):
            yield st, self.dict_get(st, recv, args[0], args[1] if len(args) > 1 else NONE)
            return
        if name == "keys" and self.is_dict(recv) and not args:
            yield st, self.dict_keys(st, recv)
            return
        raise EngineError(f"container method {name}")

    # ------------------------------------------------------------------ builtins
    def call_builtin(self, st, name, args, kwargs):
        w = self.w
        if name.startswith("fn:"):
            yield from self.call_function(st, name[3:], args, kwargs)
            return
        if self.spec_mode and name in api.SPECFUNS:
            r = api.SPECFUNS[name](self, st, *args, **kwargs)
            yield st, r
            return
        if self.spec_mode and name == "exp":
            x = self.coerce(args[0], "real")
            f = w.uf("exp", z3.RealSort(), z3.RealSort())
            st.assume(f(x.t) > 0)
            st.assume(z3.Implies(x.t <= 0, f(x.t) <= 1))
            st.assume(z3.Implies(x.t == 0, f(x.t) == 1))
            yield st, V("real", f(x.t))
            return
        if self.spec_mode and name in ("stim_name", "stim_targets", "stim_args", "stim_rargs"):
            (x,) = args
            if name == "stim_name":
                yield st, V("str", w.uf("stim_name", w.Ref, w.Str)(x.t))
            else:
                ek = "real" if name == "stim_rargs" else "int"
                S = w.seq_sort(w.sort_of(ek))
                yield st, V(("seq", ek), w.uf(name, w.Ref, S)(x.t))
            return
        if self.spec_mode and name == "dict_get":
            d, k = args[0], args[1]
            yield st, (NONE if d is NONE else self.dict_get(st, d, k, NONE))
            return
        if self.spec_mode and name == "dict_has":
            d, k = args[0], args[1]
            yield st, V("bool", z3.BoolVal(False) if d is NONE else self.dict_has(st, d, k))
            return
        if self.spec_mode and name in ("seq_is", "same_seq", "set_same", "implies", "iff", "ite", "typeis", "fresh", "is_none", "subseq", "seq_concat",
                                       "seq_unit", "seq_empty", "same_class", "born_before_entry"):
            yield st, self.spec_builtin(st, name, args)
            return
        if name == "object.__setattr__":
            obj, fname, val = args
            lit = [s for s, c in w.str_consts.items() if c.eq(fname.t)] if isinstance(fname, V) and fname.kind == "str" else []
            if not lit:
                raise EngineError("object.__setattr__ with a non-literal field name")
            self.write_field(st, obj, lit[0], val)
            yield st, NONE
            return
        if name == "isinstance":
            x, c = args
            yield st, V("bool", self.isinstance_of(x, c))
        elif name == "len":
            (x,) = args
            if isinstance(x, (VList, VTuple)):
                yield st, V("int", z3.IntVal(len(x.items)))
            elif isinstance(x, VView):
                yield st, V("int", x.hi - x.lo)
            elif self.is_symseq(x):
                yield st, V("int", SLen(x.t))
            else:
                raise EngineError("len of non-sequence")
        elif name in ("max", "min"):
            items = args[0].items if len(args) == 1 and isinstance(args[0], (VList, VTuple)) else args
            if len(args) == 1 and self.is_symseq(args[0]):
                raise EngineError("max/min of symbolic sequence")
            acc = items[0]
            for it in items[1:]:
                ta, tb, k = self.num_coerce(acc, it)
                # python: max keeps the first maximal element; values equal anyway
                acc = V(k, z3.If(tb > ta, tb, ta) if name == "max" else z3.If(tb < ta, tb, ta))
            yield st, acc
        elif name == "abs":
            (x,) = args
            yield st, V(x.kind, z3.If(x.t >= 0, x.t, -x.t))
        elif name == "int":
            (x,) = args
            if x.kind == "int":
                yield st, x
            elif x.kind == "bool":
                yield st, V("int", z3.If(x.t, 1, 0))
            elif x.kind == "real" and x.t.decl().kind() == z3.Z3_OP_DIV and all(
                    c.decl().kind() == z3.Z3_OP_TO_REAL for c in x.t.children()):
                # int(a / b) with integer a, b: truncating integer division (A-real: the quotient is exact)
                a_, b_ = [c.arg(0) for c in x.t.children()]
                pos = lambda n, d: z3.If(n >= 0, n / d, -((-n) / d))       # d > 0; z3's `/` on Int is floor division
                yield st, V("int", z3.If(b_ > 0, pos(a_, b_), pos(-a_, -b_)))
            elif x.kind == "real":
                # truncation toward zero (A-real: exact rationals instead of IEEE doubles)
                fl = z3.ToInt(x.t)
                yield st, V("int", z3.If(x.t >= 0, fl, z3.If(z3.ToReal(fl) == x.t, fl, fl + 1)))
            else:
                raise EngineError("int() of non-number")
        elif name == "float":
            (x,) = args
            yield st, self.coerce(x, "real")
        elif name == "bool":
            (x,) = args
            yield st, V("bool", self.truth(x))
        elif name in ("list", "tuple", "tqdm"):
            if not args:
                yield st, VList([])
            else:
                x = args[0]
                if isinstance(x, V) and x.alias is not None:
                    x = V(x.kind, x.t)
                if isinstance(x, VRange) and name in ("list", "tuple"):
                    x = self.range_to_seq(st, x)
                yield st, x
        elif name == "set":
            if args:
                raise EngineError("set(iterable)")
            yield st, VList([])  # becomes a ("set", k) sequence on first add; see mutated()/Assign
        elif name == "range":
            if len(args) == 1:
                yield st, VRange(V("int", z3.IntVal(0)), args[0])
            elif len(args) == 2:
                yield st, VRange(args[0], args[1])
            else:
                raise EngineError("range with step")
        elif name == "reversed":
            yield st, VRev(args[0])
        elif name == "enumerate":
            yield st, VEnumerate(args[0])
        elif name == "hash":
            (x,) = args
            yield st, V("int", self.hash_of(x))
        elif name == "id":
            (x,) = args
            f = w.uf("id_of", w.Ref, z3.IntSort())
            yield st, V("int", f(x.t))
        elif name == "sorted":
            (x,) = args
            yield st, self.sorted_of(st, x)
        elif name in ("np.asarray", "np.array", "numpy.asarray", "numpy.array"):
            # assumed external contract: asarray of a list of ints / range is that sequence (element-wise view)
            self.trusted_used.add("numpy.asarray/array: identity on integer sequences (assumed, probed)")
            x = args[0]
            if isinstance(x, VRange):
                yield st, x
            else:
                yield st, x
        elif name in ("np.exp", "numpy.exp", "math.exp"):
            # exp is an uninterpreted function with the facts used by the T1/T2 formula, instantiated at the argument
            self.trusted_used.add("exp: uninterpreted; only exp(x) > 0, exp(x) <= 1 for x <= 0, exp(0) = 1 are used")
            x = self.coerce(args[0], "real")
            f = w.uf("exp", z3.RealSort(), z3.RealSort())
            st.assume(f(x.t) > 0)
            st.assume(z3.Implies(x.t <= 0, f(x.t) <= 1))
            st.assume(z3.Implies(x.t == 0, f(x.t) == 1))
            yield st, V("real", f(x.t))
        elif name == "stim.target_rec":
            # assumed external contract (probed): a record target is identified by its (negative) look-back
            self.trusted_used.add("stim.target_rec(k): measurement record look-back k (assumed; Stim rejects k >= 0)")
            k = self.coerce(args[0], "int")
            self.oblige("safe", st, k.t < 0, "stim.target_rec needs a negative look-back", name=self.next_call_id("target_rec"))
            yield st, k
        elif name == "stim.CircuitInstruction":
            self.trusted_used.add("stim.CircuitInstruction(name, targets, gate_args): a record of exactly these three (assumed, probed)")
            kw = dict(kwargs)
            for n, v in zip(["name", "targets", "gate_args"], args):
                kw[n] = v
            r = V(("ref", None), self.allocate_raw(st, "stim_instruction"))
            st.assume(w.uf("stim_name", w.Ref, w.Str)(r.t) == kw["name"].t)
            tg = self.to_seq(kw.get("targets", VList([])), "int")
            st.assume(w.uf("stim_targets", w.Ref, tg.t.sort())(r.t) == tg.t)
            ga = kw.get("gate_args", VList([]))
            if isinstance(ga, (VList, VTuple)) and all(isinstance(x, V) and x.kind in ("int", "bool") or self.is_optint(x) for x in ga.items):
                gs = self.to_seq(VList([self.coerce(x, "int") for x in ga.items]), "int")
                st.assume(w.uf("stim_args", w.Ref, gs.t.sort())(r.t) == gs.t)
            else:
                gs = self.to_seq(VList([self.coerce(x, "real") for x in ga.items]) if isinstance(ga, (VList, VTuple)) else ga, "real")
                st.assume(w.uf("stim_rargs", w.Ref, gs.t.sort())(r.t) == gs.t)
            yield st, r
        elif name in ("warnings.warn", "warn", "print"):
            yield st, NONE
        elif name == "str":
            yield st, w.fresh("str", "str")
        else:
            raise EngineError(f"builtin/external {name}")

    def range_to_seq(self, st, r):
        v = self.w.fresh(("seq", "int"), "rangelist")
        k = z3.Int(self.w.fresh_name("k"))
        n = z3.If(r.hi.t > r.lo.t, r.hi.t - r.lo.t, 0)
        st.assume(SLen(v.t) == n)
        st.assume(z3.ForAll([k], z3.Implies(z3.And(0 <= k, k < n), SAt(v.t, k) == r.lo.t + k), patterns=[SAt(v.t, k)]))
        return v

    def hash_of(self, x):
        w = self.w
        if isinstance(x, VTuple):
            sorts = []
            terms = []
            for it in x.items:
                if not isinstance(it, V):
                    raise EngineError("hash of nested tuple")
                terms.append(it.t)
                sorts.append(it.t.sort())
            f = w.uf("hash_tuple" + "_".join(str(s) for s in sorts), *sorts, z3.IntSort())
            return f(*terms)
        if isinstance(x, V) and x.kind == "int":
            # CPython: hash(int) is the value modulo 2**61-1; only functional dependence is used
            f = w.uf("hash_int", z3.IntSort(), z3.IntSort())
            return f(x.t)
        if isinstance(x, V) and x.kind == "str":
            return w.uf("hash_str", w.Str, z3.IntSort())(x.t)
        raise EngineError("hash of this value")

    def sorted_of(self, st, x):
        x = self.to_seq(x) if not self.is_symseq(x) else x
        if self.w.base_kind(x.kind[1]) != "int":
            raise EngineError("sorted of non-int sequence")
        r = self.w.fresh(x.kind, "sorted")
        i, j = z3.Ints(self.w.fresh_name("i") + " " + self.w.fresh_name("j"))
        n = SLen(x.t)
        perm = self.w.uf(self.w.fresh_name("perm"), z3.IntSort(), z3.IntSort())
        st.assume(SLen(r.t) == n)
        st.assume(z3.ForAll([i, j], z3.Implies(z3.And(0 <= i, i < j, j < n), SAt(r.t, i) <= SAt(r.t, j))))
        # r is a permutation of x: bijection perm on [0,n)
        st.assume(z3.ForAll([i], z3.Implies(z3.And(0 <= i, i < n), z3.And(0 <= perm(i), perm(i) < n, SAt(r.t, perm(i)) == SAt(x.t, i)))))
        st.assume(z3.ForAll([i, j], z3.Implies(z3.And(0 <= i, i < j, j < n), perm(i) != perm(j))))
        return r

    def isinstance_of(self, x, c):
        if isinstance(c, VTuple):
            return z3.Or([self.isinstance_of(x, ci) for ci in c.items])
        if not isinstance(c, VClass):
            raise EngineError("isinstance with non-class")
        if x is NONE:
            return z3.BoolVal(False)
        if isinstance(x, V) and isinstance(x.kind, tuple) and x.kind[0] == "ref":
            return self.w.isinstance_term(x.t, c.qual)
        return z3.BoolVal(False)

    # ------------------------------------------------------------------ spec builtins
    def spec_builtin(self, st, name, args):
        w = self.w
        if name == "implies":
            return V("bool", z3.Implies(self.truth(args[0]), self.truth(args[1])))
        if name == "seq_is":
            a, b = args
            ek = a.kind[1] if self.is_symseq(a) else (b.kind[1] if self.is_symseq(b) else None)
            a, b = self.to_seq(a, ek), self.to_seq(b, ek)
            return V("bool", a.t == b.t)          # the very same sequence value (array and length)
        if name == "same_seq":
            a, b = args
            ek = a.kind[1] if self.is_symseq(a) else (b.kind[1] if self.is_symseq(b) else None)
            a, b = self.to_seq(a, ek), self.to_seq(b, ek)
            # extensional equality: same length and same elements (the arrays may differ beyond the length)
            k = z3.Int(w.fresh_name("e"))
            return V("bool", z3.And(SLen(a.t) == SLen(b.t),
                                    z3.ForAll([k], z3.Implies(z3.And(0 <= k, k < SLen(a.t)), SAt(a.t, k) == SAt(b.t, k)))))
        if name == "set_same":
            a, b = args
            if isinstance(a, V) and isinstance(b, V) and a.kind in ("int", "real", "bool", "str") and a.kind == b.kind:
                return V("bool", a.t == b.t)      # values: hash-and-== membership is equality
            return V("bool", self.set_same_uf()(a.t, b.t))
        if name == "iff":
            return V("bool", self.truth(args[0]) == self.truth(args[1]))
        if name == "ite":
            c, a, b = args
            if a is NONE or b is NONE:
                o = b if a is NONE else a
                return V(o.kind, z3.If(self.truth(c), w.null if a is NONE else a.t, w.null if b is NONE else b.t), o.cls)
            if a.t.sort() != b.t.sort():
                ta, tb, k = self.num_coerce(a, b)
                return V(k, z3.If(self.truth(c), ta, tb))
            return V(a.kind, z3.If(self.truth(c), a.t, b.t), a.cls)
        if name == "typeis":
            x, c = args
            if x is NONE:
                return V("bool", z3.BoolVal(False))
            return V("bool", w.exact_class_term(x.t, c.qual))
        if name == "same_class":
            a, b = args
            return V("bool", w.cls_of(a.t) == w.cls_of(b.t))
        if name == "fresh":
            (x,) = args
            return V("bool", z3.And(x.t != w.null, w.born(x.t) >= st.pre.clock))
        if name == "born_before_entry":
            (x,) = args
            return V("bool", w.born(x.t) < st.pre.clock)
        if name == "is_none":
            return V("bool", self.py_is(args[0], NONE))
        if name == "subseq":
            s, lo, hi = args
            s = self.to_seq(s)
            return V(s.kind, self.w.seq_sub(s.t, lo.t, hi.t - lo.t))
        if name == "seq_concat":
            a, b = args
            ek = a.kind[1] if self.is_symseq(a) else b.kind[1]
            return self.concat(a, b, ek)
        raise EngineError(f"spec builtin {name}")

    def spec_special(self, name, node, st):
        w = self.w
        if name == "old":
            if st.pre is None:
                raise EngineError("old() without entry snapshot")
            pre = st.pre.fork()
            pre.env = st.env
            pre.pc = list(st.pc)
            pre.pre = st.pre
            base = len(pre.pc)
            v = self.eval1(node.args[0], pre)
            for f in pre.pc[base:]:
                st.assume(f)
            yield st, v
            return
        if name == "implies":
            # implies(a, b) is (not a) or b, evaluated with short-circuit narrowing
            n = ast.BoolOp(op=ast.Or(), values=[ast.UnaryOp(op=ast.Not(), operand=node.args[0]), node.args[1]])
            yield from self.eval(ast.copy_location(n, node), st)
            return
        if name == "forall_obj":
            clsv = self.eval1(node.args[0], st)
            lam = node.args[1]
            r = z3.Const(w.fresh_name("o"), w.Ref)
            s = st.fork()
            rng = w.isinstance_term(r, clsv.qual)
            s.assume(rng)
            base = len(s.pc)
            s.env = dict(st.env)
            s.env[lam.args.args[0].arg] = V(("ref", w.short_name(clsv.qual)), r, clsv.qual)
            body = self.truth(self.eval1(lam.body, s))
            extra = s.pc[base:]
            if extra:
                st.assume(z3.ForAll([r], z3.Implies(rng, z3.And(extra))))
            yield st, V("bool", z3.ForAll([r], z3.Implies(rng, body)))
            return
        if name == "forall_str":
            # forall_str(lambda k: body): every string value
            lam = node.args[0]
            r = z3.Const(w.fresh_name("k"), w.sort_of("str"))
            s = st.fork()
            base = len(s.pc)
            s.env = dict(st.env)
            s.env[lam.args.args[0].arg] = V("str", r)
            body = self.truth(self.eval1(lam.body, s))
            extra = s.pc[base:]
            if extra:
                st.assume(z3.ForAll([r], z3.And(extra)))
            yield st, V("bool", z3.ForAll([r], body))
            return
        if name == "let":
            # let(value, lambda x: body)
            for s, val in self.eval(node.args[0], st):
                lam = node.args[1]
                saved = s.env
                s.env = dict(saved)
                s.env[lam.args.args[0].arg] = val
                for s2, v in self.eval(lam.body, s):
                    s2.env = dict(saved)
                    yield s2, v
            return
        is_forall = name.startswith("forall")
        j = z3.Int(w.fresh_name("q"))
        if name.endswith("_int"):
            lo = self.eval1(node.args[0], st)
            hi = self.eval1(node.args[1], st)
            lam = node.args[2]
            rng = z3.And(lo.t <= j, j < hi.t)
            bound = V("int", j)
            facts = []
        else:
            seq = self.eval1(node.args[0], st)
            lam = node.args[1]
            if isinstance(seq, VView):
                rng = z3.And(seq.lo <= j, j < seq.hi, 0 <= j, j < SLen(seq.base.t))
                seq = seq.base
            else:
                seq = self.to_seq(seq) if not self.is_symseq(seq) else seq
                rng = z3.And(0 <= j, j < SLen(seq.t))
            bound = self.seq_elem(st, seq, j)
            facts = []   # element typing is asserted once, where the sequence value is introduced
        if not isinstance(lam, ast.Lambda):
            raise EngineError("quantifier body must be a lambda")
        s = st.fork()
        s.assume(rng)
        for f in facts:
            s.assume(f)
        base = len(s.pc)
        names = [a.arg for a in lam.args.args]
        s.env = dict(st.env)
        s.env[names[0]] = bound
        if len(names) > 1:
            s.env[names[1]] = V("int", j)
        body = self.truth(self.eval1(lam.body, s))
        extra = s.pc[base:]
        if facts or extra:
            st.assume(z3.ForAll([j], z3.Implies(rng, z3.And(facts + extra))))
        if is_forall:
            yield st, V("bool", z3.ForAll([j], z3.Implies(rng, body)))
        else:
            yield st, V("bool", z3.Exists([j], z3.And(rng, body)))

    def any_all(self, name, comp, st):
        if len(comp.generators) != 1 or comp.generators[0].is_async:
            raise EngineError("any/all over nested generators")
        g = comp.generators[0]
        for s0, it in self.eval(g.iter, st):
            if isinstance(it, (VList, VTuple)):
                # unroll
                def rec(i, s, acc):
                    if i == len(it.items):
                        yield s, V("bool", (z3.Or(acc) if name == "any" else z3.And(acc)) if acc else z3.BoolVal(name == "all"))
                        return
                    saved = s.env
                    s.env = dict(saved)
                    self.bind_target(s, g.target, it.items[i])
                    conds = [self.truth(self.eval1(c, s)) for c in g.ifs]
                    v = self.truth(self.eval1(comp.elt, s))
                    s.env = dict(saved)
                    term = z3.And(conds + [v]) if name == "any" else z3.Implies(z3.And(conds) if conds else z3.BoolVal(True), v)
                    yield from rec(i + 1, s, acc + [term])
                yield from rec(0, s0, [])
                continue
            if not self.is_symseq(it):
                raise EngineError("any/all over non-sequence")
            j = z3.Int(self.w.fresh_name("q"))
            rng = z3.And(0 <= j, j < SLen(it.t))
            s = s0.fork()
            s.assume(rng)
            facts = []
            base = len(s.pc)
            s.env = dict(s0.env)
            self.bind_target(s, g.target, self.seq_elem(s, it, j))
            conds = [self.truth(self.eval1(c, s)) for c in g.ifs]
            v = self.truth(self.eval1(comp.elt, s))
            extra = s.pc[base:]
            if facts or extra:
                s0.assume(z3.ForAll([j], z3.Implies(rng, z3.And(facts + extra))))
            if name == "any":
                yield s0, V("bool", z3.Exists([j], z3.And([rng] + conds + [v])))
            else:
                yield s0, V("bool", z3.ForAll([j], z3.Implies(z3.And([rng] + conds), v)))

    def bind_target(self, st, target, val):
        if isinstance(target, ast.Name):
            st.env[target.id] = val
        elif isinstance(target, (ast.Tuple, ast.List)):
            if not isinstance(val, (VTuple, VList)) or len(val.items) != len(target.elts):
                raise EngineError("tuple unpacking of non-tuple")
            for t, v in zip(target.elts, val.items):
                self.bind_target(st, t, v)
        else:
            raise EngineError("assignment target")

    # ------------------------------------------------------------------ comprehensions
    def e_ListComp(self, node, st):
        if len(node.generators) != 1:
            raise EngineError("nested comprehension")
        g = node.generators[0]
        for s0, it in self.eval(g.iter, st):
            if isinstance(it, (VList, VTuple)) and not g.ifs:
                vals = []
                saved = s0.env
                for item in it.items:
                    s0.env = dict(saved)
                    self.bind_target(s0, g.target, item)
                    vals.append(self.eval1(node.elt, s0))
                s0.env = saved
                yield s0, VList(vals)
                continue
            if isinstance(it, VRange):
                raise EngineError("comprehension over range")
            if not self.is_symseq(it):
                raise EngineError("comprehension over non-sequence")
            yield s0, self.filter_map(s0, it, g, node.elt)

    e_GeneratorExp = e_ListComp

    def e_DictComp(self, node, st):
        """{K: V for T in seq} / {K: V for i, x in enumerate(seq)} without filter: a fresh dictionary whose key set is the image of K
        and where a key that occurs several times keeps the LAST value (CPython order of insertion)"""
        w = self.w
        if len(node.generators) != 1 or node.generators[0].ifs:
            raise EngineError("dict comprehension with filter / nesting")
        g = node.generators[0]
        for s0, it in self.eval(g.iter, st):
            enum = isinstance(it, VEnumerate)
            seq = it.seq if enum else it
            if isinstance(seq, (VList, VTuple)):
                seq = self.to_seq(seq, self.kind_of(seq.items[0]) if seq.items else None)
            if not self.is_symseq(seq):
                raise EngineError("dict comprehension over non-sequence")
            j = z3.Int(w.fresh_name("c"))
            n = SLen(seq.t)
            rng = z3.And(0 <= j, j < n)
            s = s0.fork()
            s.assume(rng)
            base = len(s.pc)
            s.env = dict(s0.env)
            elem = self.seq_elem(s, seq, j)
            self.bind_target(s, g.target, VTuple([V("int", j), elem]) if enum else elem)
            mark = w._fresh
            kv = self.eval1(node.key, s)
            vv = self.eval1(node.value, s)
            if not isinstance(kv, V) or not isinstance(vv, V):
                raise EngineError("dict comprehension with non-scalar key / value")
            extra = s.pc[base:]
            (kt, vt2), extra = self.skolemize_over(j, mark, [kv.t, vv.t], extra)
            kv, vv = V(kv.kind, kt, kv.cls), V(vv.kind, vt2, vv.cls)
            if extra:
                s0.assume(z3.ForAll([j], z3.Implies(rng, z3.And(extra))))
            kind = ("dict", kv.kind if not (isinstance(kv.kind, tuple) and kv.kind[0] == "ref" and kv.cls) else ("ref", w.short_name(kv.cls)), vv.kind)
            d = V(kind, self.allocate_raw(s0, "dictcomp"))
            has, val = self.dict_fns(kind)
            ver = s0.version("dict")
            kk = z3.Const(w.fresh_name("k"), kv.t.sort())
            j2 = z3.Int(w.fresh_name("c"))
            key_at = lambda idx: z3.substitute(kv.t, (j, idx))
            val_at = lambda idx: z3.substitute(vv.t, (j, idx))
            s0.assume(z3.ForAll([kk], has(ver, d.t, kk) == z3.Exists([j], z3.And(rng, kv.t == kk)), patterns=[has(ver, d.t, kk)]))
            s0.assume(z3.ForAll([j], z3.Implies(z3.And(rng, z3.ForAll([j2], z3.Implies(z3.And(j < j2, j2 < n), key_at(j2) != kv.t))),
                                                val(ver, d.t, kv.t) == vv.t)))
            s0.assume(z3.ForAll([j], z3.Implies(rng, has(ver, d.t, kv.t))))
            yield s0, d

    def skolemize_over(self, j, mark, *term_lists):
        """replace every uninterpreted constant whose name was generated after `mark` (other than j) by an application f(j)"""
        import re
        consts = {}
        seen = set()

        def walk(t):
            if t.get_id() in seen:
                return
            seen.add(t.get_id())
            if z3.is_quantifier(t):
                walk(t.body())
                return
            if z3.is_app(t):
                if t.num_args() == 0 and t.decl().kind() == z3.Z3_OP_UNINTERPRETED and not t.eq(j):
                    m = re.search(r"!(\d+)$", t.decl().name())
                    if m and int(m.group(1)) > mark:
                        consts[t.get_id()] = t
                for c in t.children():
                    walk(c)
        for lst in term_lists:
            for t in lst:
                walk(t)
        if not consts:
            return term_lists
        pairs = []
        for c in consts.values():
            f = z3.Function(c.decl().name() + "@idx", z3.IntSort(), c.sort())
            pairs.append((c, f(j)))
        return tuple([z3.substitute(t, *pairs) for t in lst] for lst in term_lists)

    def filter_map(self, st, it, g, elt):
        w = self.w
        j = z3.Int(w.fresh_name("c"))
        n = SLen(it.t)
        rng = z3.And(0 <= j, j < n)
        s = st.fork()
        s.assume(rng)
        facts = []
        base = len(s.pc)
        s.env = dict(st.env)
        self.bind_target(s, g.target, self.seq_elem(s, it, j))
        mark = w._fresh
        conds = [self.truth(self.eval1(c, s)) for c in g.ifs]
        val = self.eval1(elt, s)
        if not isinstance(val, V):
            raise EngineError("comprehension element is not a scalar/reference")
        extra = s.pc[base:]
        # values created while evaluating the element for the symbolic index j (results of contract calls, fresh objects) are
        # DIFFERENT for different j: every constant introduced after `mark` becomes a function of j
        conds, (vt,), extra = self.skolemize_over(j, mark, conds, [val.t], extra)
        val = V(val.kind, vt, val.cls)
        if facts or extra:
            st.assume(z3.ForAll([j], z3.Implies(rng, z3.And(facts + extra))))
        r = w.fresh(("seq", val.kind), "comp")
        R = r.t
        st.assume(SLen(R) >= 0)
        # element function as a lambda over j: substitute
        def at(idx):
            return z3.substitute(val.t, (j, idx))
        def cond_at(idx):
            return z3.substitute(z3.And(conds) if conds else z3.BoolVal(True), (j, idx))
        k = z3.Int(w.fresh_name("k"))
        k2 = z3.Int(w.fresh_name("k"))
        if not conds:
            st.assume(SLen(R) == n)
            st.assume(z3.ForAll([k], z3.Implies(z3.And(0 <= k, k < n), SAt(R, k) == at(k))))
        else:
            idx = w.uf(w.fresh_name("idx"), z3.IntSort(), z3.IntSort())
            inv = w.uf(w.fresh_name("inv"), z3.IntSort(), z3.IntSort())
            m = SLen(R)
            st.assume(m <= n)
            st.assume(z3.ForAll([k], z3.Implies(z3.And(0 <= k, k < m),
                                                z3.And(0 <= idx(k), idx(k) < n, cond_at(idx(k)), SAt(R, k) == at(idx(k)), inv(idx(k)) == k))))
            st.assume(z3.ForAll([k, k2], z3.Implies(z3.And(0 <= k, k < k2, k2 < m), idx(k) < idx(k2))))
            st.assume(z3.ForAll([k], z3.Implies(z3.And(0 <= k, k < n, cond_at(k)),
                                                z3.And(0 <= inv(k), inv(k) < m, idx(inv(k)) == k))))
        r.cls = val.cls
        if isinstance(val.kind, tuple) and val.kind[0] == "ref" and val.cls:
            r.kind = ("seq", ("ref", w.short_name(val.cls)))
        return r
