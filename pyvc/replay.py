#!/venv/bin/python
"""Replay of solver counter-models on the REAL code (runs under /venv/bin/python).

For every obligation of build/<P>.obligations.json that is `refuted` (model) or `unknown` (candidate model of a
weakened query) and carries a witness, the inputs are rebuilt as real objects, the real function is called, and
*every* `ensures` clause of its contract is evaluated natively on the outcome.  A clause that fails natively is a
confirmed violation with a concrete input; a witness on which all clauses hold is spurious and counts for nothing.

usage: replay.py <PROP> <obligations.json> <out.json>
"""
import sys, os, json, ast, inspect, importlib, pkgutil, glob, fractions, enum, traceback, copy

ROOT = os.path.dirname(os.path.dirname(os.path.abspath(__file__)))
sys.path.insert(0, ROOT)
os.environ.setdefault("MPLBACKEND", "Agg")


def load_library():
    import qce_circuit
    root = os.path.dirname(qce_circuit.__file__)
    classes, functions = {}, {}
    for m in pkgutil.walk_packages([root], prefix="qce_circuit."):
        try:
            mod = importlib.import_module(m.name)
        except Exception:
            continue
        for name, obj in vars(mod).items():
            if getattr(obj, "__module__", None) != m.name:
                continue
            if inspect.isclass(obj):
                classes[f"{obj.__module__}.{obj.__qualname__}"] = obj
            elif callable(obj):
                functions[f"{m.name}.{name}"] = obj
    return classes, functions


class Lib:
    def __init__(self):
        self.classes, self.functions = load_library()
        self.short = {}
        for q, c in self.classes.items():
            self.short.setdefault(c.__name__, []).append(c)

    def cls(self, name):
        if name in self.classes:
            return self.classes[name]
        cs = self.short.get(name, [])
        return cs[0] if len(cs) == 1 else None

    def callable_of(self, cname):
        parts = cname.split(".")
        if parts[-1] == "setter":
            return None, None
        c = self.cls(parts[0]) if len(parts) == 2 else None
        if c is not None:
            member = inspect.getattr_static(c, parts[1], None)
            if member is None:
                return None, None
            if isinstance(member, property):
                return member.fget, "method"
            if isinstance(member, staticmethod):
                return unwrap(member.__func__), "static"
            if isinstance(member, classmethod):
                return unwrap(member.__func__), "classmethod"
            return unwrap(member), "method"
        hits = [f for q, f in self.functions.items() if q.endswith("." + cname)]
        if len(hits) == 1:
            return unwrap(hits[0]), "static"
        return None, None


def unwrap(f):
    n = 0
    while hasattr(f, "__wrapped__") and n < 5:
        f = f.__wrapped__
        n += 1
    return f


class Incomplete(Exception):
    pass


class StubGap(Exception):
    """the real code asked a stub object for something the solver model says nothing about"""


def stub_get(self, name):
    obs = self.__dict__.get("_obs", {})
    if name in obs:
        return obs[name]
    raise StubGap(f"stub {self.__dict__.get('_label', '?')} has no value for {name}")


class Builder:
    def __init__(self, lib, witness):
        self.lib, self.wit = lib, witness
        self.objs = {}

    def value(self, v):
        if v is None or isinstance(v, (bool, int)):
            return v
        if isinstance(v, str):
            raise Incomplete(f"symbolic value {v}")
        if "real" in v:
            try:
                fr = fractions.Fraction(v["real"])
            except Exception:
                raise Incomplete("non-rational real")
            return float(fr)
        if "str" in v:
            return v["str"]
        if "enum" in v:
            c = self.lib.cls(v["enum"])
            return getattr(c, v["member"])
        if "seq" in v:
            if v["len"] != len(v["seq"]):
                raise Incomplete("sequence longer than the extracted prefix")
            return [self.value(x) for x in v["seq"]]
        if "ref" in v:
            return self.obj(v["ref"])
        raise Incomplete(f"unsupported witness value {v}")

    def obj(self, label):
        if label in self.objs:
            return self.objs[label]
        o = self.wit["objects"][label]
        cls = self.lib.cls(o["class"]) if o.get("class") else None
        static = self.lib.cls(o["static"]) if o.get("static") else None
        if cls is None or inspect.isabstract(cls):
            base = cls or static
            inst = make_stub(base, label)
            self.objs[label] = inst
            for k, v in o.get("observers", {}).items():
                inst._obs[k] = self.value(v)
            for k, v in o.get("fields", {}).items():
                try:
                    object.__setattr__(inst, k, self.value(v))
                except Incomplete:
                    pass
            return inst
        inst = object.__new__(cls)
        self.objs[label] = inst
        for k, v in o.get("fields", {}).items():
            object.__setattr__(inst, k, self.value(v))
        return inst


def make_stub(base, label):
    ns = {"_label": label}

    def mk(name):
        return property(lambda self: stub_get(self, name))
    bases = (base,) if base is not None else (object,)
    names = set(getattr(base, "__abstractmethods__", ())) if base is not None else set()

    class _Meta(type(base) if base is not None else type):
        pass
    body = {n: mk(n) for n in names if not n.startswith("__")}
    body["__repr__"] = lambda self: f"<stub {label}>"
    body["__hash__"] = lambda self: id(self)
    body["__eq__"] = lambda self, other: self is other
    body["__getattr__"] = lambda self, n: stub_get(self, n)
    try:
        S = type(f"Stub_{label}", bases, body)
        S.__abstractmethods__ = frozenset()
        inst = object.__new__(S)
    except Exception:
        S = type(f"Stub_{label}", (object,), body)
        inst = object.__new__(S)
    inst.__dict__["_obs"] = {}
    inst.__dict__["_label"] = label
    return inst


# ---------------------------------------------------------------------------------- native clause evaluation
class Rewrite(ast.NodeTransformer):
    def visit_Call(self, node):
        self.generic_visit(node)
        if isinstance(node.func, ast.Name):
            if node.func.id == "implies" and len(node.args) == 2:
                return ast.BoolOp(op=ast.Or(), values=[ast.UnaryOp(op=ast.Not(), operand=node.args[0]), node.args[1]])
            if node.func.id == "ite" and len(node.args) == 3:
                return ast.IfExp(test=node.args[0], body=node.args[1], orelse=node.args[2])
        return node


def nargs(f):
    try:
        return len(inspect.signature(f).parameters)
    except Exception:
        return 1


def helpers(lib, pure):
    def forall(seq, f):
        return all((f(x, j) if nargs(f) == 2 else f(x)) for j, x in enumerate(list(seq)))

    def exists(seq, f):
        return any((f(x, j) if nargs(f) == 2 else f(x)) for j, x in enumerate(list(seq)))

    def set_same(a, b):
        return a is b or (hash(a) == hash(b) and a == b)
    ns = {"forall": forall, "exists": exists,
          "forall_int": lambda lo, hi, f: all(f(i) for i in range(lo, hi)),
          "exists_int": lambda lo, hi, f: any(f(i) for i in range(lo, hi)),
          "typeis": lambda x, c: type(x) is c, "iff": lambda a, b: bool(a) == bool(b),
          "same_seq": lambda a, b: len(a) == len(b) and all(x is y or x == y for x, y in zip(a, b)),
          "set_same": set_same, "is_none": lambda x: x is None, "same_class": lambda a, b: type(a) is type(b),
          "subseq": lambda s, lo, hi: list(s)[lo:hi], "seq_concat": lambda a, b: list(a) + list(b),
          "let": lambda v, f: f(v)}
    if pure:
        ns["old"] = lambda x: x
    from pyvc import api
    for n, f in getattr(api, "NATIVE", {}).items():
        ns[n] = f
    for name, cs in lib.short.items():
        if len(cs) == 1:
            ns.setdefault(name, cs[0])
    return ns


def eval_clause(text, ns):
    tree = ast.parse(text.strip(), mode="eval")
    tree = ast.fix_missing_locations(Rewrite().visit(tree))
    return eval(compile(tree, "<clause>", "eval"), ns)


def replay_one(lib, contract, fn_name, witness):
    from pyvc import api
    fn, kind = lib.callable_of(fn_name)
    if fn is None:
        return {"status": "not_replayable", "why": "callable not found"}
    b = Builder(lib, witness)
    try:
        args = {n: b.value(v) for n, v in witness["params"].items()}
    except Incomplete as e:
        return {"status": "not_replayable", "why": f"witness incomplete: {e}"}
    except Exception as e:
        return {"status": "not_replayable", "why": f"cannot build inputs: {type(e).__name__}: {e}"}
    ns = helpers(lib, contract.pure)
    ns.update(args)
    try:
        for n, e in contract.let.items():
            if "result" not in e:
                ns[n] = eval_clause(e, ns)
        for r in contract.requires:
            if not eval_clause(r, ns):
                return {"status": "not_replayable", "why": f"witness violates requires natively: {r}"}
    except Exception as e:
        return {"status": "not_replayable", "why": f"requires not evaluable natively: {type(e).__name__}: {e}"}
    shown = {n: repr(v)[:200] for n, v in args.items()}
    try:
        result = fn(**args)
        if inspect.isgenerator(result):
            result = list(result)
    except StubGap as e:
        return {"status": "not_replayable", "why": str(e), "inputs": shown}
    except Exception as e:
        en = type(e).__name__
        allowed = contract.allow_raise or en in contract.raises or "*" in contract.raises
        if allowed and en in contract.raises:
            try:
                ok = bool(eval_clause(contract.raises[en], ns))
            except Exception:
                ok = True
            if ok:
                return {"status": "holds", "inputs": shown, "observed": f"raises {en} (allowed)"}
            return {"status": "confirmed", "failed": [f"raises:{en}"], "inputs": shown, "observed": f"raises {en}: {e}",
                    "required": f"raises {en} only when {contract.raises[en]}"}
        if allowed:
            return {"status": "holds", "inputs": shown, "observed": f"raises {en} (allowed)"}
        return {"status": "confirmed", "failed": [f"noraise:{en}"], "inputs": shown, "observed": f"raises {en}: {str(e)[:200]}",
                "required": "no exception under requires"}
    ns["result"] = result
    failed, not_eval = [], []
    try:
        for n, e in contract.let.items():
            if "result" in e:
                ns[n] = eval_clause(e, ns)
    except Exception as e:
        not_eval.append(f"let: {e}")
    for k, e in enumerate(contract.ensures):
        try:
            if not eval_clause(e, ns):
                failed.append(f"post{k}")
        except StubGap as ex:
            not_eval.append(f"post{k}: {ex}")
        except Exception as ex:
            not_eval.append(f"post{k}: {type(ex).__name__}: {str(ex)[:80]}")
    # a normal return although a `raises` condition held on entry
    for exc, when in contract.raises.items():
        if exc == "*":
            continue
        try:
            if eval_clause(when, ns):
                failed.append(f"raises:{exc}:complete")
        except Exception:
            pass
    out = {"inputs": shown, "observed": repr(result)[:300], "not_evaluable": not_eval}
    if failed:
        out.update({"status": "confirmed", "failed": failed,
                    "required": [contract.ensures[int(f[4:])] for f in failed if f.startswith("post")]})
    else:
        out["status"] = "holds"
    return out


def main():
    prop, obl_path, out_path = sys.argv[1:4]
    from pyvc import api
    for f in sorted(glob.glob(os.path.join(ROOT, "contracts", "c*.py"))):
        importlib.import_module("contracts." + os.path.basename(f)[:-3])
    lib = Lib()
    with open(obl_path) as fh:
        data = json.load(fh)
    out = {"replays": [], "by_obligation": {}}
    for r in data["results"]:
        if r["name"].startswith("lemma:"):
            continue
        cname = r.get("contract_name") or r["name"]
        c = api.CONTRACTS.get(cname)
        if c is None:
            continue
        seen = set()
        for o in r["obligations"]:
            if o["verdict"] == "proved" or "witness" not in o:
                continue
            for wit in (o.get("witnesses") or [o["witness"]]):
                key = json.dumps(wit, sort_keys=True)
                if key in seen:
                    rp = next(x for x in out["replays"] if x["_key"] == key and x["function"] == r["name"])
                else:
                    seen.add(key)
                    try:
                        rp = replay_one(lib, c, r["name"], wit)
                    except Exception as e:
                        rp = {"status": "not_replayable", "why": f"replayer error: {type(e).__name__}: {e}", "trace": traceback.format_exc()[-600:]}
                    rp["function"], rp["_key"], rp["witness"] = r["name"], key, wit
                    rp["from_obligation"], rp["candidate_only"] = o["id"], bool(o.get("witness_is_candidate_only"))
                    out["replays"].append(rp)
                out["by_obligation"].setdefault(o["id"], []).append({"status": rp["status"], "failed": rp.get("failed", []),
                                                                     "index": out["replays"].index(rp)})
    for rp in out["replays"]:
        rp.pop("_key", None)
    with open(out_path, "w") as fh:
        json.dump(out, fh, indent=1, default=str)
    n = len(out["replays"])
    print(f"replay: {n} witnesses, confirmed={sum(1 for x in out['replays'] if x['status']=='confirmed')}, "
          f"holds={sum(1 for x in out['replays'] if x['status']=='holds')}, "
          f"not_replayable={sum(1 for x in out['replays'] if x['status']=='not_replayable')}")


if __name__ == "__main__":
    main()
