"""Symbolic state of one execution path."""
import z3


class State:
    def __init__(self, world):
        self.w = world
        self.env = {}
        self.heap = {}      # field key (owner qual, name) -> z3 Array(Ref -> sort)
        self.ver = {}       # field key / ghost key -> z3 Int (version token)
        self.epoch = z3.Int(world.fresh_name("epoch"))
        self.cattr = {}     # (class qual, attr) -> value (class-level attributes, e.g. id counters)
        self.pc = []
        self.path = ""
        self.clock0 = z3.Int(world.fresh_name("clock"))
        self.clock_off = 0
        self.entry_clock = self.clock0      # allocation clock when the function under verification is entered
        self.heap_closure = False
        self.pre = None     # entry snapshot (for old())
        self.ghost = {}
        self.inst = set()   # contract instances / typed reads whose facts are already in pc

    def fork(self):
        s = State.__new__(State)
        s.w = self.w
        s.env = dict(self.env)
        s.heap = dict(self.heap)
        s.ver = dict(self.ver)
        s.epoch = self.epoch
        s.cattr = dict(self.cattr)
        s.pc = list(self.pc)
        s.path = self.path
        s.clock0 = self.clock0
        s.clock_off = self.clock_off
        s.entry_clock = self.entry_clock
        s.heap_closure = self.heap_closure
        s.pre = self.pre
        s.ghost = dict(self.ghost)
        s.inst = set(self.inst)
        return s

    def snapshot(self):
        """A frozen copy used for old(...)"""
        return self.fork()

    def assume(self, fact):
        if fact is True or (z3.is_true(fact) if z3.is_expr(fact) else False):
            return self
        self.pc.append(fact)
        return self

    @property
    def clock(self):
        return self.clock0 + self.clock_off

    def field_array(self, key, sort):
        if key not in self.heap:
            h0 = z3.Const(f"H0:{key[0].rsplit('.',1)[-1]}.{key[1]}", z3.ArraySort(self.w.Ref, sort))
            self.heap[key] = h0
            # heap closure at entry: an object that exists at entry references only objects that exist at entry
            # (nothing can point to an object that has not been allocated yet)
            w = self.w
            r = z3.Const(w.fresh_name("hc"), w.Ref)
            c0 = self.entry_clock
            if not self.heap_closure:
                pass      # (only functions whose contract asks for it: the quantified axiom costs the solver its counter-models)
            elif sort == w.Ref:
                x = z3.Select(h0, r)
                self.pc.append(z3.ForAll([r], z3.Implies(w.born(r) < c0, z3.Or(x == w.null, w.born(x) < c0)), patterns=[z3.Select(h0, r)]))
            elif sort in [w.seq_sort(w.Ref)] if hasattr(w, "seq_sort") else False:
                from .world import SAt, SLen
                j = z3.Int(w.fresh_name("hj"))
                x = SAt(z3.Select(h0, r), j)
                self.pc.append(z3.ForAll([r, j], z3.Implies(z3.And(w.born(r) < c0, 0 <= j, j < SLen(z3.Select(h0, r))),
                                                            z3.Or(x == w.null, w.born(x) < c0)), patterns=[x]))
        return self.heap[key]

    def version(self, key):
        if key not in self.ver:
            self.ver[key] = z3.Int(f"ver0:{key}")
        return self.ver[key]

    def bump(self, key):
        self.ver[key] = z3.Int(self.w.fresh_name(f"ver:{key}"))
        from . import api
        if isinstance(key, str) and key.split(".")[0] in api.EXTERNALS:
            # a ghost field of the MODEL of an external object (e.g. the OpenQL kernel's log): no observer of a repository
            # class can read it, so what they report (observers with reads="*") is unchanged
            return
        self.epoch = z3.Int(self.w.fresh_name("epoch"))
