"""Symbolic state of one execution path."""
import z3


class State:
    def __init__(self, world):
        self.w = world
        self.env = {}
        self.heap = {}      # field key (owner qual, name) -> z3 Array(Ref -> sort)
        self.ver = {}       # field key / ghost key -> z3 Int (version token)
        self.epoch = z3.Int(world.fresh_name("epoch"))
        self.cattr = {}     # (class qual, attr) -> value (class-level attributes, e.g. id counters)
        self.pc = []
        self.path = ""
        self.clock0 = z3.Int(world.fresh_name("clock"))
        self.clock_off = 0
        self.pre = None     # entry snapshot (for old())
        self.ghost = {}
        self.inst = set()   # contract instances / typed reads whose facts are already in pc

    def fork(self):
        s = State.__new__(State)
        s.w = self.w
        s.env = dict(self.env)
        s.heap = dict(self.heap)
        s.ver = dict(self.ver)
        s.epoch = self.epoch
        s.cattr = dict(self.cattr)
        s.pc = list(self.pc)
        s.path = self.path
        s.clock0 = self.clock0
        s.clock_off = self.clock_off
        s.pre = self.pre
        s.ghost = dict(self.ghost)
        s.inst = set(self.inst)
        return s

    def snapshot(self):
        """A frozen copy used for old(...)"""
        return self.fork()

    def assume(self, fact):
        if fact is True or (z3.is_true(fact) if z3.is_expr(fact) else False):
            return self
        self.pc.append(fact)
        return self

    @property
    def clock(self):
        return self.clock0 + self.clock_off

    def field_array(self, key, sort):
        if key not in self.heap:
            self.heap[key] = z3.Const(f"H0:{key[0].rsplit('.',1)[-1]}.{key[1]}", z3.ArraySort(self.w.Ref, sort))
        return self.heap[key]

    def version(self, key):
        if key not in self.ver:
            self.ver[key] = z3.Int(f"ver0:{key}")
        return self.ver[key]

    def bump(self, key):
        self.ver[key] = z3.Int(self.w.fresh_name(f"ver:{key}"))
        from . import api
        if isinstance(key, str) and key.split(".")[0] in api.EXTERNALS:
            # a ghost field of the MODEL of an external object (e.g. the OpenQL kernel's log): no observer of a repository
            # class can read it, so what they report (observers with reads="*") is unchanged
            return
        self.epoch = z3.Int(self.w.fresh_name("epoch"))
