"""Turn a z3 model into a structured, JSON-able witness of the function's inputs (entry state)."""
import z3
from . import api
from .world import V, NONE, SLen, SAt, VList, VTuple

MAX_DEPTH = 4
MAX_ELEMS = 6


class Prober:
    def __init__(self, world, ex, entry_state, params, contract):
        self.w, self.ex, self.st, self.params, self.c = world, ex, entry_state, params, contract
        self.id2cls = {i: q for q, i in world.class_id.items()}

    def witness(self, model):
        self.m = model
        self.labels = {}
        self.objects = {}
        self.strs = {}
        out = {"params": {}, "objects": self.objects}
        for n, v in self.params.items():
            try:
                out["params"][n] = self.val(v, 0, self.c.params.get(n))
            except Exception as e:  # never let witness extraction break a run
                out["params"][n] = {"error": str(e)[:100]}
        return out

    def diversity_atoms(self):
        """boolean terms whose valuation distinguishes 'kinds' of inputs (used to enumerate diverse candidates)"""
        w = self.w
        atoms, refs, seqs = [], [], []

        def visit(v, depth):
            if not isinstance(v, V):
                return
            k = v.kind
            if k == "bool":
                atoms.append(v.t)
            elif k == "int":
                atoms.extend([v.t == 0, v.t == 1, v.t >= 2])
            elif isinstance(k, tuple) and k[0] == "enum":
                sort, consts = w.enum_sort(k[1])
                atoms.extend([v.t == c for c in list(consts.values())[:4]])
            elif isinstance(k, tuple) and k[0] in ("seq", "set"):
                atoms.extend([SLen(v.t) == 0, SLen(v.t) == 1])
                seqs.append(v)
            elif isinstance(k, tuple) and k[0] == "ref":
                refs.append(v)
                atoms.append(v.t == w.null)
                if v.cls and depth < 2:
                    names = []
                    for c in w.mro(v.cls):
                        names += [f["name"] for f in w.dataclass_fields(c)] + list(api.FIELDS.get(w.short_name(c), {}))
                    for fn in dict.fromkeys(names):
                        decl = w.field_decl(v.cls, fn)
                        if decl is None:
                            continue
                        owner, kind = decl
                        arr = self.st.field_array((owner, fn), w.sort_of(kind))
                        visit(w.wrap(kind, z3.Select(arr, v.t)), depth + 1)
        for n, v in self.params.items():
            visit(v, 0)
        for r in refs:
            for s in seqs:
                if w.sort_of(s.kind[1]) == w.Ref:
                    atoms.append(z3.And(SLen(s.t) > 0, SAt(s.t, z3.IntVal(0)) == r.t))
                    atoms.append(z3.And(SLen(s.t) > 1, SAt(s.t, z3.IntVal(1)) == r.t))
        for i, a in enumerate(refs):
            for b in refs[i + 1:]:
                atoms.append(a.t == b.t)
        # membership-like relations between integer sequences (what `x in xs` conditions depend on)
        ints = [s for s in seqs if w.sort_of(s.kind[1]) == z3.IntSort()]
        rel = []
        for i, a in enumerate(ints):
            for b in ints[i + 1:]:
                for x in range(2):
                    for y in range(2):
                        rel.append(z3.And(SLen(a.t) > x, SLen(b.t) > y, SAt(a.t, z3.IntVal(x)) == SAt(b.t, z3.IntVal(y))))
            rel.append(z3.And(SLen(a.t) > 1, SAt(a.t, z3.IntVal(0)) == SAt(a.t, z3.IntVal(1))))
        return rel[:30] + atoms[:60]

    def shape_constraints(self, small=True):
        """well-typedness of the entry heap around the parameters (depth 2) + smallness bounds, used only to steer the
        search for CANDIDATE inputs (which are then replayed on the real code)"""
        w = self.w
        out = []
        seen = set()

        def visit(v, depth):
            if not isinstance(v, V):
                return
            k = v.kind
            if k == "int" and small:
                out.append(z3.And(v.t >= -2, v.t <= 6))
            if k == "real" and small:
                out.append(z3.And(v.t >= -2, v.t <= 8))
            if isinstance(k, tuple) and k[0] in ("seq", "set"):
                out.append(z3.And(SLen(v.t) >= 0, SLen(v.t) <= (3 if small else 6)))
                for i in range(3):
                    e = w.wrap(k[1], SAt(v.t, z3.IntVal(i)))
                    ek = w.base_kind(k[1])
                    if isinstance(ek, tuple) and ek[0] == "ref":
                        fact = w.isinstance_term(e.t, w.cls(ek[1])) if ek[1] else e.t != w.null
                        out.append(z3.Implies(SLen(v.t) > i, fact))
                    if depth < 2:
                        visit(e, depth + 1)
            if isinstance(k, tuple) and k[0] == "ref" and v.cls and depth < 3:
                if (str(v.t), v.cls) in seen:
                    return
                seen.add((str(v.t), v.cls))
                for cq in [v.cls] + w.subclasses(v.cls):
                    if w.classes[cq]["is_abstract"]:
                        continue
                    names = []
                    for c in w.mro(cq):
                        names += [f["name"] for f in w.dataclass_fields(c)] + list(api.FIELDS.get(w.short_name(c), {}))
                    for fn in dict.fromkeys(names):
                        decl = w.field_decl(cq, fn)
                        if decl is None:
                            continue
                        owner, kind = decl
                        arr = self.st.field_array((owner, fn), w.sort_of(kind))
                        fv = w.wrap(kind, z3.Select(arr, v.t))
                        bk = w.base_kind(kind)
                        guard = w.exact_class_term(v.t, cq)
                        if isinstance(bk, tuple) and bk[0] == "ref":
                            nullable = isinstance(kind, tuple) and kind[0] == "opt"
                            fact = w.isinstance_term(fv.t, w.cls(bk[1])) if bk[1] else fv.t != w.null
                            if nullable:
                                fact = z3.Or(fv.t == w.null, fact)
                            out.append(z3.Implies(guard, fact))
                            out.append(z3.Implies(guard, fv.t != v.t))
                        if cq == v.cls or len(w.subclasses(v.cls)) < 4:
                            visit(fv, depth + 1)
        for n, v in self.params.items():
            visit(v, 0)
        return out

    def ev(self, t):
        return self.m.eval(t, model_completion=True)

    def val(self, v, depth, kind=None):
        if v is NONE:
            return None
        if not isinstance(v, V):
            return {"unsupported": type(v).__name__}
        k = v.kind
        t = self.ev(v.t)
        if k == "int":
            return t.as_long() if z3.is_int_value(t) else str(t)
        if k == "bool":
            return z3.is_true(t)
        if k == "real":
            try:
                return {"real": f"{t.numerator_as_long()}/{t.denominator_as_long()}"}
            except Exception:
                return {"real": str(t)}
        if k == "str":
            for s, c in self.w.str_consts.items():
                if self.ev(c).eq(t):
                    return {"str": s}
            key = str(t)
            self.strs.setdefault(key, f"s{len(self.strs)}")
            return {"str": self.strs[key]}
        if isinstance(k, tuple) and k[0] == "enum":
            return {"enum": self.w.short_name(self.w.cls(k[1])), "member": str(t)}
        if isinstance(k, tuple) and k[0] in ("seq", "set"):
            n = self.ev(SLen(v.t))
            n = n.as_long() if z3.is_int_value(n) else 0
            items = []
            for i in range(max(0, min(n, MAX_ELEMS))):
                items.append(self.val(self.w.wrap(k[1], SAt(v.t, z3.IntVal(i))), depth + 1))
            return {"seq": items, "len": n}
        if isinstance(k, tuple) and k[0] == "ref":
            if self.ev(self.w.null).eq(t):
                return None
            key = str(t)
            if key not in self.labels:
                self.labels[key] = f"r{len(self.labels)}"
                cid = self.ev(self.w.cls_of(v.t))
                q = self.id2cls.get(cid.as_long()) if z3.is_int_value(cid) else None
                obj = {"class": q, "static": v.cls, "fields": {}, "observers": {}}
                self.objects[self.labels[key]] = obj
                if depth < MAX_DEPTH:
                    self.fill(obj, v, q, depth)
            return {"ref": self.labels[key]}
        return {"unsupported": str(k)}

    def fill(self, obj, v, q, depth):
        w = self.w
        cls = q or v.cls
        if cls is None:
            return
        vv = V(v.kind, v.t, cls)
        names = []
        for c in w.mro(cls):
            for f in w.dataclass_fields(c):
                if f["name"] not in names:
                    names.append(f["name"])
            for fn in api.FIELDS.get(w.short_name(c), {}):
                if fn not in names:
                    names.append(fn)
        for fn in names:
            decl = w.field_decl(cls, fn)
            if decl is None:
                continue
            owner, kind = decl
            arr = self.st.field_array((owner, fn), w.sort_of(kind))
            fv = w.wrap(kind, z3.Select(arr, v.t))
            obj["fields"][fn] = self.val(fv, depth + 1, kind)
        # interface observers with only `self` (e.g. start_time, end_time, id): values the stub must report
        for cname, c in api.CONTRACTS.items():
            if not c.observer or list(c.params) != ["self"]:
                continue
            ocls, meth = cname.split(".", 1)
            if not w.has_cls(ocls) or not w.is_subclass(cls, w.cls(ocls)):
                continue
            vers = [self.st.epoch] if c.reads == "*" else [self.st.version(k) for k in c.reads]
            sorts = [x.sort() for x in vers] + [w.Ref, w.sort_of(c.returns)]
            f = w.uf(f"obs:{cname}", *sorts)
            rv = w.wrap(c.returns, f(*(vers + [v.t])))
            obj["observers"][meth] = self.val(rv, depth + 1, c.returns)
