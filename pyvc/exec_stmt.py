"""Statement layer: blocks, branches, loops (cut by invariants), assignments."""
import ast
import z3
from . import api
from .world import (SLen, SAt, SArr, SMk, SAppend, EngineError, V, NONE, VTuple, VList, VClass, VBound, VBuiltin, VLambda, VRev, VRange,
                    VEnumerate, VDict, VView)
from .exec_resolve import ExecResolve
from .exec import MAX_PATHS


class Executor(ExecResolve):

    def exec_block(self, stmts, st):
        """-> list of (state, outcome); outcome None = fell through"""
        live = [st]
        done = []
        for stmt in stmts:
            nxt = []
            for s in live:
                for s2, oc in self.exec_stmt(stmt, s):
                    if oc is None:
                        nxt.append(s2)
                    else:
                        done.append((s2, oc))
            live = nxt
            if len(live) + len(done) > MAX_PATHS:
                raise EngineError("path explosion")
            if not live:
                break
        return [(s, None) for s in live] + done

    def drain_pending(self):
        p, self.pending = self.pending, []
        return p

    def exec_stmt(self, stmt, st):
        m = getattr(self, "s_" + type(stmt).__name__, None)
        if m is None:
            raise EngineError(f"unsupported statement {type(stmt).__name__}")
        # numbered obligations (index#, key#, pre:...#) are named after the statement they belong to (function label + line +
        # ordinal within the statement): stable under path pruning elsewhere in the function
        saved = (self.cur_line, self.stmt_counters)
        self.cur_line, self.stmt_counters = getattr(stmt, "lineno", 0), {}
        try:
            outs = list(m(stmt, st))
        finally:
            self.cur_line, self.stmt_counters = saved
        outs.extend(self.drain_pending())
        return outs

    # ------------------------------------------------------------------ simple statements
    def s_Pass(self, stmt, st):
        yield st, None

    def s_Expr(self, stmt, st):
        if isinstance(stmt.value, ast.Constant):
            yield st, None
            return
        if isinstance(stmt.value, ast.Yield) and self.depth == 0:
            # generator under verification: the yielded values, in order, are the abstract result
            for s, v in self.eval(stmt.value.value, st):
                cur = s.env.get("__yielded__", VList([]))
                if isinstance(v, V) and v.alias is not None:
                    v = V(v.kind, v.t, v.cls)
                if isinstance(v, VList):
                    ek = self.contract.returns[1][1] if self.contract and self.contract.returns else None
                    v = self.to_seq(v, ek)
                s.env["__yielded__"] = self.mutated(s, cur, "append", [v])
                yield s, None
            return
        for s, _ in self.eval(stmt.value, st):
            yield s, None

    def s_Return(self, stmt, st):
        if stmt.value is None:
            yield st, ("return", NONE)
            return
        for s, v in self.eval(stmt.value, st):
            yield s, ("return", v)

    def s_Raise(self, stmt, st):
        name = "Exception"
        e = stmt.exc
        if isinstance(e, ast.Call):
            e = e.func
        if isinstance(e, ast.Name):
            name = e.id
        elif isinstance(e, ast.Attribute):
            name = e.attr
        yield st, ("raise", name)

    def s_Assert(self, stmt, st):
        for s, v in self.eval(stmt.test, st):
            t = self.truth(v)
            s_fail = s.fork()
            s_fail.assume(z3.Not(t))
            s_fail.path += "a"
            if self.feasible(s_fail):
                yield s_fail, ("raise", "AssertionError")
            s.assume(t)
            yield s, None

    def s_Break(self, stmt, st):
        yield st, ("break",)

    def s_Continue(self, stmt, st):
        yield st, ("continue",)

    def s_Assign(self, stmt, st):
        for s, v in self.eval(stmt.value, st):
            states = [s]
            for tgt in stmt.targets:
                states = [s3 for s2 in states for s3 in self.assign(s2, tgt, v)]
            for s2 in states:
                yield s2, None

    def s_AnnAssign(self, stmt, st):
        if stmt.value is None:
            yield st, None
            return
        for s, v in self.eval(stmt.value, st):
            # empty literal list with an annotation: keep the element kind
            if isinstance(v, VList) and not v.items:
                k = self.w.kind_from_annotation(stmt.annotation)
                if k and k[0] == "seq":
                    v = self.to_seq(v, k[1])
            elif self.is_symseq(v):
                # an annotation may widen the element type (List[Interface] = list_of_implementations)
                k = self.w.kind_from_annotation(stmt.annotation)
                if k and k[0] == "seq" and self.w.sort_of(k) == v.t.sort():
                    ek_new, ek_old = self.w.base_kind(k[1]), self.w.base_kind(v.kind[1])
                    if isinstance(ek_new, tuple) and ek_new[0] == "ref" and ek_new[1] and isinstance(ek_old, tuple) and ek_old[1] \
                            and self.w.is_subclass(self.w.cls(ek_old[1]), self.w.cls(ek_new[1])):
                        v = V((v.kind[0], ek_new), v.t, alias=v.alias)
            for s2 in self.assign(s, stmt.target, v):
                yield s2, None

    def s_AugAssign(self, stmt, st):
        load = ast.copy_location(ast.BinOp(left=self.as_load(stmt.target), op=stmt.op, right=stmt.value), stmt)
        if isinstance(stmt.target, ast.Name) and stmt.target.id in st.env and self.is_seq(st.env[stmt.target.id]) \
                and isinstance(stmt.op, ast.Add):
            cur = st.env[stmt.target.id]
            if isinstance(cur, V) and cur.alias is not None:
                raise EngineError("+= on a list aliasing a field")
        for s, v in self.eval(load, st):
            for s2 in self.assign(s, stmt.target, v):
                yield s2, None

    def as_load(self, node):
        n = ast.parse(ast.unparse(node), mode="eval").body
        return n

    def assign(self, st, tgt, v):
        """generator of states"""
        if isinstance(tgt, ast.Name):
            if isinstance(v, V) and v.alias is not None:
                v = V(v.kind, v.t, v.cls, v.alias)
            old = st.env.get(tgt.id)
            if isinstance(v, VDict) and not v.items and self.is_dict(old):
                v = self.empty_dict(st, old.kind)     # `lookup = {}` where lookup was a (None) dictionary parameter
            if isinstance(v, VList) and not v.items and self.is_symseq(old):
                v = self.to_seq(v, old.kind[1])       # `xs = []` re-initialising a list whose element kind is known
            st.env[tgt.id] = v
            yield st
        elif isinstance(tgt, (ast.Tuple, ast.List)):
            self.bind_target(st, tgt, v)
            yield st
        elif isinstance(tgt, ast.Attribute):
            for s, obj in self.eval(tgt.value, st):
                if isinstance(obj, VClass):
                    s.cattr[(obj.qual, tgt.attr)] = v
                    yield s
                    continue
                if not (isinstance(obj, V) and isinstance(obj.kind, tuple) and obj.kind[0] == "ref" and obj.cls):
                    raise EngineError("attribute store on non-object")
                q, m = self.w.find_member(obj.cls, tgt.attr)
                if m is not None and m["kind"] == "property":
                    if "setter" not in m:
                        raise EngineError(f"property {tgt.attr} has no setter")
                    over = self.w.overriders(obj.cls, tgt.attr, q)
                    # same resolution rule as for method calls: a contract at or below the defining class, else the exact
                    # body when nothing below overrides it, else an interface-level contract
                    c = None
                    for qq in self.w.mro(obj.cls):
                        c = api.CONTRACTS.get(f"{self.w.short_name(qq)}.{tgt.attr}.setter")
                        if c is not None or qq == q:
                            break
                    if c is None and not over:
                        for s2, _ in self.inline(s, m["setter"], q, obj, [v], {}):
                            yield s2
                        continue
                    if c is None:
                        c = self.find_contract(obj.cls, tgt.attr + ".setter")
                    if c is None:
                        raise EngineError(f"setter {tgt.attr} is overridden: needs a contract '{tgt.attr}.setter'")
                    for s2, _ in self.apply_contract(s, c, obj, [v], {}, m["setter"]):
                        yield s2
                    continue
                self.write_field(s, obj, tgt.attr, v)
                yield s
        elif isinstance(tgt, ast.Subscript):
            for s1, d in self.eval(tgt.value, st):
                if not self.is_dict(d):
                    raise EngineError("subscript store on a non-dictionary")
                for s2, k in self.eval(tgt.slice, s1):
                    self.dict_store(s2, d, k, v)
                    yield s2
        else:
            raise EngineError("assignment target")

    # ------------------------------------------------------------------ branches
    def narrow(self, st, test, positive):
        """flow-sensitive narrowing of static classes after isinstance / is None tests"""
        if isinstance(test, ast.UnaryOp) and isinstance(test.op, ast.Not):
            self.narrow(st, test.operand, not positive)
            return
        if isinstance(test, ast.BoolOp) and isinstance(test.op, ast.And) and positive:
            for v in test.values:
                self.narrow(st, v, True)
            return
        if positive and isinstance(test, ast.Call) and isinstance(test.func, ast.Name) and test.func.id in ("isinstance", "typeis") \
                and isinstance(test.args[0], ast.Name) and isinstance(test.args[1], ast.Name):
            n, cn = test.args[0].id, test.args[1].id
            v = st.env.get(n)
            if isinstance(v, V) and isinstance(v.kind, tuple) and v.kind[0] == "ref" and self.w.has_cls(cn):
                q = self.w.cls(cn)
                if v.cls is None or self.w.is_subclass(q, v.cls):
                    st.env[n] = V(v.kind, v.t, q)

    def s_If(self, stmt, st):
        for s, c in self.eval(stmt.test, st):
            t = self.truth(c)
            s_then = s.fork()
            s_then.assume(t)
            s_then.path += "T"
            s_else = s
            s_else.assume(z3.Not(t))
            s_else.path += "F"
            if self.feasible(s_then):
                self.narrow(s_then, stmt.test, True)
                for o in self.exec_block(stmt.body, s_then):
                    yield o
            if self.feasible(s_else):
                self.narrow(s_else, stmt.test, False)
                if stmt.orelse:
                    for o in self.exec_block(stmt.orelse, s_else):
                        yield o
                else:
                    yield s_else, None

    def s_With(self, stmt, st):
        # context managers are transparent unless a contract says otherwise (warnings.catch_warnings etc.)
        for item in stmt.items:
            src = ast.unparse(item.context_expr)
            if not any(k in src for k in ("catch_warnings", "warnings.")):
                raise EngineError(f"with {src}")
        yield from self.exec_block(stmt.body, st)

    def s_Try(self, stmt, st):
        if stmt.handlers or stmt.orelse:
            raise EngineError("try/except")
        for s, oc in self.exec_block(stmt.body, st):
            for s2, oc2 in self.exec_block(stmt.finalbody, s):
                yield s2, (oc2 if oc2 is not None else oc)

    # ------------------------------------------------------------------ loops
    def assigned_names(self, body):
        names = set()
        for node in body:
            for n in ast.walk(node):
                if isinstance(n, ast.Yield):
                    names.add("__yielded__")
                if isinstance(n, ast.Name) and isinstance(n.ctx, ast.Store):
                    names.add(n.id)
                elif isinstance(n, ast.Call) and isinstance(n.func, ast.Attribute) and isinstance(n.func.value, ast.Name) \
                        and n.func.attr in ("append", "extend", "add", "remove", "clear", "insert", "pop", "update"):
                    names.add(n.func.value.id)
        return names

    def havoc_value(self, v, hint):
        if isinstance(v, V):
            nv = self.w.fresh(v.kind, hint)
            nv.cls = v.cls
            return nv
        if isinstance(v, VList):
            if not v.items:
                return None  # element kind unknown yet: resolved by first use
            k = self.kind_of(v.items[0])
            return self.w.fresh(("seq", k), hint)
        if v is NONE:
            return None
        raise EngineError(f"cannot havoc loop variable {hint} = {v}")

    def s_For(self, stmt, st):
        if stmt.orelse:
            raise EngineError("for/else")
        for s0, it in self.eval(stmt.iter, st):
            if isinstance(it, (VList, VTuple)):
                yield from self.unrolled_for(stmt, s0, it.items)
            else:
                yield from self.symbolic_for(stmt, s0, it)

    def unrolled_for(self, stmt, st, items):
        live = [st]
        out = []
        for item in items:
            nxt = []
            for s in live:
                self.bind_target(s, stmt.target, item)
                for s2, oc in self.exec_block(stmt.body, s):
                    if oc is None or oc[0] == "continue":
                        nxt.append(s2)
                    elif oc[0] == "break":
                        out.append((s2, None))
                    else:
                        out.append((s2, oc))
            live = nxt
        return [(s, None) for s in live] + out

    def loop_elem(self, st, it, i):
        """-> (length term, element value at logical position i, typing facts)"""
        if isinstance(it, VRange):
            lo, hi = it.lo.t, it.hi.t
            n = z3.If(hi > lo, hi - lo, 0)
            return n, V("int", lo + i), []
        if isinstance(it, VRev):
            inner = it.seq
            inner = self.to_seq(inner) if not self.is_symseq(inner) else inner
            n = SLen(inner.t)
            pos = n - 1 - i
            return n, self.seq_elem(st, inner, pos), self.elem_facts(inner, pos)
        if isinstance(it, VEnumerate):
            n, e, f = self.loop_elem(st, it.seq, i)
            return n, VTuple([V("int", i), e]), f
        if self.is_symseq(it):
            n = SLen(it.t)
            return n, self.seq_elem(st, it, i), self.elem_facts(it, i)
        raise EngineError(f"iteration over {it}")

    def inv_env(self, st, it, i, extra=None):
        env = dict(self.let_env)
        env.update(st.env)
        env["_i"] = V("int", i)
        base = it
        if isinstance(it, VEnumerate):
            base = it.seq
        if isinstance(base, VRev):
            base = base.seq
        if self.is_symseq(base) and not isinstance(it, VRev) and not (isinstance(it, VEnumerate) and isinstance(it.seq, VRev)):
            env["_xs"] = base
            env["_seen"] = VView(base, z3.IntVal(0), i)
        elif self.is_symseq(base):
            env["_xs"] = base
            n = SLen(base.t)
            env["_seen"] = VView(base, n - i, n)   # the suffix already visited
        if extra:
            env.update(extra)
        return env

    def symbolic_for(self, stmt, st, it):
        w = self.w
        top = self.depth == 0
        if top and id(stmt) in self.loop_ids:
            ordinal = self.loop_ids[id(stmt)]       # syntactic ordinal (source order), the same on every path
        else:
            ordinal = self.loop_ordinal
            self.loop_ordinal += 1
        invs = None
        c = self.contract
        if top and c is not None:
            invs = c.loops.get(ordinal)
        if invs is None and not top:
            # loop inside an inlined helper: look for the helper's own contract loops is not possible -> out of reach
            raise EngineError("loop inside inlined function (give the callee a contract)")
        if invs is None:
            raise EngineError(f"loop {ordinal} has no invariant")
        label = f"loop{ordinal}"
        kinds = (c.loops.get(f"{ordinal}:kinds", {}) if c else {})
        ghosts = (c.loops.get(f"{ordinal}:ghost", {}) if c else {})
        for nme, k in kinds.items():
            if nme in st.env:
                st.env[nme] = self.coerce(st.env[nme], k)
        for g, (gk, ginit, gupd) in ghosts.items():
            st.env[g] = self.coerce(self.eval_spec_value(ginit, st, dict(st.env)), gk)
        n0, _, _ = self.loop_elem(st, it, z3.IntVal(0))
        # 1. invariants hold on entry
        for k, inv in enumerate(invs):
            t = self.eval_spec(inv, st, self.inv_env(st, it, z3.IntVal(0)))
            self.oblige("inv-init", st, t, f"loop {ordinal} invariant {k} on entry: {inv}", name=f"{label}.inv{k}.init")
        # 2. discover what the body modifies
        names = sorted(self.assigned_names(stmt.body) | self.target_names(stmt.target) | set(ghosts))
        stored = {n.id for node in stmt.body for n in ast.walk(node) if isinstance(n, ast.Name) and isinstance(n.ctx, ast.Store)} \
            | self.target_names(stmt.target) | set(ghosts)
        written, inited = self.discover_writes(stmt, st, it)
        # 3. arbitrary iteration
        def havocked(base_state, tag):
            s = base_state.fork()
            # objects may have been allocated by earlier iterations: the clock is arbitrary but not earlier
            s.clock0 = z3.Int(w.fresh_name("clock"))
            s.clock_off = 0
            s.assume(s.clock0 >= base_state.clock)
            for nme in names:
                if nme in s.env:
                    cur = s.env[nme]
                    if nme not in stored and isinstance(cur, V) and cur.kind[0] == "ref":
                        continue    # x.add(..) / x.update(..) on an OBJECT is a method call (its effects come from its contract), not a rebinding
                    hv = self.havoc_value(s.env[nme], f"{nme}@{label}")
                    if hv is not None:
                        s.env[nme] = hv
                        if isinstance(hv, V):
                            for f_ in self.type_facts(s, hv, hv.kind if hv.cls is None or hv.kind[0] != "ref" else ("ref", w.short_name(hv.cls))):
                                s.assume(f_)
                    elif s.env[nme] is NONE or (isinstance(s.env[nme], VList) and not s.env[nme].items):
                        # kind unknown: try the loop contract's declared kinds
                        k = (c.loops.get(f"{ordinal}:kinds", {}) if c else {}).get(nme)
                        if k is None:
                            raise EngineError(f"loop variable {nme} needs a kind (loops['{ordinal}:kinds'])")
                        s.env[nme] = w.fresh(k, f"{nme}@{label}")
            for key in written:
                if key[0] == "ghost":
                    s.bump(key[1])
                else:
                    self.havoc_field(s, self.key_name(key))
            # fields only initialised on objects allocated inside the loop: unchanged on every older object
            for key in inited:
                if key in written:
                    continue
                old = s.heap.get(key)
                if old is None:
                    continue
                new = z3.Const(w.fresh_name(f"H:{self.key_name(key)}"), old.sort())
                r = z3.Const(w.fresh_name("r"), w.Ref)
                s.assume(z3.ForAll([r], z3.Implies(w.born(r) < base_state.clock, z3.Select(new, r) == z3.Select(old, r)),
                                   patterns=[z3.Select(new, r)]))
                s.heap[key] = new
            for key, val in list(s.cattr.items()):
                pass
            s.path += tag
            return s
        i = z3.Int(w.fresh_name(f"i@{label}"))
        s_it = havocked(st, f"L{ordinal}")
        n, elem, facts = self.loop_elem(s_it, it, i)
        s_it.assume(z3.And(0 <= i, i < n))
        for f in facts:
            s_it.assume(f)
        for k, inv in enumerate(invs):
            s_it.assume(self.eval_spec(inv, s_it, self.inv_env(s_it, it, i)))
        self.bind_target(s_it, stmt.target, elem)
        results = []
        if self.feasible(s_it):
            for s2, oc in self.exec_block(stmt.body, s_it):
                if oc is None or oc[0] == "continue":
                    for g, (gk, ginit, gupd) in ghosts.items():
                        s2.env[g] = self.coerce(self.eval_spec_value(gupd, s2, self.inv_env(s2, it, i)), gk)
                    for k, inv in enumerate(invs):
                        t = self.eval_spec(inv, s2, self.inv_env(s2, it, i + 1))
                        self.oblige("inv-step", s2, t, f"loop {ordinal} invariant {k} preserved: {inv}", name=f"{label}.inv{k}.step")
                elif oc[0] == "break":
                    results.append((s2, None))
                else:
                    results.append((s2, oc))
        # 4. after the loop
        s_ex = havocked(st, f"X{ordinal}")
        n_ex, _, _ = self.loop_elem(s_ex, it, z3.IntVal(0))
        for k, inv in enumerate(invs):
            s_ex.assume(self.eval_spec(inv, s_ex, self.inv_env(s_ex, it, n_ex)))
        results.append((s_ex, None))
        return results

    def target_names(self, tgt):
        return {n.id for n in ast.walk(tgt) if isinstance(n, ast.Name)}

    def discover_writes(self, stmt, st, it):
        """run the body once on a throw-away state to learn which fields / ghost keys it may write"""
        if self.discovery:
            return set(), set()
        saved = (self.obligations, self.pending, self.loop_ordinal, dict(self.call_ordinal), self.discovered,
                 set(self.trusted_used), list(self.notes), set(self.inlined))
        saved_init = self.discovered_init
        self.discovery, self.discovered, self.discovered_init = True, set(), set()
        self.obligations, self.pending = [], []
        try:
            s = st.fork()
            i = z3.Int(self.w.fresh_name("i@disc"))
            n, elem, facts = self.loop_elem(s, it, i)
            s.assume(z3.And(0 <= i, i < n))
            self.bind_target(s, stmt.target, elem)
            # variables assigned in the loop may not exist yet: best effort
            try:
                self.exec_block(stmt.body, s)
            except EngineError:
                # a second attempt is made in the real pass, which reports the error
                pass
            found = set(self.discovered)
            found_init = set(self.discovered_init)
        finally:
            self.discovery = False
            self.discovered_init = saved_init
            (self.obligations, self.pending, self.loop_ordinal, self.call_ordinal, self.discovered,
             self.trusted_used, self.notes, self.inlined) = saved
        return found, found_init

    def s_While(self, stmt, st):
        raise EngineError("while loop")

    def s_FunctionDef(self, stmt, st):
        raise EngineError("nested function definition")
