#!/venv/bin/python
"""Mechanical extraction of the real code from /repo's current working tree.

Runs under /venv/bin/python (the interpreter that has the repository installed in
editable mode, so `import qce_circuit` resolves to /repo/src).  Dumps, for EVERY class and
module-level function defined in a qce_circuit.* module:

  * the source text of every function / property getter+setter / static / class method
    (inspect.getsource on the live object => it is the text CPython runs),
  * file and first line, the decorator names,
  * class facts: MRO, dataclass parameters, dataclass fields with (init, compare,
    default kind, default repr), Enum members, abstract method names,
  * selected data tables are dumped by the property-specific modules, not here.

Nothing here is written by hand: the prover sees only what this script writes.
Output: JSON on the path given as argv[1].
"""
import sys, os, json, inspect, importlib, pkgutil, dataclasses, enum, textwrap, hashlib, ast

os.environ.setdefault("MPLBACKEND", "Agg")


def qual(obj):
    return f"{obj.__module__}.{obj.__qualname__}"


def src_of(fn):
    try:
        lines, lineno = inspect.getsourcelines(fn)
    except (OSError, TypeError):
        return None
    text = textwrap.dedent("".join(lines))
    return {"source": text, "file": inspect.getsourcefile(fn), "lineno": lineno,
            "sha": hashlib.sha256(text.encode()).hexdigest()[:16]}


def decorators_of(text):
    try:
        node = ast.parse(text).body[0]
    except Exception:
        return []
    out = []
    for d in getattr(node, "decorator_list", []):
        out.append(ast.unparse(d))
    return out


def unwrap(fn):
    """Peel functools wrappers (lru_cache, contextmanager) to the python function."""
    seen = 0
    while hasattr(fn, "__wrapped__") and seen < 5:
        fn = fn.__wrapped__
        seen += 1
    return fn


def dump_callable(kind, fn):
    fn = unwrap(fn)
    info = src_of(fn)
    if info is None:
        return None
    info["kind"] = kind
    info["decorators"] = decorators_of(info["source"])
    return info


def dump_class(cls):
    out = {"name": cls.__name__, "module": cls.__module__, "qualname": qual(cls),
           "mro": [qual(c) for c in cls.__mro__ if c is not object],
           "is_abstract": bool(getattr(cls, "__abstractmethods__", None)),
           "abstract_methods": sorted(getattr(cls, "__abstractmethods__", []) or []),
           "methods": {}, "is_enum": False, "is_dataclass": False}
    info = src_of(cls)
    if info:
        out["file"], out["lineno"] = info["file"], info["lineno"]
        out["source"] = info["source"]
    if isinstance(cls, type) and issubclass(cls, enum.Enum):
        out["is_enum"] = True
        out["members"] = [{"name": m.name, "value": repr(m.value)} for m in cls]
    if dataclasses.is_dataclass(cls):
        out["is_dataclass"] = True
        p = cls.__dataclass_params__
        out["dataclass_params"] = {"eq": p.eq, "frozen": p.frozen, "unsafe_hash": p.unsafe_hash, "order": p.order}
        flds = []
        for f in dataclasses.fields(cls):
            if f.default is not dataclasses.MISSING:
                dk, dr = "default", repr(f.default)
            elif f.default_factory is not dataclasses.MISSING:
                dk, dr = "factory", getattr(f.default_factory, "__qualname__", repr(f.default_factory))
            else:
                dk, dr = "none", ""
            flds.append({"name": f.name, "init": f.init, "compare": f.compare, "hash": f.hash,
                         "default_kind": dk, "default_repr": dr,
                         "type": f.type if isinstance(f.type, str) else getattr(f.type, "__name__", repr(f.type))})
        out["fields"] = flds
        # which __eq__/__hash__ is in force, and where it is defined
    for special in ("__eq__", "__hash__"):
        for c in cls.__mro__:
            if special in c.__dict__:
                out["defines_" + special.strip("_")] = qual(c) if c is not object else "object"
                out["explicit_" + special.strip("_")] = (
                    c.__dict__[special] is not None and src_of(c.__dict__[special]) is not None
                    and "def " + special in (src_of(c.__dict__[special]) or {}).get("source", ""))
                out["none_" + special.strip("_")] = c.__dict__[special] is None
                break
    for name, member in cls.__dict__.items():
        rec = None
        if isinstance(member, property):
            rec = dump_callable("property", member.fget) if member.fget else None
            if rec is not None and member.fset is not None:
                s = dump_callable("setter", member.fset)
                if s:
                    rec["setter"] = s
        elif isinstance(member, staticmethod):
            rec = dump_callable("staticmethod", member.__func__)
        elif isinstance(member, classmethod):
            rec = dump_callable("classmethod", member.__func__)
        elif inspect.isfunction(member) or hasattr(member, "__wrapped__"):
            rec = dump_callable("method", member)
        if rec is not None:
            out["methods"][name] = rec
    return out


def main():
    outpath = sys.argv[1]
    import qce_circuit
    root = os.path.dirname(qce_circuit.__file__)
    modules = {}
    errors = {}
    for m in pkgutil.walk_packages([root], prefix="qce_circuit."):
        try:
            modules[m.name] = importlib.import_module(m.name)
        except Exception as e:  # optional dependencies (openql) may be missing
            errors[m.name] = f"{type(e).__name__}: {e}"
    classes, functions = {}, {}
    for mname, mod in modules.items():
        for name, obj in vars(mod).items():
            if getattr(obj, "__module__", None) != mname:
                continue
            if inspect.isclass(obj):
                classes[qual(obj)] = dump_class(obj)
            elif inspect.isfunction(obj) or (callable(obj) and hasattr(obj, "__wrapped__")):
                rec = dump_callable("function", obj)
                if rec:
                    functions[f"{mname}.{name}"] = rec
    # subclass closure (within the package)
    for q, c in classes.items():
        c["subclasses"] = sorted(q2 for q2, c2 in classes.items() if q in c2["mro"] and q2 != q)
    out = {"repo_src_root": root, "classes": classes, "functions": functions, "import_errors": errors,
           "python": sys.version}
    os.makedirs(os.path.dirname(os.path.abspath(outpath)), exist_ok=True)
    with open(outpath, "w") as fh:
        json.dump(out, fh)
    print(f"extract: {len(classes)} classes, {len(functions)} functions, {len(errors)} import errors -> {outpath}")


if __name__ == "__main__":
    main()
