#!/usr/bin/env python3
"""Mutation self-test of the engine + contracts (guards against vacuous / unsound proofs).

selftest/mutations.json: [{"prop","function","find","replace","expect"(optional list of clause-id substrings)}]
Each mutation is applied to the extracted SOURCE TEXT in memory (no copy of /repo on disk); the function is
re-verified and at least one obligation must be REFUTED (or, if "expect" is given, one whose id contains it).
selftest/benign.json: same format; every obligation must stay proved.
usage: python3-vt pyvc/selftest.py [PROP] [--extract path]
"""
import sys, os, json, argparse, time
ROOT = os.path.dirname(os.path.dirname(os.path.abspath(__file__)))
sys.path.insert(0, ROOT)
from concurrent.futures import ProcessPoolExecutor


def run_one(args):
    m, xpath, benign = args
    from pyvc import prove, verify
    prove.EXTRACT_PATH = xpath
    w = prove.world()
    try:
        rec, dq, q = verify.locate(w, m["function"])
    except Exception as e:
        return {"m": m, "ok": False, "why": f"locate failed: {e}"}
    src = rec["source"]
    if m["find"] not in src:
        return {"m": m, "ok": False, "why": "pattern not found in the real source (mutation catalogue is stale)"}
    new = src.replace(m["find"], m["replace"], 1)
    old_src, old_sha = rec["source"], rec["sha"]
    rec["source"], rec["sha"] = new, "mut:" + str(abs(hash(new)))
    mark = len(w.axioms)
    try:
        r = verify.verify_function(w, m["function"], m["prop"], 30000, refine_of=m.get("refine_of"))
    finally:
        rec["source"], rec["sha"] = old_src, old_sha
        del w.axioms[mark:]
    refuted = [o["id"] for o in r.obligations if o["verdict"] == "refuted" and o["kind"] not in ("cover", "canary")]
    if not benign and not refuted and r.status == "ok" and any("witness" in o for o in r.obligations):
        conf = native_replay(m, rec, r)
        if conf:
            return {"m": m, "ok": True, "why": f"solver unknown; candidate input CONFIRMED on the mutated real code: {conf[:3]}"}
    notproved = [o["id"] for o in r.obligations if o["verdict"] != "proved"]
    if benign:
        ok = r.status == "ok" and not notproved
        return {"m": m, "ok": ok, "why": f"status={r.status} {r.reason[:200]} not proved: {notproved[:5]}"}
    if r.status != "ok":
        if m.get("expect_out_of_reach") and r.status == "out_of_reach":
            return {"m": m, "ok": True, "why": f"leaves the supported subset as expected (tier B decides): {r.reason[:100]}"}
        return {"m": m, "ok": False, "why": f"status={r.status}: {r.reason[:300]}"}
    if m.get("bounded") and not refuted:
        new = bounded_on_mutant(m, rec)
        return {"m": m, "ok": bool(new), "why": f"prover undecided (graph-shaped inputs are not replayable); bounded stand-in on the mutated copy reports NEW keys: {new[:3]}"}
    exp = m.get("expect")
    ok = bool(refuted) and (not exp or any(any(e in i for e in exp) for i in refuted))
    return {"m": m, "ok": ok, "why": f"refuted: {sorted(set(refuted))[:6]}"}


def mutated_copy(m, rec):
    import tempfile, shutil
    tmp = tempfile.mkdtemp(prefix="pyvc_selftest_")
    path = rec["file"]
    idx = path.rfind("/qce_circuit/")
    shutil.copytree(os.path.join(path[:idx], "qce_circuit"), os.path.join(tmp, "qce_circuit"), ignore=shutil.ignore_patterns("__pycache__"))
    target = os.path.join(tmp, path[idx + 1:])
    lines = open(target).read().split("\n")
    n = len(rec["source"].rstrip("\n").split("\n"))
    block = lines[rec["lineno"] - 1: rec["lineno"] - 1 + n]
    indent = len(block[0]) - len(block[0].lstrip())
    ded = "\n".join(l[indent:] if l.strip() else l for l in block)
    if m["find"] not in ded:
        shutil.rmtree(tmp, ignore_errors=True)
        return None
    new = ded.replace(m["find"], m["replace"], 1)
    lines[rec["lineno"] - 1: rec["lineno"] - 1 + n] = [(" " * indent + l) if l.strip() else l for l in new.split("\n")]
    open(target, "w").write("\n".join(lines))
    return tmp


def bounded_on_mutant(m, rec):
    """run the property's bounded stand-in against a scratch copy of the package with the mutation applied"""
    import shutil, subprocess
    tmp = mutated_copy(m, rec)
    if tmp is None:
        return []
    try:
        out = os.path.join(tmp, "b.json")
        env = dict(os.environ)
        env["PYTHONPATH"] = tmp + ":" + ROOT
        env["MPLBACKEND"] = "Agg"
        mod = os.path.join(ROOT, "bounded", (m.get("bounded_module") or m["prop"]).lower() + ".py")
        subprocess.run(["/venv/bin/python", mod, "--tier", "quick", "--seed", "0", "--out", out], capture_output=True, text=True,
                       env=env, timeout=1200, cwd=ROOT)
        if not os.path.exists(out):
            return []
        known = {f["key"] for f in json.load(open(os.path.join(ROOT, "known_findings.json")))["findings"]}
        return [f["key"] for f in json.load(open(out))["failures"] if f["key"] not in known]
    finally:
        shutil.rmtree(tmp, ignore_errors=True)


def native_replay(m, rec, r):
    """apply the mutation to a scratch copy of the package and replay the candidate inputs natively"""
    import tempfile, shutil, subprocess, textwrap
    tmp = tempfile.mkdtemp(prefix="pyvc_selftest_")
    try:
        src_root = os.path.dirname(os.path.dirname(rec["file"])) if False else None
        # locate the package root (…/src) from the file path
        path = rec["file"]
        idx = path.rfind("/qce_circuit/")
        pkg_parent = path[:idx]
        shutil.copytree(os.path.join(pkg_parent, "qce_circuit"), os.path.join(tmp, "qce_circuit"),
                        ignore=shutil.ignore_patterns("__pycache__"))
        target = os.path.join(tmp, path[idx + 1:])
        lines = open(target).read().split("\n")
        n = len(rec["source"].rstrip("\n").split("\n"))
        block = lines[rec["lineno"] - 1: rec["lineno"] - 1 + n]
        indent = len(block[0]) - len(block[0].lstrip())
        ded = "\n".join(l[indent:] if l.strip() else l for l in block)
        if m["find"] not in ded:
            return []
        new = ded.replace(m["find"], m["replace"], 1)
        newb = [(" " * indent + l) if l.strip() else l for l in new.split("\n")]
        lines[rec["lineno"] - 1: rec["lineno"] - 1 + n] = newb
        open(target, "w").write("\n".join(lines))
        obl = os.path.join(tmp, "obl.json")
        d = dict(r.__dict__)
        json.dump({"results": [d]}, open(obl, "w"), default=str)
        out = os.path.join(tmp, "rep.json")
        env = dict(os.environ)
        env["PYTHONPATH"] = tmp + ":" + ROOT
        env["MPLBACKEND"] = "Agg"
        p = subprocess.run(["/venv/bin/python", os.path.join(ROOT, "pyvc", "replay.py"), m["prop"], obl, out],
                           capture_output=True, text=True, env=env, timeout=300)
        if not os.path.exists(out):
            return []
        rep = json.load(open(out))
        return [f"{x['function']}:{x['failed']}" for x in rep["replays"] if x["status"] == "confirmed"]
    finally:
        shutil.rmtree(tmp, ignore_errors=True)


def main():
    ap = argparse.ArgumentParser()
    ap.add_argument("prop", nargs="?")
    ap.add_argument("--extract", default=os.path.join(ROOT, "build", "extract.json"))
    ap.add_argument("--only", default=None, help="substring of the function name")
    ap.add_argument("--prover-only", action="store_true", help="do not fall back to the bounded stand-in (diagnostic)")
    a = ap.parse_args()
    jobs = []
    for fname, benign in (("mutations.json", False), ("benign.json", True)):
        p = os.path.join(ROOT, "selftest", fname)
        if os.path.exists(p):
            for m in json.load(open(p)):
                if (a.prop is None or m["prop"] == a.prop) and (a.only is None or a.only in m["function"]):
                    if a.prover_only:
                        m.pop("bounded", None)
                    jobs.append((m, a.extract, benign))
    t0 = time.time()
    with ProcessPoolExecutor(max_workers=16, max_tasks_per_child=1) as ex:
        res = list(ex.map(run_one, jobs))
    bad = 0
    for (m, _, benign), r in zip(jobs, res):
        tag = "benign " if benign else "mutant "
        print(("ok   " if r["ok"] else "FAIL ") + tag + f"{m['prop']} {m['function']}: {m['find'][:50]!r} -> {m['replace'][:50]!r} | {r['why']}")
        bad += 0 if r["ok"] else 1
    print(f"selftest: {len(jobs)} cases, {bad} failures, {round(time.time()-t0,1)}s")
    out = {"cases": len(jobs), "failures": bad}
    json.dump(out, open(os.path.join(ROOT, "build", f"selftest.{a.prop or 'all'}.json"), "w"))
    sys.exit(1 if bad else 0)


if __name__ == "__main__":
    main()
