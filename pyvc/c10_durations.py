#!/usr/bin/env python3
"""Deductive part of C10: for each REAL relation graph (dumped by bounded/c10_graphs.py) prove with z3 that no two operations of
non-zero length sharing a qubit channel overlap, and none overlaps a Barrier on one of its qubits, for ALL positive values of
the four global durations (readout, microwave, flux, reset).  The schedule terms are built from the relation equations that are
the proved post-conditions of C01 (get_start_time, latest-of-group) and C04 (composite duration = span), so the deduction is
about the code that runs; unbounded in the configuration dimension, bounded in the structure dimension (stated).
usage: c10_durations.py <graphs.json> <out.json> [timeout_s]
"""
import sys, json, time
from concurrent.futures import ProcessPoolExecutor
import z3

KEYS = ["READOUT", "MICROWAVE", "FLUX", "RESET"]


def zmax(a, b):
    return z3.If(a >= b, a, b)


def zmin(a, b):
    return z3.If(a <= b, a, b)


def prove_one(args):
    g, timeout_s = args
    t0 = time.time()
    D = {k: z3.Real(k) for k in KEYS}
    s = z3.Solver()
    s.set("timeout", int(timeout_s * 1000))
    for v in D.values():
        s.add(v > 0)
    nodes = g["nodes"]
    n = len(nodes)
    S = [None] * n
    L = [None] * n
    for i in g["order"]:
        nd = nodes[i]
        rule = nd["rule"]
        if rule[0] == "global":
            L[i] = D[rule[1]]
        elif rule[0] == "fixed":
            L[i] = z3.RealVal(str(rule[1]))
        elif rule[0] == "decoupling":
            half = (D["READOUT"] - D["MICROWAVE"]) / 2
            L[i] = z3.If(half > 0, half, z3.RealVal(0))
        elif rule[0] == "composite":
            mem = nd["members"]
            if not mem:
                L[i] = z3.RealVal(0)
            else:
                lo = S[mem[0]]
                hi = S[mem[0]] + L[mem[0]]
                for j in mem[1:]:
                    lo = zmin(lo, S[j])
                    hi = zmax(hi, S[j] + L[j])
                # abbreviate (keeps the terms small)
                v = z3.Real(f"len_{i}")
                s.add(v == hi - lo)
                L[i] = v
        else:
            return {"id": gid(g), "verdict": "skipped", "why": f"duration rule {rule}"}
        refs = nd["refs"]
        if not refs:
            st = z3.RealVal(0)
        else:
            if nd["multi"]:
                end = S[refs[0]] + L[refs[0]]
                for j in refs[1:]:
                    end = zmax(end, S[j] + L[j])
                ref_start = None          # only FOLLOWED_BY multi-links exist (extend)
                ref_end = end
            else:
                ref_start, ref_end = S[refs[0]], S[refs[0]] + L[refs[0]]
            if nd["rtype"] == "FOLLOWED_BY":
                st = ref_end
            elif nd["rtype"] == "JOINED_START":
                if ref_start is None:
                    return {"id": gid(g), "verdict": "skipped", "why": "multi-link JOINED_START"}
                st = ref_start
            else:
                st = ref_end - L[i]
        v = z3.Real(f"start_{i}")
        s.add(v == st)
        S[i] = v
    # overlap query: one disjunction over all channel-sharing pairs
    pairs = []
    for q, occ in g["occupation"].items():
        for a in range(len(occ)):
            ia, ca, ba = occ[a]
            for b in range(a + 1, len(occ)):
                ib, cb, bb = occ[b]
                if ia == ib:
                    continue
                share = (ca == cb) or ca == "ALL" or cb == "ALL"
                if not share:
                    continue
                both_pos = z3.And(L[ia] > 0, L[ib] > 0)
                inter = z3.And(S[ia] < S[ib] + L[ib], S[ib] < S[ia] + L[ia])
                if ba or bb:
                    # clause 2: nothing overlaps a barrier (the barrier has positive length; the other operation too)
                    pairs.append((ia, ib, int(q), z3.And(both_pos, inter)))
                else:
                    pairs.append((ia, ib, int(q), z3.And(both_pos, inter)))
    if not pairs:
        return {"id": gid(g), "verdict": "proved", "pairs": 0, "seconds": round(time.time() - t0, 2), "trivial": True}
    s.add(z3.Or([p[3] for p in pairs]))
    r = s.check()
    out = {"id": gid(g), "pairs": len(pairs), "ops": n, "seconds": round(time.time() - t0, 2), "flag": g["flag"], "ctor": g["case"]["ctor"], "phase": g["phase"]}
    if r == z3.unsat:
        out["verdict"] = "proved"
    elif r == z3.sat:
        m = s.model()
        out["verdict"] = "refuted"
        out["durations"] = {k: str(m.eval(D[k], model_completion=True)) for k in KEYS}
        for ia, ib, q, f in pairs:
            if z3.is_true(m.eval(f, model_completion=True)):
                out["pair"] = {"qubit": q, "a": [ia, nodes[ia]["cls"], str(m.eval(S[ia])), str(m.eval(S[ia] + L[ia]))],
                               "b": [ib, nodes[ib]["cls"], str(m.eval(S[ib])), str(m.eval(S[ib] + L[ib]))]}
                break
        out["case"] = g["case"]
    else:
        out["verdict"] = "unknown"
    return out


def gid(g):
    c = g["case"]
    d = c.get("desc", {})
    return f"{c['ctor']}|{d.get('kind', c.get('type'))}|{json.dumps({k: v for k, v in c.items() if k not in ('data', 'anc')}, sort_keys=True)}|{g['phase']}"


def structure_key(g):
    """two dumps with the same nodes (duration rule, relation, references, membership) and the same channel occupation are the same
    proof obligation (constructor inputs that differ only in states / names give isomorphic graphs)"""
    import hashlib
    nodes = [[nd.get("rule"), nd.get("refs"), nd.get("multi"), nd.get("rtype"), nd.get("members")] for nd in g["nodes"]]
    return hashlib.sha1(json.dumps([nodes, g["order"], g["occupation"]], sort_keys=True, default=str).encode()).hexdigest()


def main():
    gpath, opath = sys.argv[1:3]
    timeout_s = float(sys.argv[3]) if len(sys.argv) > 3 else 30
    budget_s = float(sys.argv[4]) if len(sys.argv) > 4 else 240
    graphs = json.load(open(gpath))["graphs"]
    t0 = time.time()
    # one obligation per distinct structure, smallest first; a global budget bounds the run: what is not reached is reported
    # as not attempted (neither proved nor refuted)
    reps, mult = {}, {}
    for g in graphs:
        k = structure_key(g)
        mult[k] = mult.get(k, 0) + 1
        reps.setdefault(k, g)
    todo = sorted(reps.items(), key=lambda kv: len(kv[1]["nodes"]))
    res = []
    from concurrent.futures import wait, FIRST_COMPLETED
    with ProcessPoolExecutor(max_workers=16) as ex:
        pending = {}
        it = iter(todo)
        exhausted = False
        while True:
            while not exhausted and len(pending) < 32 and time.time() - t0 < budget_s:
                try:
                    k, g = next(it)
                except StopIteration:
                    exhausted = True
                    break
                pending[ex.submit(prove_one, (g, timeout_s))] = (k, g)
            if not pending:
                break
            done, _ = wait(list(pending), return_when=FIRST_COMPLETED)
            for f in done:
                k, g = pending.pop(f)
                r = f.result()
                r["same_structure_dumps"] = mult[k]
                res.append(r)
            if time.time() - t0 >= budget_s and not pending:
                break
        for k, g in it:
            res.append({"id": gid(g), "verdict": "not_attempted", "why": f"global budget of {budget_s:.0f} s used up", "ops": len(g["nodes"]),
                        "same_structure_dumps": mult[k]})
    json.dump({"results": res, "wall_s": round(time.time() - t0, 2), "z3": z3.get_version_string(), "dumps": len(graphs),
               "distinct_structures": len(reps)}, open(opath, "w"), indent=0)
    import collections
    print("c10_durations:", dict(collections.Counter(r["verdict"] for r in res)), "dumps", len(graphs), "structures", len(reps),
          "wall", round(time.time() - t0, 1))


if __name__ == "__main__":
    main()
