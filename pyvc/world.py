"""World: extracted facts about the real code + z3 sorts/functions shared by the engine."""
import ast, json
import z3
from . import api


def SLen(t):
    return t.sort().accessor(0, 1)(t)


def SArr(t):
    return t.sort().accessor(0, 0)(t)


def SAt(t, i):
    return z3.Select(SArr(t), i)


def SMk(sort, arr, n):
    return sort.constructor(0)(arr, n)


def SAppend(t, x):
    return SMk(t.sort(), z3.Store(SArr(t), SLen(t), x), SLen(t) + 1)


class EngineError(Exception):
    """Construct outside the supported subset: the function is 'out of reach' (never a verdict)."""


class V:
    """A symbolic value: kind descriptor + z3 term (+ static class for references)."""
    __slots__ = ("kind", "t", "cls", "alias")

    def __init__(self, kind, t, cls=None, alias=None):
        self.kind, self.t, self.cls, self.alias = kind, t, cls, alias

    def __repr__(self):
        return f"V({self.kind},{self.t},{self.cls})"


class VNoneT:
    def __repr__(self):
        return "NONE"


NONE = VNoneT()


class VTuple:
    def __init__(self, items):
        self.items = list(items)


class VList:
    """List with a length known to the engine (literal); value semantics."""
    def __init__(self, items):
        self.items = list(items)


class VClass:
    def __init__(self, qual):
        self.qual = qual


class VBound:
    def __init__(self, recv, name, static_cls=None):
        self.recv, self.name, self.static_cls = recv, name, static_cls


class VBuiltin:
    def __init__(self, name):
        self.name = name


class VLambda:
    def __init__(self, node, env):
        self.node, self.env = node, env


class VRev:
    """reversed(seq)"""
    def __init__(self, seq):
        self.seq = seq


class VView:
    """a[lo:hi] of a symbolic sequence, kept as a view so that quantifiers range over indices of the base"""
    def __init__(self, base, lo, hi):
        self.base, self.lo, self.hi = base, lo, hi


class VRange:
    def __init__(self, lo, hi):
        self.lo, self.hi = lo, hi


class VEnumerate:
    def __init__(self, seq, start=0):
        self.seq = seq


class VDict:
    """Python-level dict literal with engine-known keys (value semantics)."""
    def __init__(self, items):
        self.items = list(items)  # (key value, value)


class VModule:
    def __init__(self, name):
        self.name = name


class World:
    def __init__(self, extract):
        self.x = extract
        self.classes = extract["classes"]
        self.functions = extract["functions"]
        self.short = {}
        self.alias = {}
        for q, c in self.classes.items():
            self.short.setdefault(c["name"], []).append(q)
        # classes whose short name is not unique get the alias "<package>/<Name>" (package = component after the top-level one)
        for nm, qs in list(self.short.items()):
            if len(qs) > 1:
                for q in qs:
                    parts = q.split(".")
                    alias = f"{parts[1] if len(parts) > 2 else parts[0]}/{nm}"
                    self.short.setdefault(alias, []).append(q)
                    self.alias[q] = alias
        self.Ref = z3.DeclareSort("Ref")
        self.Str = z3.DeclareSort("Str")
        self.null = z3.Const("null", self.Ref)
        self.cls_of = z3.Function("cls_of", self.Ref, z3.IntSort())
        self.born = z3.Function("born", self.Ref, z3.IntSort())
        self.class_id = {q: i + 1 for i, q in enumerate(sorted(self.classes))}
        self.enum_sorts = {}
        self.str_consts = {}
        self.ufs = {}
        self.axioms = []
        self.perm_axioms = []
        self._seq_sorts = {}
        self._ast_cache = {}
        self._class_ast = {}
        self._fresh = 0
        self.field_kind_cache = {}

    # ---------------------------------------------------------------- names
    def ensure_external(self, name):
        if name in api.EXTERNALS and name not in self.short:
            q = f"external.{name}"
            self.classes[q] = {"name": name, "module": "external", "qualname": q, "mro": [q], "is_abstract": False,
                               "abstract_methods": [], "methods": {}, "is_enum": False, "is_dataclass": False, "subclasses": []}
            self.short[name] = [q]
            self.class_id[q] = 100000 + len(self.class_id)

    def cls(self, name):
        """short or qualified class name -> qualified name"""
        if name in self.classes:
            return name
        self.ensure_external(name)
        qs = self.short.get(name)
        if not qs:
            raise EngineError(f"unknown class {name}")
        if len(qs) > 1:
            raise EngineError(f"ambiguous class name {name}: {qs}")
        return qs[0]

    def has_cls(self, name):
        self.ensure_external(name)
        return name in self.classes or len(self.short.get(name, [])) == 1

    def short_name(self, qual):
        if qual in self.alias:
            return self.alias[qual]
        return self.classes[qual]["name"] if qual in self.classes else qual.rsplit(".", 1)[-1]

    def mro(self, qual):
        return [q for q in self.classes[qual]["mro"] if q in self.classes]

    def subclasses(self, qual):
        return self.classes[qual]["subclasses"]

    def is_subclass(self, q, base):
        return base == q or base in self.classes[q]["mro"]

    def fresh_name(self, hint):
        self._fresh += 1
        return f"{hint}!{self._fresh}"

    # ---------------------------------------------------------------- sorts
    def enum_sort(self, name):
        q = self.cls(name)
        if q not in self.enum_sorts:
            c = self.classes[q]
            if not c["is_enum"]:
                raise EngineError(f"{name} is not an Enum")
            names = [m["name"] for m in c["members"]]
            sort, consts = z3.EnumSort(c["name"], names)
            self.enum_sorts[q] = (sort, dict(zip(names, consts)))
        return self.enum_sorts[q]

    def sort_of(self, kind):
        if kind == "int":
            return z3.IntSort()
        if kind == "real":
            return z3.RealSort()
        if kind == "bool":
            return z3.BoolSort()
        if kind == "str":
            return self.Str
        if isinstance(kind, tuple):
            if kind[0] == "ref":
                return self.Ref
            if kind[0] == "opt" and kind[1] == "int":
                return self.optint_sort()
            if kind[0] == "opt":
                return self.sort_of(kind[1])
            if kind[0] == "enum":
                return self.enum_sort(kind[1])[0]
            if kind[0] in ("seq", "set"):
                return self.seq_sort(self.sort_of(kind[1]))
            if kind[0] == "dict":
                return self.Ref
        raise EngineError(f"no sort for kind {kind}")

    # sequences are (array, length) pairs: quantified invariants over them are decided by E-matching in
    # milliseconds, where z3's native Seq theory times out (measured; DESIGN 3.4)
    def seq_sort(self, esort):
        key = str(esort)
        if key not in self._seq_sorts:
            d = z3.Datatype(f"Seq<{key}>")
            d.declare("mk", ("arr", z3.ArraySort(z3.IntSort(), esort)), ("len", z3.IntSort()))
            self._seq_sorts[key] = d.create()
        return self._seq_sorts[key]

    def seq_default(self, esort):
        if esort == self.Ref:
            return self.null
        if esort == z3.IntSort():
            return z3.IntVal(0)
        if esort == z3.RealSort():
            return z3.RealVal(0)
        if esort == z3.BoolSort():
            return z3.BoolVal(False)
        return z3.Const(f"default:{esort}", esort)

    def seq_empty(self, esort):
        S = self.seq_sort(esort)
        return SMk(S, z3.K(z3.IntSort(), self.seq_default(esort)), z3.IntVal(0))

    def seq_concat(self, a, b):
        S = a.sort()
        name = f"concat:{S}"
        if name not in self.ufs:
            f = self.uf(name, S, S, S)
            x, y = z3.Consts("cc_x cc_y", S)
            k = z3.Int("cc_k")
            self.perm_axioms.append(z3.ForAll([x, y], SLen(f(x, y)) == SLen(x) + SLen(y), patterns=[f(x, y)]))
            self.perm_axioms.append(z3.ForAll([x, y, k], z3.Implies(z3.And(0 <= k, k < SLen(x)), SAt(f(x, y), k) == SAt(x, k)),
                                              patterns=[z3.MultiPattern(f(x, y), SAt(x, k)), SAt(f(x, y), k)]))
            self.perm_axioms.append(z3.ForAll([x, y, k], z3.Implies(z3.And(SLen(x) <= k, k < SLen(x) + SLen(y)),
                                                                    SAt(f(x, y), k) == SAt(y, k - SLen(x))),
                                              patterns=[SAt(f(x, y), k)]))
            self.perm_axioms.append(z3.ForAll([x, y, k], z3.Implies(z3.And(0 <= k, k < SLen(y)),
                                                                    SAt(f(x, y), SLen(x) + k) == SAt(y, k)),
                                              patterns=[z3.MultiPattern(f(x, y), SAt(y, k))]))
        return self.ufs[name](a, b)

    def seq_sub(self, a, lo, n):
        """a[lo:lo+n]  (caller guarantees 0 <= lo, 0 <= n, lo+n <= len(a) or clamps)"""
        S = a.sort()
        name = f"sub:{S}"
        if name not in self.ufs:
            f = self.uf(name, S, z3.IntSort(), z3.IntSort(), S)
            x = z3.Const("sb_x", S)
            l, m, k = z3.Ints("sb_l sb_m sb_k")
            self.perm_axioms.append(z3.ForAll([x, l, m], SLen(f(x, l, m)) == z3.If(m >= 0, m, 0), patterns=[f(x, l, m)]))
            self.perm_axioms.append(z3.ForAll([x, l, m, k], z3.Implies(z3.And(0 <= k, k < m), SAt(f(x, l, m), k) == SAt(x, l + k)),
                                              patterns=[SAt(f(x, l, m), k)]))
        return self.ufs[name](a, lo, n)

    def optint_sort(self):
        if "OptInt" not in self._seq_sorts:
            d = z3.Datatype("OptInt")
            d.declare("none")
            d.declare("some", ("val", z3.IntSort()))
            self._seq_sorts["OptInt"] = d.create()
        return self._seq_sorts["OptInt"]

    def base_kind(self, kind):
        while isinstance(kind, tuple) and kind[0] == "opt" and kind[1] != "int":
            kind = kind[1]
        return kind

    def wrap(self, kind, term):
        bk = self.base_kind(kind)
        if isinstance(bk, tuple) and bk[0] == "ref":
            return V(bk, term, self.cls(bk[1]) if bk[1] else None)
        if isinstance(bk, tuple) and bk[0] == "enum":
            return V(("enum", self.cls(bk[1])), term)
        return V(bk, term)

    def fresh(self, kind, hint="v"):
        return self.wrap(kind, z3.Const(self.fresh_name(hint), self.sort_of(kind)))

    def str_lit(self, s):
        if s not in self.str_consts:
            c = z3.Const(f"str:{s!r}", self.Str)
            self.str_consts[s] = c
        return V("str", self.str_consts[s])

    def global_axioms(self):
        ax = list(self.perm_axioms) + list(self.axioms)
        cs = list(self.str_consts.values())
        if len(cs) > 1:
            ax.append(z3.Distinct(*cs))
        return ax

    def uf(self, name, *sorts):
        key = name
        if key not in self.ufs:
            self.ufs[key] = z3.Function(name, *sorts)
        return self.ufs[key]

    # ---------------------------------------------------------------- class facts
    def isinstance_term(self, ref_term, qual):
        # objects are instances of concrete classes only (abstract classes cannot be instantiated)
        ids = [self.class_id[q] for q in [qual] + self.subclasses(qual) if not self.classes[q].get("is_abstract")]
        if not ids:
            ids = [self.class_id[qual]]
        t = self.cls_of(ref_term)
        return z3.And(ref_term != self.null, z3.Or([t == i for i in ids]))

    def exact_class_term(self, ref_term, qual):
        return z3.And(ref_term != self.null, self.cls_of(ref_term) == self.class_id[qual])

    def find_member(self, qual, name):
        """-> (defining class qual, member record) following the MRO, or (None, None)"""
        for q in self.mro(qual):
            m = self.classes[q]["methods"].get(name)
            if m is not None:
                return q, m
        return None, None

    def overriders(self, static_qual, name, defining):
        """subclasses of static_qual that define `name` themselves (other than `defining`)"""
        out = []
        for q in self.subclasses(static_qual):
            if q != defining and name in self.classes[q]["methods"]:
                out.append(q)
        return out

    def fn_ast(self, rec):
        key = rec["sha"]
        if key not in self._ast_cache:
            self._ast_cache[key] = ast.parse(rec["source"]).body[0]
        return self._ast_cache[key]

    def class_ast(self, qual):
        if qual not in self._class_ast:
            src = self.classes[qual].get("source")
            self._class_ast[qual] = ast.parse(src).body[0] if src else None
        return self._class_ast[qual]

    def class_field_nodes(self, qual):
        """annotated assignments in the class body: name -> (annotation ast, value ast|None)"""
        node = self.class_ast(qual)
        out = {}
        if node is None:
            return out
        for st in node.body:
            if isinstance(st, ast.AnnAssign) and isinstance(st.target, ast.Name):
                out[st.target.id] = (st.annotation, st.value)
        return out

    def dataclass_fields(self, qual):
        return self.classes[qual].get("fields", []) if self.classes[qual].get("is_dataclass") else []

    def field_decl(self, qual, fname):
        """-> (owner qual, kind) of instance field `fname` for objects of static class qual, or None"""
        ck = (qual, fname)
        if ck in self.field_kind_cache:
            return self.field_kind_cache[ck]
        res = None
        mro = self.mro(qual)
        # sidecar declaration wins (most specific class first)
        owner = None
        for q in reversed(mro):  # root-most class that knows the field owns the heap array
            sn = self.short_name(q)
            if fname in api.FIELDS.get(sn, {}) or fname in self.class_field_nodes(q):
                owner = q
                break
        if owner is not None:
            kind = None
            for q in mro:
                sn = self.short_name(q)
                if fname in api.FIELDS.get(sn, {}):
                    kind = api.FIELDS[sn][fname]
                    break
            if kind is None:
                for q in mro:
                    nodes = self.class_field_nodes(q)
                    if fname in nodes:
                        kind = self.kind_from_annotation(nodes[fname][0])
                        break
            if kind is not None:
                res = (owner, kind)
        self.field_kind_cache[ck] = res
        return res

    def kind_from_annotation(self, node):
        if isinstance(node, ast.Constant) and isinstance(node.value, str):
            node = ast.parse(node.value, mode="eval").body
        if isinstance(node, ast.Name):
            n = node.id
            if n == "int":
                return "int"
            if n == "float":
                return "real"
            if n == "bool":
                return "bool"
            if n in ("str", "QID", "QName", "TRegistryKey"):
                return "str"
            if self.has_cls(n):
                q = self.cls(n)
                if self.classes[q]["is_enum"]:
                    return ("enum", n)
                return ("ref", n)
            return None
        if isinstance(node, ast.Subscript):
            base = node.value.id if isinstance(node.value, ast.Name) else None
            if base == "Optional":
                k = self.kind_from_annotation(node.slice)
                return ("opt", k) if k else None
            if base in ("List", "list", "Iterable", "Sequence", "Iterator"):
                k = self.kind_from_annotation(node.slice)
                return ("seq", k) if k else None
            if base in ("Dict", "dict") and isinstance(node.slice, ast.Tuple) and len(node.slice.elts) == 2:
                k, v = self.kind_from_annotation(node.slice.elts[0]), self.kind_from_annotation(node.slice.elts[1])
                return ("dict", k, v) if k and v else None
            if base and self.has_cls(base):
                return ("ref", base)
        return None
