"""Contract declaration API (pure data, no z3 import).

Contracts are *sidecars*: nothing in /repo is edited.  A contract is keyed by a short
qualified name ("Class.method" or "module.function"); its clauses are Python expression
strings that the prover parses with `ast` and evaluates with the same symbolic evaluator
that executes the real function bodies.
"""

INT, REAL, BOOL, STR = "int", "real", "bool", "str"


def REF(cls=None):
    return ("ref", cls)


def OPT(kind):
    """Optional[...]: for references this allows null."""
    return ("opt", kind)


def ENUM(name):
    return ("enum", name)


def SEQ(kind):
    return ("seq", kind)


def SETOF(kind):
    return ("set", kind)


def DICT(k, v):
    return ("dict", k, v)


ANY = ("ref", None)

CONTRACTS = {}      # short name -> Contract
OBSERVERS = {}      # short name -> Observer (uninterpreted pure function of versions + args)
FIELDS = {}         # short class name -> {field: kind}
LEMMAS = {}         # id -> Lemma
SPECFUNS = {}       # name -> python callable(engine, state, *values) -> value
CLASSINV = {}       # short class name -> [expr strings] assumed for every non-null REF(cls) parameter


class Contract:
    def __init__(self, name, params, returns=None, requires=(), ensures=(), pure=False, reads="*",
                 modifies=(), loops=None, raises=None, props=(), verify=True, note="", let=None,
                 observer=False, inline_calls=(), fresh_result=False, decreases=None, trusted=False,
                 allow_raise=False, ghosts=None, inst_depth=4, split=1, dispatch=None, heap_closure=False):
        self.name = name
        self.params = dict(params)
        self.returns = returns
        self.requires = list(requires)
        self.ensures = list(ensures)
        self.pure = pure
        self.reads = reads
        self.modifies = list(modifies)
        self.loops = loops or {}
        self.raises = raises or {}       # exception name -> "when" expr (over entry state)
        self.props = list(props)
        self.verify = verify             # False => assumed contract (trusted / external / checked by tier B)
        self.trusted = trusted
        self.note = note
        self.let = let or {}
        self.observer = observer         # pure and result is UF(versions, args): two calls agree
        self.inline_calls = list(inline_calls)
        self.fresh_result = fresh_result
        self.allow_raise = allow_raise
        self.heap_closure = heap_closure   # assume the heap-closure-at-entry axiom for reference fields (see DESIGN 3.3)
        self.dispatch = dispatch       # callable(args, kwargs) -> name of the contract to apply (overloaded external methods)
        self.split = split             # obligations of this function are solved by `split` processes (each re-executes the body)
        self.inst_depth = inst_depth   # how deep callee/observer ensures are instantiated inside specifications
        self.ghosts = ghosts or {}   # ghost results: name -> kind (final value of a ghost loop variable)


def contract(name, **kw):
    c = Contract(name, **kw)
    if name in CONTRACTS:
        raise ValueError(f"duplicate contract {name}")
    CONTRACTS[name] = c
    return c


def observer(name, params, returns, reads="*", ensures=(), requires=(), props=()):
    """Abstract / interface method: an uninterpreted pure function (of the versions of the fields it
    reads and its arguments) constrained by `ensures`.  Overrides get refinement obligations if a
    contract for them is registered with refines=...; the observer itself is not verified."""
    c = Contract(name, params, returns=returns, requires=requires, ensures=ensures, pure=True, reads=reads,
                 verify=False, observer=True, props=props)
    if name in CONTRACTS:
        raise ValueError(f"duplicate contract {name}")
    CONTRACTS[name] = c
    return c


EXTERNALS = set()   # names of classes of external libraries that contracts talk about (fields declared with fields(...))


def external_class(_cls, **flds):
    """a class that is not part of the repository (e.g. stim.CircuitInstruction): only the declared fields are known"""
    EXTERNALS.add(_cls)
    FIELDS.setdefault(_cls, {}).update(flds)


REFINEMENTS = []    # (implementation "Class.method", interface contract name, props)


def refines(impl, iface, props=()):
    """the override `impl` must satisfy the interface contract `iface` (with self narrowed to impl's class)"""
    REFINEMENTS.append((impl, iface, list(props)))


def fields(cls, **kw):
    FIELDS.setdefault(cls, {}).update(kw)


def classinv(cls, *exprs):
    CLASSINV.setdefault(cls, []).extend(exprs)


class Lemma:
    def __init__(self, name, fn, props, note="", inst_depth=4):
        self.name, self.fn, self.props, self.note, self.inst_depth = name, fn, list(props), note, inst_depth


def lemma(name, props, note="", inst_depth=4):
    def deco(fn):
        LEMMAS[name] = Lemma(name, fn, props, note, inst_depth)
        return fn
    return deco


def specfun(name):
    def deco(fn):
        SPECFUNS[name] = fn
        return fn
    return deco
