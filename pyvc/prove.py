#!/usr/bin/env python3
"""prove.py <property> [--tier quick|thorough] : run under python3-vt (z3).  Reads build/extract.json,
verifies every contract / lemma tagged with the property, writes build/<prop>.obligations.json."""
import sys, os, json, time, importlib, glob, argparse
from concurrent.futures import ProcessPoolExecutor

ROOT = os.path.dirname(os.path.dirname(os.path.abspath(__file__)))
sys.path.insert(0, ROOT)

_WORLD = None
EXTRACT_PATH = os.path.join(ROOT, "build", "extract.json")


def load_contracts():
    for f in sorted(glob.glob(os.path.join(ROOT, "contracts", "c*.py"))):
        importlib.import_module("contracts." + os.path.basename(f)[:-3])


def world():
    global _WORLD
    if _WORLD is None:
        from pyvc.world import World
        with open(EXTRACT_PATH) as fh:
            _WORLD = World(json.load(fh))
        load_contracts()
    return _WORLD


def job(args):
    global EXTRACT_PATH
    kind, name, prop, timeout, extra, xpath = args[:6]
    part = args[6] if len(args) > 6 else None
    EXTRACT_PATH = xpath
    from pyvc import verify
    w = world()
    mark = len(w.axioms)
    if kind == "fn":
        r = verify.verify_function(w, name, prop, timeout, refine_of=extra, part=part)
    else:
        r = verify.verify_lemma(w, name, prop, timeout)
    del w.axioms[mark:]
    return r.__dict__


def plan(prop):
    from pyvc import api
    load_contracts()
    jobs = []
    for n, c in api.CONTRACTS.items():
        if prop in c.props and c.verify:
            jobs.append(("fn", n, None))
    for n, l in api.LEMMAS.items():
        if prop in l.props:
            jobs.append(("lemma", n, None))
    for (impl, iface, props) in getattr(api, "REFINEMENTS", []):
        if prop in props:
            jobs.append(("fn", impl, iface))
    return jobs


def merge_parts(jobs, results):
    merged, by_name = [], {}
    for j, r in zip(jobs, results):
        if len(j) <= 6:
            merged.append(r)
            continue
        key = (j[1], j[4])
        if key not in by_name:
            by_name[key] = dict(r)
            by_name[key]["_obs"] = {}
            by_name[key]["parts"] = j[6][1]
            merged.append(by_name[key])
        m = by_name[key]
        if r["status"] != "ok" and m["status"] == "ok":
            m["status"], m["reason"] = r["status"], r["reason"]
        if r.get("n_generated") != m.get("n_generated") or r.get("ob_ids") != m.get("ob_ids"):
            m["status"], m["reason"] = "engine_error", "parts generated different obligation lists"
        m["seconds"] = max(m["seconds"], r["seconds"])
        for idx, o in zip(r.get("part_index", []), r["obligations"]):
            m["_obs"][idx] = o
    for m in merged:
        if "_obs" in m:
            obs = m.pop("_obs")
            m["obligations"] = [obs[i] for i in sorted(obs)]
            if m["status"] == "ok" and len(obs) != m.get("n_generated"):
                m["status"], m["reason"] = "engine_error", "missing obligations after merge"
            m.pop("part_index", None)
    return merged


def run(prop, tier, only=None, serial=False):
    timeout = 30000 if tier == "quick" else 120000
    from pyvc import api
    jobs = []
    for k, n, x in plan(prop):
        if only is not None and only not in n:
            continue
        split = getattr(api.CONTRACTS.get(x or n), "split", 1) if k == "fn" else 1
        if split > 1 and not serial:
            jobs.extend((k, n, prop, timeout, x, EXTRACT_PATH, (r, split)) for r in range(split))
        else:
            jobs.append((k, n, prop, timeout, x, EXTRACT_PATH))
    t0 = time.time()
    if serial or len(jobs) <= 1:
        results = [job(j) for j in jobs]
    else:
        with ProcessPoolExecutor(max_workers=min(16, len(jobs)), max_tasks_per_child=1) as ex:
            results = list(ex.map(job, jobs))
    results = merge_parts(jobs, results)
    for r in results:
        r.pop("ob_ids", None)
    out = {"property": prop, "tier": tier, "results": results, "wall_s": round(time.time() - t0, 2),
           "z3": __import__("z3").get_version_string()}
    with open(os.path.join(ROOT, "build", f"{prop}.obligations.json"), "w") as fh:
        json.dump(out, fh, indent=1)
    return out


def main():
    global EXTRACT_PATH
    ap = argparse.ArgumentParser()
    ap.add_argument("prop")
    ap.add_argument("--tier", default="quick")
    ap.add_argument("--only", default=None)
    ap.add_argument("--serial", action="store_true")
    ap.add_argument("--extract", default=None)
    a = ap.parse_args()
    if a.extract:
        EXTRACT_PATH = a.extract
    results = run(a.prop, a.tier, a.only, a.serial)["results"]
    for r in results:
        obs = r["obligations"]
        bad = [o for o in obs if o["verdict"] != "proved"]
        print(f"{r['name']:60s} {r['status']:12s} obligations={len(obs):3d} not-proved={len(bad):2d} {r['seconds']}s {r['reason'][:300]}")
        for o in bad:
            print("     ", o["verdict"], o["id"], "|", o["desc"][:140], "|", o.get("path"), o.get("reason", ""))


if __name__ == "__main__":
    main()
