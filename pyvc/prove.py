#!/usr/bin/env python3
"""prove.py <property> [--tier quick|thorough] : run under python3-vt (z3).  Reads build/extract.json,
verifies every contract / lemma tagged with the property, writes build/<prop>.obligations.json."""
import sys, os, json, time, importlib, glob, argparse
from concurrent.futures import ProcessPoolExecutor

ROOT = os.path.dirname(os.path.dirname(os.path.abspath(__file__)))
sys.path.insert(0, ROOT)

_WORLD = None
EXTRACT_PATH = os.path.join(ROOT, "build", "extract.json")


def load_contracts():
    for f in sorted(glob.glob(os.path.join(ROOT, "contracts", "c*.py"))):
        importlib.import_module("contracts." + os.path.basename(f)[:-3])


def world():
    global _WORLD
    if _WORLD is None:
        from pyvc.world import World
        with open(EXTRACT_PATH) as fh:
            _WORLD = World(json.load(fh))
        load_contracts()
    return _WORLD


def job(args):
    global EXTRACT_PATH
    kind, name, prop, timeout, extra, xpath = args
    EXTRACT_PATH = xpath
    from pyvc import verify
    w = world()
    mark = len(w.axioms)
    if kind == "fn":
        r = verify.verify_function(w, name, prop, timeout, refine_of=extra)
    else:
        r = verify.verify_lemma(w, name, prop, timeout)
    del w.axioms[mark:]
    return r.__dict__


def plan(prop):
    from pyvc import api
    load_contracts()
    jobs = []
    for n, c in api.CONTRACTS.items():
        if prop in c.props and c.verify:
            jobs.append(("fn", n, None))
    for n, l in api.LEMMAS.items():
        if prop in l.props:
            jobs.append(("lemma", n, None))
    for (impl, iface, props) in getattr(api, "REFINEMENTS", []):
        if prop in props:
            jobs.append(("fn", impl, iface))
    return jobs


def run(prop, tier, only=None, serial=False):
    timeout = 30000 if tier == "quick" else 120000
    jobs = [(k, n, prop, timeout, x, EXTRACT_PATH) for k, n, x in plan(prop) if only is None or only in n]
    t0 = time.time()
    if serial or len(jobs) <= 1:
        results = [job(j) for j in jobs]
    else:
        with ProcessPoolExecutor(max_workers=min(16, len(jobs)), max_tasks_per_child=1) as ex:
            results = list(ex.map(job, jobs))
    out = {"property": prop, "tier": tier, "results": results, "wall_s": round(time.time() - t0, 2),
           "z3": __import__("z3").get_version_string()}
    with open(os.path.join(ROOT, "build", f"{prop}.obligations.json"), "w") as fh:
        json.dump(out, fh, indent=1)
    return out


def main():
    global EXTRACT_PATH
    ap = argparse.ArgumentParser()
    ap.add_argument("prop")
    ap.add_argument("--tier", default="quick")
    ap.add_argument("--only", default=None)
    ap.add_argument("--serial", action="store_true")
    ap.add_argument("--extract", default=None)
    a = ap.parse_args()
    if a.extract:
        EXTRACT_PATH = a.extract
    results = run(a.prop, a.tier, a.only, a.serial)["results"]
    for r in results:
        obs = r["obligations"]
        bad = [o for o in obs if o["verdict"] != "proved"]
        print(f"{r['name']:60s} {r['status']:12s} obligations={len(obs):3d} not-proved={len(bad):2d} {r['seconds']}s {r['reason'][:300]}")
        for o in bad:
            print("     ", o["verdict"], o["id"], "|", o["desc"][:140], "|", o.get("path"), o.get("reason", ""))


if __name__ == "__main__":
    main()
