"""Symbolic executor for the supported Python subset: real function bodies -> verification conditions.

`eval` is a generator yielding (state, value) for every normal continuation of an expression, so
inlined calls with several return paths simply fork.  Abrupt terminations inside expressions
(raise) are collected in self.pending and turned into outcomes by the statement layer.
"""
import ast
import fractions
import z3
from . import api
from .world import (SLen, SAt, SArr, SMk, SAppend, World, EngineError, V, NONE, VNoneT, VTuple, VList, VClass, VBound, VBuiltin,
                    VLambda, VRev, VRange, VEnumerate, VDict, VModule, VView)
from .state import State

MAX_INLINE_DEPTH = 12
MAX_PATHS = 4096


class Obligation:
    def __init__(self, oid, kind, pc, goal, desc, path=""):
        self.id, self.kind, self.pc, self.goal, self.desc, self.path = oid, kind, list(pc), goal, desc, path


class ExecBase:
    def __init__(self, world: World, fn_label="?"):
        self.w = world
        self.fn_label = fn_label
        self.obligations = []
        self.pending = []          # (state, ('raise', name))
        self.depth = 0
        self.discovery = False
        self.discovered = set()    # field keys written during discovery
        self.spec_mode = 0
        self.contract = None       # contract of the function under verification
        self.loop_ordinal = 0
        self.call_ordinal = {}
        self.notes = []
        self.trusted_used = set()
        self.inlined = set()
        self.feas_timeout = 2000
        self.npaths = 0
        self.cur_cls = None        # class of the function body being executed (for super())
        self.spec_inst_depth = 0
        self.max_inst_depth = 4
        self.lean_specs = False
        self.let_env = {}
        self.loop_ids = {}
        self.cur_line, self.stmt_counters, self.inline_stack = 0, {}, []
        self.discovered_init = set()

    # ------------------------------------------------------------------ utilities
    def oblige(self, kind, st, goal, desc, name=None):
        if self.discovery:
            return
        if kind == "safe" and self.spec_mode:
            return   # partial operations inside specifications are unspecified, not obligations
        oid = f"{self.fn_label}:{name or kind}"
        self.obligations.append(Obligation(oid, kind, st.pc, goal, desc, st.path))

    def feasible(self, st, extra=None):
        """path feasibility (pruning only: `unknown` keeps the path, which is always sound)"""
        from .verify import has_quantifier
        # 1. quantifier-free part: cheap, and unsat here is unsat for the whole path condition
        s = z3.Solver()
        s.set("timeout", self.feas_timeout)
        qf = [p for p in st.pc if not has_quantifier(p)]
        for p in qf:
            s.add(p)
        if extra is not None:
            s.add(extra)
        cs = list(self.w.str_consts.values())
        if len(cs) > 1:
            s.add(z3.Distinct(*cs))
        r = s.check()
        if r == z3.unsat:
            return False
        if len(qf) == len(st.pc):
            return True
        # 2. full path condition with a short budget
        s = z3.Solver()
        s.set("timeout", 400)
        for a in self.w.global_axioms():
            s.add(a)
        for p in st.pc:
            s.add(p)
        if extra is not None:
            s.add(extra)
        return s.check() != z3.unsat

    def real_val(self, f):
        fr = fractions.Fraction(repr(f)) if not isinstance(f, int) else fractions.Fraction(f)
        return z3.RealVal(f"{fr.numerator}/{fr.denominator}")

    OPTINT = ("opt", "int")

    def is_optint(self, v):
        return isinstance(v, V) and v.kind == ("opt", "int")

    def optint_val(self, v):
        S = self.w.optint_sort()
        return V("int", S.val(v.t))

    def optint_is_none(self, v):
        S = self.w.optint_sort()
        return S.is_none(v.t)

    def num_coerce(self, a, b):
        """-> (ta, tb, kind) after int/real coercion"""
        if self.is_optint(a):
            a = self.optint_val(a)     # arithmetic on None raises TypeError in Python: the `safe` obligation is emitted by binop
        if self.is_optint(b):
            b = self.optint_val(b)
        if a.kind == "bool":
            a = V("int", z3.If(a.t, 1, 0))
        if b.kind == "bool":
            b = V("int", z3.If(b.t, 1, 0))
        if a.kind == "int" and b.kind == "int":
            return a.t, b.t, "int"
        if a.kind in ("int", "real") and b.kind in ("int", "real"):
            ta = z3.ToReal(a.t) if a.kind == "int" else a.t
            tb = z3.ToReal(b.t) if b.kind == "int" else b.t
            return ta, tb, "real"
        raise EngineError(f"arithmetic on kinds {a.kind}, {b.kind}")

    def to_seq(self, v, elem_kind=None):
        """VList -> symbolic sequence value"""
        if isinstance(v, V) and isinstance(v.kind, tuple) and v.kind[0] in ("seq", "set"):
            return v
        if isinstance(v, VView):
            return V(v.base.kind, self.w.seq_sub(v.base.t, v.lo, v.hi - v.lo))
        if isinstance(v, (VList, VTuple)):
            items = v.items
            if not items:
                if elem_kind is None:
                    raise EngineError("empty list literal of unknown element kind")
                return V(("seq", elem_kind), self.w.seq_empty(self.w.sort_of(elem_kind)))
            k = self.kind_of(items[0]) if elem_kind is None else elem_kind
            acc = self.w.seq_empty(self.w.sort_of(k))
            for i in items:
                acc = SAppend(acc, self.coerce(i, k).t)
            return V(("seq", k), acc)
        raise EngineError(f"not a sequence: {v}")

    def concat(self, a, b, ek):
        """a + b for sequences; a literal right operand becomes appends (no uninterpreted concat)"""
        sa = self.to_seq(a, ek)
        if isinstance(b, (VList, VTuple)):
            acc = sa.t
            for it in b.items:
                acc = SAppend(acc, self.coerce(it, ek).t)
            return V(("seq", ek), acc)
        sb = self.to_seq(b, ek)
        return V(("seq", ek), self.w.seq_concat(sa.t, sb.t))

    def kind_of(self, v):
        if isinstance(v, V):
            return v.kind
        if v is NONE:
            return ("ref", None)
        raise EngineError(f"no kind for {v}")

    def coerce(self, v, kind):
        kind = self.w.base_kind(kind)
        if kind == ("opt", "int"):
            S = self.w.optint_sort()
            if v is NONE:
                return V(kind, S.none)
            if isinstance(v, V) and v.kind == kind:
                return v
            if isinstance(v, V) and v.kind in ("int", "bool"):
                return V(kind, S.some(self.coerce(v, "int").t))
            raise EngineError(f"cannot coerce {v} to Optional[int]")
        if kind == "int" and self.is_optint(v):
            return self.optint_val(v)
        if v is NONE:
            if isinstance(kind, tuple) and kind[0] == "dict":
                return V(kind, self.w.null)
            if isinstance(kind, tuple) and kind[0] == "ref":
                return V(kind, self.w.null)
            raise EngineError(f"None where {kind} expected")
        if isinstance(kind, tuple) and kind[0] == "dict" and isinstance(v, V):
            return V(kind, v.t)
        if isinstance(v, (VList, VTuple)) and isinstance(kind, tuple) and kind[0] in ("seq", "set"):
            r = self.to_seq(v, kind[1])
            return V(kind, r.t)
        if isinstance(v, V):
            if v.kind == kind:
                return v
            if kind == "real" and v.kind == "int":
                return V("real", z3.ToReal(v.t))
            if kind == "int" and v.kind == "bool":
                return V("int", z3.If(v.t, 1, 0))
            if isinstance(kind, tuple) and isinstance(v.kind, tuple) and kind[0] == v.kind[0] == "ref":
                if kind[1] and v.cls and not self.w.is_subclass(v.cls, self.w.cls(kind[1])) \
                        and not self.w.is_subclass(self.w.cls(kind[1]), v.cls):
                    raise EngineError(f"static type mismatch: {self.w.short_name(v.cls)} where {kind[1]} expected")
                return v
            if isinstance(kind, tuple) and isinstance(v.kind, tuple) and kind[0] == "enum" and v.kind[0] == "enum":
                if self.w.cls(kind[1]) == self.w.cls(v.kind[1]):
                    return v
            if isinstance(kind, tuple) and isinstance(v.kind, tuple) and kind[0] in ("seq", "set") and v.kind[0] in ("seq", "set"):
                if self.w.sort_of(kind) == self.w.sort_of(v.kind):
                    return V(kind, v.t, alias=v.alias)
        raise EngineError(f"cannot coerce {v} to {kind}")

    # ------------------------------------------------------------------ dictionaries (opaque objects + has/val functions)
    # A-dict-identity: keys are compared by object identity.  CPython compares by hash and ==; the two agree whenever the
    # keys in use are pairwise distinct as dictionary keys (a precondition that the bounded stand-ins check: the recorded
    # "value-equal twin" findings of C05/C06/C07 are exactly its violations).
    def is_dict(self, v):
        return isinstance(v, V) and isinstance(v.kind, tuple) and v.kind[0] == "dict"

    def dict_fns(self, kind):
        w = self.w
        ks, vs = w.sort_of(kind[1]), w.sort_of(kind[2])
        tag = f"{ks}_{vs}"
        return (w.uf(f"dict_has:{ks}", z3.IntSort(), w.Ref, ks, z3.BoolSort()), w.uf(f"dict_val:{tag}", z3.IntSort(), w.Ref, ks, vs))

    def dict_key(self, d, k):
        if k is NONE:
            return self.w.null
        return self.coerce(k, d.kind[1]).t

    def dict_has(self, st, d, k):
        has, _ = self.dict_fns(d.kind)
        return z3.And(d.t != self.w.null, has(st.version("dict"), d.t, self.dict_key(d, k)))

    def dict_get(self, st, d, k, default):
        """d.get(k, default)"""
        _, val = self.dict_fns(d.kind)
        raw = val(st.version("dict"), d.t, self.dict_key(d, k))
        v = self.w.wrap(d.kind[2], raw)
        if default is NONE:
            if not (isinstance(v.kind, tuple) and v.kind[0] == "ref"):
                raise EngineError("dict.get with None default on non-reference values")
            dt = self.w.null
        else:
            dt = self.coerce(default, d.kind[2]).t
        return V(v.kind, z3.If(self.dict_has(st, d, k), raw, dt), v.cls)

    def dict_index(self, st, d, k):
        _, val = self.dict_fns(d.kind)
        return self.w.wrap(d.kind[2], val(st.version("dict"), d.t, self.dict_key(d, k)))

    def dict_keys(self, st, d):
        """d.keys() as a sequence (insertion order: unknown but fixed for a dictionary state): pairwise different keys, exactly the
        keys the dictionary has"""
        w = self.w
        has, _ = self.dict_fns(d.kind)
        ksort = w.sort_of(d.kind[1])
        S = w.seq_sort(ksort)
        f = w.uf(f"dict_keys:{ksort}", z3.IntSort(), w.Ref, S)
        ver = st.version("dict")
        K = f(ver, d.t)
        ikey = ("dkeys", K.get_id())
        if ikey not in st.inst:
            st.inst.add(ikey)
            a, b = z3.Ints(f"{w.fresh_name('ka')} {w.fresh_name('kb')}")
            kk = z3.Const(w.fresh_name("kk"), ksort)
            st.assume(SLen(K) >= 0)
            st.assume(z3.ForAll([a, b], z3.Implies(z3.And(0 <= a, a < b, b < SLen(K)), SAt(K, a) != SAt(K, b))))
            st.assume(z3.ForAll([a], z3.Implies(z3.And(0 <= a, a < SLen(K)), has(ver, d.t, SAt(K, a))), patterns=[SAt(K, a)]))
            st.assume(z3.ForAll([kk], z3.Implies(has(ver, d.t, kk), z3.Exists([a], z3.And(0 <= a, a < SLen(K), SAt(K, a) == kk))),
                                patterns=[has(ver, d.t, kk)]))
        return V(("seq", d.kind[1]), K)

    def materialize_dict(self, st, lit, kind):
        """a dict literal passed where a symbolic dictionary is expected: a fresh dictionary holding exactly the literal's entries"""
        d = self.empty_dict(st, kind)
        for k, v in lit.items:
            self.dict_store(st, d, k, v, local=True)
        return d

    def dict_store(self, st, d, k, v, local=False):
        """d[k] = v : the (has, val) functions of d's family change at (d, k) only; every other dictionary family is unchanged"""
        w = self.w
        has, val = self.dict_fns(d.kind)
        kt = self.dict_key(d, k)
        vt = self.coerce(v, d.kind[2]).t
        vo = st.version("dict")
        if not local and self.contract is not None and not self.discovery and "dict" not in self.contract.modifies and "*" not in self.contract.modifies:
            self.oblige("frame", st, z3.BoolVal(False), "dictionary store, outside the function's modifies", name="frame:dict")
        if self.discovery:
            self.discovered.add(("ghost", "dict"))
        st.bump("dict")
        vn = st.version("dict")
        dd = z3.Const(w.fresh_name("d"), w.Ref)
        kk = z3.Const(w.fresh_name("k"), kt.sort())
        here = z3.And(dd == d.t, kk == kt)
        st.assume(z3.ForAll([dd, kk], has(vn, dd, kk) == z3.Or(has(vo, dd, kk), here), patterns=[has(vn, dd, kk)]))
        st.assume(z3.ForAll([dd, kk], val(vn, dd, kk) == z3.If(here, vt, val(vo, dd, kk)), patterns=[val(vn, dd, kk)]))
        for name, f in list(w.ufs.items()):
            if not isinstance(name, str) or not (name.startswith("dict_has:") or name.startswith("dict_val:")):
                continue
            if f.eq(has) or f.eq(val):
                continue
            k2 = z3.Const(w.fresh_name("k"), f.domain(2))
            st.assume(z3.ForAll([dd, k2], f(vn, dd, k2) == f(vo, dd, k2), patterns=[f(vn, dd, k2)]))

    def empty_dict(self, st, kind):
        w = self.w
        d = self.allocate_raw(st, "dict")
        has, _ = self.dict_fns(kind)
        k = z3.Const(w.fresh_name("k"), w.sort_of(kind[1]))
        # empty NOW (at the current dictionary version): later stores into it create later versions
        v = st.version("dict")
        st.assume(z3.ForAll([k], z3.Not(has(v, d, k)), patterns=[has(v, d, k)]))
        return V(kind, d)

    def allocate_raw(self, st, hint):
        r = z3.Const(self.w.fresh_name(f"new_{hint}"), self.w.Ref)
        st.assume(r != self.w.null)
        st.assume(self.w.born(r) == st.clock)
        st.clock_off += 1
        return r

    def truth(self, v):
        if isinstance(v, V):
            if v.kind == "bool":
                return v.t
            if v.kind == "int":
                return v.t != 0
            if v.kind == "real":
                return v.t != 0
            if v.kind == ("opt", "int"):
                return z3.And(z3.Not(self.optint_is_none(v)), self.optint_val(v).t != 0)
            if isinstance(v.kind, tuple) and v.kind[0] in ("seq", "set"):
                return SLen(v.t) > 0
            if isinstance(v.kind, tuple) and v.kind[0] == "ref":
                return v.t != self.w.null
        if v is NONE:
            return z3.BoolVal(False)
        if isinstance(v, (VList, VTuple)):
            return z3.BoolVal(len(v.items) > 0)
        raise EngineError(f"truthiness of {v}")

    def bool_v(self, t):
        return V("bool", t)

    # ------------------------------------------------------------------ equality
    def py_is(self, a, b):
        if a is NONE and b is NONE:
            return z3.BoolVal(True)
        if a is NONE or b is NONE:
            o = b if a is NONE else a
            if isinstance(o, V) and isinstance(o.kind, tuple) and o.kind[0] in ("ref", "dict"):
                return o.t == self.w.null
            if self.is_optint(o):
                return self.optint_is_none(o)
            return z3.BoolVal(False)
        if isinstance(a, V) and isinstance(b, V):
            if a.t.sort() == b.t.sort():
                return a.t == b.t
            return z3.BoolVal(False)
        raise EngineError("identity on non-scalar values")

    def eq_values(self, st, a, b):
        """generator: (state, z3 Bool) for Python's a == b"""
        if a is NONE or b is NONE:
            yield st, self.py_is(a, b)
            return
        if isinstance(a, (VList, VTuple)) and isinstance(b, (VList, VTuple)):
            if len(a.items) != len(b.items):
                yield st, z3.BoolVal(False)
                return
            def rec(i, s, acc):
                if i == len(a.items):
                    yield s, z3.And(acc) if acc else z3.BoolVal(True)
                    return
                for s2, e in self.eq_values(s, a.items[i], b.items[i]):
                    yield from rec(i + 1, s2, acc + [e])
            yield from rec(0, st, [])
            return
        if isinstance(a, V) and isinstance(b, V) and (self.is_optint(a) or self.is_optint(b)):
            if self.is_optint(a) and self.is_optint(b):
                yield st, a.t == b.t
            else:
                o, i = (a, b) if self.is_optint(a) else (b, a)
                yield st, z3.And(z3.Not(self.optint_is_none(o)), self.optint_val(o).t == self.coerce(i, "int").t)
            return
        if isinstance(a, V) and isinstance(b, V):
            ka, kb = a.kind, b.kind
            if ka in ("int", "real", "bool") and kb in ("int", "real", "bool"):
                if ka == kb:
                    yield st, a.t == b.t
                else:
                    ta, tb, _ = self.num_coerce(a, b)
                    yield st, ta == tb
                return
            if ka == "str" and kb == "str":
                yield st, a.t == b.t
                return
            if isinstance(ka, tuple) and isinstance(kb, tuple):
                if ka[0] == "enum" and kb[0] == "enum":
                    if a.t.sort() == b.t.sort():
                        yield st, a.t == b.t
                    else:
                        yield st, z3.BoolVal(False)
                    return
                if ka[0] == "ref" and kb[0] == "ref":
                    yield from self.ref_eq(st, a, b)
                    return
                if ka[0] in ("seq", "set") and kb[0] in ("seq", "set") and a.t.sort() == b.t.sort():
                    ek = self.w.base_kind(ka[1])
                    if ek in ("int", "real", "bool", "str") or (isinstance(ek, tuple) and ek[0] == "enum"):
                        yield st, a.t == b.t
                        return
                    raise EngineError("== on sequences of references")
            # different kinds: Python compares unequal (e.g. str vs ref)
            if a.t.sort() != b.t.sort():
                yield st, z3.BoolVal(False)
                return
        raise EngineError(f"== on {a} and {b}")

    def eq_mode(self, qual):
        """how == behaves for instances whose class is exactly `qual`"""
        c = self.w.classes[qual]
        d = c.get("defines_eq", "object")
        if d == "object":
            return ("identity", None)
        if c.get("explicit_eq"):
            return ("explicit", d)
        dc = self.w.classes.get(d)
        if dc is not None and dc.get("is_dataclass") and dc.get("dataclass_params", {}).get("eq"):
            return ("fieldwise", d)
        # __eq__ found in a class dict but neither explicit source nor dataclass: unknown
        return ("unknown", d)

    def ref_eq(self, st, a, b):
        """a == b for references: dispatch on a's static class (must be final w.r.t. __eq__)."""
        if a.cls is None:
            # untyped: structural unknown -> uninterpreted, reflexive on identity
            f = self.w.uf("py_eq", self.w.Ref, self.w.Ref, z3.BoolSort())
            yield st, z3.Or(a.t == b.t, f(a.t, b.t))
            return
        modes = {}
        for q in [a.cls] + self.w.subclasses(a.cls):
            if self.w.classes[q]["is_abstract"]:
                continue
            modes.setdefault(self.eq_mode(q), []).append(q)
        if not modes:
            modes = {self.eq_mode(a.cls): [a.cls]}
        if len(modes) > 1 or list(modes)[0][0] == "unknown":
            f = self.w.uf("py_eq", self.w.Ref, self.w.Ref, z3.BoolSort())
            self.notes.append(f"== on {self.w.short_name(a.cls)} is polymorphic: uninterpreted py_eq")
            yield st, z3.Or(a.t == b.t, f(a.t, b.t))
            return
        (mode, d), qs = list(modes.items())[0]
        if mode == "identity":
            yield st, a.t == b.t
        elif mode == "explicit":
            for s2, r in self.call_method(st, a, "__eq__", [b], {}):
                yield s2, self.truth(r)
        else:  # fieldwise dataclass eq: same class and all compare fields equal
            conj = [b.t != self.w.null, self.w.cls_of(a.t) == self.w.cls_of(b.t)]
            bb = V(a.kind, b.t, a.cls)
            def rec(flds, s, acc):
                if not flds:
                    yield s, z3.And(acc)
                    return
                f = flds[0]
                fa = self.read_field(s, a, f["name"])
                fb = self.read_field(s, bb, f["name"])
                for s2, e in self.eq_values(s, fa, fb):
                    yield from rec(flds[1:], s2, acc + [e])
            # use the fields of the static class; subclasses adding compare fields would be unsound:
            for q in qs:
                if [f["name"] for f in self.w.dataclass_fields(q) if f["compare"]] != \
                   [f["name"] for f in self.w.dataclass_fields(a.cls) if f["compare"]]:
                    raise EngineError(f"== on {a.cls}: subclass {q} compares different fields")
            yield from rec([f for f in self.w.dataclass_fields(a.cls) if f["compare"]], st, conj)

    # ------------------------------------------------------------------ heap
    def read_field(self, st, obj, fname):
        decl = self.w.field_decl(obj.cls, fname) if obj.cls else None
        if decl is None:
            raise EngineError(f"unknown field {fname} on {obj.cls}")
        owner, kind = decl
        sort = self.w.sort_of(kind)
        arr = st.field_array((owner, fname), sort)
        t = z3.Select(arr, obj.t)
        v = self.w.wrap(kind, t)
        bk = self.w.base_kind(kind)
        ikey = ("fld", t.get_id())
        if ikey in st.inst:
            if isinstance(bk, tuple) and bk[0] in ("seq", "set"):
                v.alias = (obj, fname)
            return v
        st.inst.add(ikey)
        if self.spec_mode and self.lean_specs:
            # inside specifications the typing facts of heap reads are not re-assumed (they are facts of the code paths)
            if isinstance(bk, tuple) and bk[0] in ("seq", "set"):
                v.alias = (obj, fname)
                st.assume(SLen(t) >= 0)
            return v
        if isinstance(bk, tuple) and bk[0] == "ref":
            nullable = isinstance(kind, tuple) and kind[0] == "opt"
            facts = []
            if bk[1]:
                inst = self.w.isinstance_term(t, self.w.cls(bk[1]))
                facts.append(z3.Or(t == self.w.null, inst) if nullable else inst)
            elif not nullable:
                facts.append(t != self.w.null)
            facts.append(z3.Or(t == self.w.null, self.w.born(t) < st.clock))
            for f in facts:
                st.assume(f)
        if isinstance(bk, tuple) and bk[0] in ("seq", "set"):
            v.alias = (obj, fname)
            st.assume(SLen(t) >= 0)
            ek = self.w.base_kind(bk[1])
            if isinstance(ek, tuple) and ek[0] == "ref":
                done = st.ghost.setdefault("typed_seqs", set())
                if t.get_id() not in done:
                    st.ghost["typed_seqs"] = done | {t.get_id()}
                    j = z3.Int(self.w.fresh_name("t"))
                    el = SAt(t, j)
                    fact = self.w.isinstance_term(el, self.w.cls(ek[1])) if ek[1] else el != self.w.null
                    st.assume(z3.ForAll([j], z3.Implies(z3.And(0 <= j, j < SLen(t)),
                                                        z3.And(fact, self.w.born(el) < st.clock))))
        return v

    def write_field(self, st, obj, fname, val):
        decl = self.w.field_decl(obj.cls, fname) if obj.cls else None
        if decl is None:
            raise EngineError(f"unknown field {fname} on {obj.cls} (write)")
        owner, kind = decl
        sort = self.w.sort_of(kind)
        key = (owner, fname)
        v = self.coerce(val, kind)
        arr = st.field_array(key, sort)
        st.heap[key] = z3.Store(arr, obj.t, v.t)
        st.bump(self.key_name(key))
        if self.discovery:
            self.discovered.add(key)
        self.check_frame(st, key, obj)

    def key_name(self, key):
        return f"{self.w.short_name(key[0])}.{key[1]}"

    def check_frame(self, st, key, obj):
        c = self.contract
        if c is None or self.discovery:
            return
        name = self.key_name(key)
        # writes to objects allocated inside the function are always allowed
        fresh = self.w.born(obj.t) >= st.pre.clock if st.pre is not None else z3.BoolVal(False)
        allowed = name in c.modifies or "*" in c.modifies
        if not allowed:
            self.oblige("frame", st, fresh, f"write to {name} outside modifies (must be a fresh object)", name=f"frame:{name}")

    def havoc_field(self, st, key_name):
        """key_name: 'Class.field' (concrete) or ghost name"""
        st.bump(key_name)
        if "." in key_name:
            cn, fn = key_name.split(".", 1)
            if self.w.has_cls(cn):
                q = self.w.cls(cn)
                decl = self.w.field_decl(q, fn)
                if decl is not None:
                    owner, kind = decl
                    st.heap[(owner, fn)] = z3.Const(self.w.fresh_name(f"H:{cn}.{fn}"),
                                                    z3.ArraySort(self.w.Ref, self.w.sort_of(kind)))
                    if self.discovery:
                        self.discovered.add((owner, fn))
                    return
        if self.discovery:
            self.discovered.add(("ghost", key_name))

    def allocate(self, st, qual):
        r = z3.Const(self.w.fresh_name(f"new_{self.w.short_name(qual)}"), self.w.Ref)
        st.assume(r != self.w.null)
        st.assume(self.w.cls_of(r) == self.w.class_id[qual])
        st.assume(self.w.born(r) == st.clock)
        st.clock_off += 1
        return V(("ref", self.w.short_name(qual)), r, qual)
