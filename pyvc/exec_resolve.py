"""Method resolution: contract application (modular), inlining of contract-less helpers, constructors."""
import ast
import z3
from . import api
from .world import (SLen, SAt, SArr, SMk, SAppend, EngineError, V, NONE, VTuple, VList, VClass, VBound, VBuiltin, VLambda, VRev, VRange,
                    VEnumerate, VDict)
from .exec_call import ExecCall
from .exec import MAX_INLINE_DEPTH


class ExecResolve(ExecCall):

    # ------------------------------------------------------------------ resolution
    def call_method(self, st, recv, name, args, kwargs, is_property=False):
        if recv.cls is None:
            raise EngineError(f"method {name} on untyped reference")
        if name == "__class__":
            raise EngineError("__class__ call")
        dq, m = self.w.find_member(recv.cls, name)
        over = self.w.overriders(recv.cls, name, dq) if m is not None else []
        # 1. a contract at or below the defining class of the concrete member
        c = None
        for q in self.w.mro(recv.cls):
            c = api.CONTRACTS.get(f"{self.w.short_name(q)}.{name}")
            if c is not None or q == dq:
                break
        # 2. the implementation is known exactly (no override below, not abstract): inline it
        if c is None and m is not None and not over and not self.is_abstract_body(m):
            yield from self.inline(st, m, dq, recv, args, kwargs)
            return
        # 3. otherwise an interface-level contract (anywhere up the MRO)
        if c is None:
            c = self.find_contract(recv.cls, name)
        if c is not None:
            if c.dispatch is not None:
                c = api.CONTRACTS[c.dispatch(args, kwargs)]
            yield from self.apply_contract(st, c, recv, args, kwargs, m)
            return
        if m is None:
            raise EngineError(f"no member {name} on {self.w.short_name(recv.cls)}")
        if over:
            raise EngineError(f"dynamic dispatch of {self.w.short_name(recv.cls)}.{name} "
                              f"(overridden in {[self.w.short_name(o) for o in over][:4]}) needs an interface contract")
        if self.is_abstract_body(m):
            raise EngineError(f"abstract {self.w.short_name(dq)}.{name} needs an observer contract")
        yield from self.inline(st, m, dq, recv, args, kwargs)

    def is_abstract_body(self, m):
        return "abstractmethod" in " ".join(m.get("decorators", []))

    def call_static(self, st, qual, name, args, kwargs):
        dq, m = self.w.find_member(qual, name)
        if m is None:
            raise EngineError(f"no static member {name}")
        c = api.CONTRACTS.get(f"{self.w.short_name(dq)}.{name}") or api.CONTRACTS.get(f"{self.w.short_name(qual)}.{name}")
        if m["kind"] == "classmethod":
            recv = VClass(qual)
        elif m["kind"] == "staticmethod":
            recv = None
        else:
            # unbound method called through the class: first arg is self
            recv, args = args[0], args[1:]
        if c is not None:
            yield from self.apply_contract(st, c, recv, args, kwargs, m)
            return
        yield from self.inline(st, m, dq, recv, args, kwargs)

    def call_function(self, st, qual, args, kwargs):
        rec = self.w.functions[qual]
        short = qual.split(".")[-2] + "." + qual.split(".")[-1]
        c = api.CONTRACTS.get(short) or api.CONTRACTS.get(qual.split(".")[-1])
        if c is not None:
            if c.dispatch is not None:
                c = api.CONTRACTS[c.dispatch(args, kwargs)]
            yield from self.apply_contract(st, c, None, args, kwargs, rec)
            return
        yield from self.inline(st, rec, None, None, args, kwargs)

    def super_call(self, node, st):
        name = node.func.attr
        if self.cur_cls is None or "self" not in st.env:
            raise EngineError("super() outside a method")
        mro = self.w.mro(self.cur_cls)
        rest = mro[1:]
        for q in rest:
            m = self.w.classes[q]["methods"].get(name)
            if m is not None:
                for s1, args in self.eval_seq(node.args, st):
                    c = api.CONTRACTS.get(f"{self.w.short_name(q)}.{name}")
                    if c is not None:
                        yield from self.apply_contract(s1, c, s1.env["self"], args, {}, m)
                    else:
                        yield from self.inline(s1, m, q, s1.env["self"], args, {})
                return
        raise EngineError(f"super().{name} not found")

    # ------------------------------------------------------------------ argument binding
    def bind_args(self, st, fn_node, recv, args, kwargs, skip_self):
        """-> dict param -> value, using the real signature (defaults evaluated in an empty env)"""
        a = fn_node.args
        if a.vararg:
            raise EngineError("*args in callee")
        params = [p.arg for p in a.posonlyargs + a.args]
        defaults = dict(zip(params[len(params) - len(a.defaults):], a.defaults))
        for p, d in zip(a.kwonlyargs, a.kw_defaults):
            params.append(p.arg)
            if d is not None:
                defaults[p.arg] = d
        bound = {}
        pos = list(args)
        if skip_self:
            bound[params[0]] = recv
            names = params[1:]
        else:
            names = params
        if len(pos) > len(names):
            raise EngineError("too many positional arguments")
        for n, v in zip(names, pos):
            bound[n] = v
        for k, v in kwargs.items():
            if k not in names and a.kwarg:
                continue
            if k not in names or k in bound:
                raise EngineError(f"bad keyword argument {k}")
            bound[k] = v
        if a.kwarg:
            extra = {k: v for k, v in kwargs.items() if k not in names}
            if extra:
                raise EngineError("**kwargs with content in callee")
            bound[a.kwarg.arg] = VDict([])
        for n in names:
            if n not in bound:
                if n not in defaults:
                    raise EngineError(f"missing argument {n}")
                s = st.fork()
                s.env = {}
                bound[n] = self.eval1(defaults[n], s)
        return bound

    # ------------------------------------------------------------------ inlining
    def inline(self, st, rec, defining_cls, recv, args, kwargs):
        if self.depth >= MAX_INLINE_DEPTH:
            raise EngineError("inline depth exceeded (recursion without contract?)")
        fn = self.w.fn_ast(rec)
        for d in rec.get("decorators", []):
            base = d.split("(")[0]
            if base not in ("property", "staticmethod", "classmethod", "abstractmethod", "lru_cache", "dispatch") \
                    and not base.endswith(".setter"):
                raise EngineError(f"decorator {d} on inlined function")
        if any(isinstance(n, (ast.Yield, ast.YieldFrom)) for n in ast.walk(fn)):
            raise EngineError(f"generator {fn.name} needs a contract")
        skip_self = rec["kind"] in ("method", "property", "setter", "classmethod") and recv is not None
        bound = self.bind_args(st, fn, recv, args, kwargs, skip_self)
        label = f"{self.w.short_name(defining_cls)}.{fn.name}" if defining_cls else fn.name
        self.inlined.add(label)
        saved_env, saved_cls, saved_loop = st.env, self.cur_cls, self.loop_ordinal
        st.env = bound
        self.cur_cls = defining_cls
        self.depth += 1
        inner_contract_loops = None
        self.inline_stack.append(label)
        try:
            outs = self.exec_block(fn.body, st)
        finally:
            self.inline_stack.pop()
            self.depth -= 1
            self.cur_cls = saved_cls
        for s, oc in outs:
            if oc is None:
                s.env = dict(saved_env)
                yield s, NONE
            elif oc[0] == "return":
                s.env = dict(saved_env)
                yield s, oc[1]
            elif oc[0] == "raise":
                s.env = dict(saved_env)
                self.pending.append((s, oc))
            else:
                raise EngineError(f"outcome {oc[0]} escaping function")

    # ------------------------------------------------------------------ contracts at call sites
    def apply_contract(self, st, c, recv, args, kwargs, rec):
        w = self.w
        if rec is not None:
            fn = w.fn_ast(rec)
            skip_self = rec["kind"] in ("method", "property", "setter", "classmethod") and recv is not None \
                and not isinstance(recv, VClass)
            if isinstance(recv, VClass):
                bound = self.bind_args(st, fn, recv, args, kwargs, True)
                bound.pop(fn.args.args[0].arg, None)
            else:
                bound = self.bind_args(st, fn, recv, args, kwargs, skip_self)
        else:
            names = list(c.params)
            bound = {}
            vals = ([recv] if recv is not None else []) + list(args)
            for n, v in zip(names, vals):
                bound[n] = v
            bound.update(kwargs)
        env = {}
        for n, k in c.params.items():
            if n not in bound:
                raise EngineError(f"contract {c.name}: parameter {n} not bound")
            bk_ = w.base_kind(k)
            if isinstance(bound[n], VDict) and isinstance(bk_, tuple) and bk_[0] == "dict":
                bound[n] = self.materialize_dict(st, bound[n], bk_)
            env[n] = self.coerce_param(bound[n], k)
        callid = self.next_call_id(f"pre:{c.name}")
        spec_call = self.spec_mode > 0
        if not spec_call:
            # an argument bound to a parameter that the contract declares non-Optional must not be None: otherwise the callee's typing
            # assumptions would silently become assumptions about the CALLER's state (and prune the path)
            for n, k in c.params.items():
                v = env[n]
                if isinstance(k, tuple) and k[0] in ("ref", "dict") and isinstance(v, V) and v.t.sort() == w.Ref \
                        and not (n == "self" and recv is not None and v is recv):
                    if not z3.is_true(z3.simplify(v.t != w.null)):
                        self.oblige("safe", st, v.t != w.null, f"argument {n} of {c.name} is not None", name=self.next_call_id("none-arg"))
        # requires
        req_terms = []
        sreq = st
        for i, r in enumerate(c.requires):
            t = self.eval_spec(r, st, self.with_lets(st, c, env))
            req_terms.append(t)
            if not spec_call:
                self.oblige("pre", st, t, f"precondition of {c.name}: {r}", name=f"{callid}.{i}")
        if not c.verify or c.trusted:
            self.trusted_used.add(c.name)
        # exceptional exits declared by the contract: fork a raising path, continue under the negation
        raise_guard = None
        if c.raises:
            conds = []
            for exc, when in c.raises.items():
                if exc == "*":
                    continue
                t = self.eval_spec(when, st, self.with_lets(st, c, env))
                conds.append(t)
                if not spec_call:
                    s_r = st.fork()
                    s_r.assume(t)
                    s_r.path += "!"
                    if self.feasible(s_r):
                        self.pending.append((s_r, ("raise", exc)))
            if conds:
                raise_guard = z3.Not(z3.Or(conds))
                if not spec_call:
                    st.assume(raise_guard)
        # effects
        snap = st.snapshot()
        snap.pre = st.pre
        if not c.pure:
            for m in c.modifies:
                self.havoc_field(st, m)
                if self.contract is not None and not self.discovery and m not in self.contract.modifies and "*" not in self.contract.modifies:
                    self.oblige("frame", st, z3.BoolVal(False), f"call to {c.name} modifies {m}, outside the caller's modifies",
                                name=f"frame:{m}")
        # the callee may allocate: the allocation clock moves to an unknown later point
        if c.fresh_result or not c.pure:
            old_clock = st.clock
            st.clock0 = z3.Int(w.fresh_name("clock"))
            st.clock_off = 0
            st.assume(st.clock0 >= old_clock + (1 if c.fresh_result else 0))
        # result
        if c.returns is None:
            res = NONE
        elif c.observer:
            vers = [st.epoch] if c.reads == "*" else [st.version(k) for k in c.reads]
            argt = []
            for n in c.params:
                v = env[n]
                if isinstance(v, V):
                    argt.append(v.t)
                else:
                    raise EngineError(f"observer {c.name}: non-scalar argument {n}")
            sorts = [x.sort() for x in vers + argt] + [w.sort_of(c.returns)]
            f = w.uf(f"obs:{c.name}", *sorts)
            res = w.wrap(c.returns, f(*(vers + argt)))
            ikey = ("obs", c.name, res.t.get_id())
            if ikey in st.inst and (spec_call or not c.requires):
                yield st, res       # this instance's facts are already part of the path condition
                return
            st.inst.add(ikey)
        else:
            res = w.fresh(c.returns, f"ret_{c.name.split('.')[-1]}")
        if isinstance(res, V):
            for f_ in self.type_facts(st, res, c.returns, fresh=c.fresh_result, snap=snap):
                st.assume(f_)
        # ensures (nested instantiation inside specs is cut at depth 4: fewer facts, never unsound)
        if spec_call and self.spec_inst_depth >= self.max_inst_depth:
            yield st, res
            return
        # (synchronous: generators are lazy, so the depth counter must not stay raised across a yield)
        self.spec_inst_depth += 1
        try:
            self._assume_ensures(st, c, env, res, snap, spec_call,
                                 req_terms + ([raise_guard] if (spec_call and raise_guard is not None) else []))
        finally:
            self.spec_inst_depth -= 1
        yield st, res

    def _assume_ensures(self, st, c, env, res, snap, spec_call, req_terms):
        w = self.w
        env2 = dict(env)
        env2["result"] = res
        for gname, gkind in c.ghosts.items():
            env2[gname] = w.fresh(gkind, f"ghost_{gname}")
        saved_pre = st.pre
        st.pre = snap
        try:
            env2 = self.with_lets(st, c, env2)
            for e in c.ensures:
                t = self.eval_spec(e, st, env2)
                if spec_call and req_terms:
                    t = z3.Implies(z3.And(req_terms), t)
                st.assume(t)
        finally:
            st.pre = saved_pre

    def with_lets(self, st, c, env):
        if not c.let:
            return env
        env = dict(env)
        for n, e in c.let.items():
            if "result" in e and "result" not in env:
                continue
            env[n] = self.eval_spec_value(e, st, env)
        return env

    def coerce_param(self, v, kind):
        if isinstance(kind, tuple) and kind[0] == "opt" and v is NONE:
            bk = self.w.base_kind(kind)
            if isinstance(bk, tuple) and bk[0] in ("ref", "dict"):
                return V(("ref", bk[1] if bk[0] == "ref" else None), self.w.null,
                         self.w.cls(bk[1]) if bk[0] == "ref" and bk[1] else None)
        bk = self.w.base_kind(kind)
        r = self.coerce(v, bk)
        if isinstance(bk, tuple) and bk[0] == "ref" and bk[1] and isinstance(r, V):
            # static type of the parameter as declared by the contract
            r = V(r.kind, r.t, self.narrowest(r.cls, self.w.cls(bk[1])))
        return r

    def narrowest(self, a, b):
        if a is None:
            return b
        if b is None:
            return a
        if self.w.is_subclass(a, b):
            return a
        return b

    def type_facts(self, st, v, kind, fresh=False, snap=None):
        w = self.w
        bk = w.base_kind(kind)
        nullable = isinstance(kind, tuple) and kind[0] == "opt"
        out = []
        if isinstance(bk, tuple) and bk[0] == "ref":
            if bk[1]:
                inst = w.isinstance_term(v.t, w.cls(bk[1]))
                out.append(z3.Or(v.t == w.null, inst) if nullable else inst)
            elif not nullable:
                out.append(v.t != w.null)
            if fresh:
                out.append(w.born(v.t) >= snap.clock)
                out.append(w.born(v.t) < st.clock)
            else:
                out.append(z3.Or(v.t == w.null, w.born(v.t) < st.clock))
        if isinstance(bk, tuple) and bk[0] in ("seq", "set"):
            out.append(SLen(v.t) >= 0)
            ek = w.base_kind(bk[1])
            if isinstance(ek, tuple) and ek[0] == "ref":
                j = z3.Int(w.fresh_name("t"))
                rng = z3.And(0 <= j, j < SLen(v.t))
                el = SAt(v.t, j)
                facts = [w.isinstance_term(el, w.cls(ek[1]))] if ek[1] else [el != w.null]
                facts.append(w.born(el) < st.clock)
                out.append(z3.ForAll([j], z3.Implies(rng, z3.And(facts))))
        return out

    # ------------------------------------------------------------------ constructors
    def construct(self, st, qual, args, kwargs):
        w = self.w
        c = w.classes[qual]
        if c["is_enum"]:
            raise EngineError("Enum call")
        if c["is_abstract"]:
            raise EngineError(f"instantiating abstract {c['name']}")
        ctr = api.CONTRACTS.get(f"{c['name']}.__init__")
        obj = self.allocate(st, qual)
        newc = api.CONTRACTS.get(f"{c['name']}.__new__")
        if newc is not None:
            # constructor contract (assumed): the object is fresh and satisfies the contract's ensures; the body is not executed
            for s, _ in self.apply_contract(st, newc, obj, args, kwargs, None):
                yield s, obj
            return
        if c["is_dataclass"] and self.w.find_member(qual, "__init__")[1] is None:
            flds = w.dataclass_fields(qual)
            init_names = [f["name"] for f in flds if f["init"]]
            if len(args) > len(init_names):
                raise EngineError("too many constructor args")
            given = dict(zip(init_names, args))
            for k, v in kwargs.items():
                if k not in init_names or k in given:
                    raise EngineError(f"bad constructor keyword {k}")
                given[k] = v
            states = [st]
            for f in flds:
                nxt = []
                for s in states:
                    if f["name"] in given:
                        self.init_field(s, obj, f["name"], given[f["name"]])
                        nxt.append(s)
                    elif not f["init"] and f["default_kind"] == "none":
                        nxt.append(s)      # set later (e.g. in __post_init__)
                    else:
                        try:
                            outs_d = list(self.field_default(s, qual, f))
                        except EngineError as e:
                            if f["default_kind"] == "none":
                                raise
                            self.notes.append(f"default of {w.short_name(qual)}.{f['name']} not modelled ({str(e)[:60]}): field left unconstrained")
                            outs_d = [(s, None)]
                        for s2, v in outs_d:
                            if v is not None:
                                self.init_field(s2, obj, f["name"], v)
                            nxt.append(s2)
                states = nxt
            dq, post = w.find_member(qual, "__post_init__")
            for s in states:
                if post is not None:
                    for s2, _ in self.inline(s, post, dq, obj, [], {}):
                        yield s2, obj
                else:
                    yield s, obj
            return
        dq, init = w.find_member(qual, "__init__")
        if init is None:
            yield st, obj
            return
        if ctr is not None:
            for s, _ in self.apply_contract(st, ctr, obj, args, kwargs, init):
                yield s, obj
            return
        for s, _ in self.inline(st, init, dq, obj, args, kwargs):
            yield s, obj

    def init_field(self, st, obj, fname, val):
        decl = self.w.field_decl(obj.cls, fname)
        if decl is None:
            # field of a kind the engine cannot represent: left unconstrained (reads would fail)
            self.notes.append(f"constructor field {self.w.short_name(obj.cls)}.{fname} not representable: dropped")
            return
        owner, kind = decl
        v = self.coerce(val, kind)
        key = (owner, fname)
        arr = st.field_array(key, self.w.sort_of(kind))
        st.heap[key] = z3.Store(arr, obj.t, v.t)
        if self.discovery:
            self.discovered_init.add(key)
        # initialising a fresh object does not change any observer of pre-existing objects: no version bump

    def field_default(self, st, qual, f):
        """generator (state, value|None) for the default of dataclass field f (from the class source)"""
        w = self.w
        if f["default_kind"] == "none":
            raise EngineError(f"missing constructor argument {f['name']} for {w.short_name(qual)}")
        node = None
        for q in w.mro(qual):
            nodes = w.class_field_nodes(q)
            if f["name"] in nodes and nodes[f["name"]][1] is not None:
                node = nodes[f["name"]][1]
                owner = q
                break
        if node is None:
            raise EngineError(f"default of {f['name']} not found in source")
        s = st
        saved = s.env
        s.env = {}
        try:
            if isinstance(node, ast.Call) and isinstance(node.func, ast.Name) and node.func.id == "field":
                kw = {k.arg: k.value for k in node.keywords}
                if "default" in kw:
                    outs = list(self.eval(kw["default"], s))
                elif "default_factory" in kw:
                    fac = kw["default_factory"]
                    if isinstance(fac, ast.Lambda):
                        outs = list(self.eval(fac.body, s))
                    elif isinstance(fac, ast.Name) and fac.id in ("list", "dict", "set"):
                        outs = [(s, VList([]))]
                    else:
                        outs = list(self.eval(ast.Call(func=fac, args=[], keywords=[]), s))
                else:
                    raise EngineError("field() without default")
            else:
                outs = list(self.eval(node, s))
        finally:
            pass
        for s2, v in outs:
            s2.env = dict(saved)
            yield s2, v
