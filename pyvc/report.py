"""Classification of verdicts, known findings, evidence files, exit codes."""
import os, sys, json, time, re, subprocess, hashlib

VENV_PY = "/venv/bin/python"


def clause_table(results):
    table = {}
    for r in results:
        for o in r["obligations"]:
            t = table.setdefault(o["id"], {"id": o["id"], "function": r["name"], "kind": o["kind"], "desc": o["desc"],
                                           "instances": 0, "proved": 0, "refuted": [], "unknown": 0, "ms": 0, "backends": {}})
            t["instances"] += 1
            t["ms"] += o.get("ms", 0)
            b = o.get("backend", "?")
            t["backends"][b] = t["backends"].get(b, 0) + 1
            if o["verdict"] == "proved":
                t["proved"] += 1
            elif o["verdict"] == "refuted":
                t["refuted"].append(o)
            else:
                t["unknown"] += 1
    for t in table.values():
        t["verdict"] = "refuted" if t["refuted"] else ("unknown" if t["unknown"] else "proved")
    return table


def safe_name(s):
    return re.sub(r"[^A-Za-z0-9_.#-]+", "_", s)[:150]


def load_json(path, default):
    if os.path.exists(path):
        with open(path) as fh:
            return json.load(fh)
    return default


def finish(root, prop, tier, seed, pres, bres, t0, write_expected=False, rres=None):
    from pyvc import api
    cfg = load_json(os.path.join(root, "properties_cfg.json"), {}).get(prop, {})
    known = load_json(os.path.join(root, "known_findings.json"), {"findings": [], "fixed": []})
    kf = [f for f in known.get("findings", []) if f.get("property") == prop]
    expected_path = os.path.join(root, "expected_obligations", f"{prop}.json")
    expected = set(load_json(expected_path, []))
    results = pres["results"]
    table = clause_table(results)
    lines = []
    violations = []
    known_hits = []
    undecided = []
    by_ob = (rres or {}).get("by_obligation", {})
    rlist = (rres or {}).get("replays", [])
    confirmed_seen = set()

    def confirmed_replay(cid):
        for e in by_ob.get(cid, []):
            if e["status"] == "confirmed":
                return rlist[e["index"]]
        return None

    def all_hold(cid):
        es = by_ob.get(cid, [])
        return bool(es) and all(e["status"] == "holds" for e in es)

    def is_known(key):
        for f in kf:
            if f.get("key") == key or f.get("obligation") == key:
                return f
        # a failure class seen on a MODIFIED description is the class on plain descriptions when that one is recorded
        if key and ":description-" in key:
            head, tail = key.split(":description-", 1)
            rest = tail.split(")", 1)[1] if ")" in tail else ""
            return is_known(head + rest)
        return None

    # ---------------- tier P
    for cid, t in sorted(table.items()):
        if t["kind"] in ("cover", "canary"):
            if t["verdict"] != "proved":
                # vacuity guard: contradictory requires / unreachable returns -> nothing about this function counts
                undecided.append({"id": cid, "why": f"vacuity guard failed ({t['kind']}): {t['verdict']}"})
            continue
        if t["verdict"] == "proved":
            continue
        rp = confirmed_replay(cid)
        if rp is not None:
            # a concrete input on which the REAL function breaks an ensures clause of its contract
            vid = f"{prop}:{t['function']}:{rp['failed'][0]}"
            f = is_known(vid) or is_known(cid)
            if f is not None:
                known_hits.append((f, vid))
            elif vid not in confirmed_seen:
                confirmed_seen.add(vid)
                violations.append({"id": vid, "source": "prover+replay", "clause": str(rp.get("required")), "function": t["function"],
                                   "solver_obligation": cid, "solver_verdict": t["verdict"],
                                   "inputs": rp.get("inputs"), "observed": rp.get("observed"), "witness": rp.get("witness"),
                                   "model": (t["refuted"][0].get("model", {}) if t["refuted"] else {}),
                                   "no_failing_input_found": False})
            continue
        if t["verdict"] == "unknown":
            undecided.append({"id": cid, "why": "solver returned unknown / timeout; no candidate input reproduced a failure on the real code"})
            continue
        f = is_known(cid)
        if f is not None:
            known_hits.append((f, cid))
            continue
        if all_hold(cid):
            undecided.append({"id": cid, "why": "every counter-model was replayed on the real code and all ensures hold there "
                                               "(spurious model: a callee contract or the encoding is too weak)"})
            continue
        violations.append({"id": cid, "source": "prover", "clause": t["desc"], "function": t["function"],
                           "model": t["refuted"][0].get("model", {}), "path": t["refuted"][0].get("path"),
                           "witness": t["refuted"][0].get("witness"),
                           "replay_status": [e["status"] for e in by_ob.get(cid, [])],
                           "no_failing_input_found": not t["refuted"][0].get("native_confirmed")})
    vacuous_fns = set()
    for u in undecided:
        if "vacuity" in u["why"]:
            vacuous_fns.add(u["id"].rsplit(":", 1)[0])
    for r in results:
        if r["status"] != "ok":
            undecided.append({"id": f"{prop}:{r['name']}", "why": f"{r['status']}: {r['reason'][:300]}"})
    missing = sorted(e for e in expected if e not in table or table[e]["verdict"] != "proved")
    for e in missing:
        if e not in table:
            undecided.append({"id": e, "why": "expected obligation was not generated (function out of reach, renamed or restructured)"})
    # ---------------- tier B
    known_fps = {}
    fp_path = os.path.join(root, "known_fingerprints", f"{prop}.json")
    if os.path.exists(fp_path):
        # recorded per tier: the quick and the thorough tier enumerate different (deterministic) input families
        known_fps = {k: set(v) for k, v in load_json(fp_path, {}).get(tier, {}).items()}

    def instance_witness(fp):
        side = os.path.join(root, "build", f"{prop}.bounded.instances.json")
        try:
            return load_json(side, {}).get(fp, {}) or {}
        except Exception:
            return {}
    b_eval = 0
    if bres is not None:
        b_eval = bres.get("evaluations", 0)
        for fl in bres.get("failures", []):
            f = is_known(fl.get("key"))
            if f is not None:
                known_hits.append((f, fl.get("key")))
                # a recorded finding is identified by its INPUTS where the stand-in reports them: failing inputs of a known class
                # that did not fail when the finding was recorded are a different violation of the same property
                base = known_fps.get(fl.get("key"))
                inst = fl.get("instances")
                if base is not None and inst and inst.get("fps"):
                    new = [x for x in inst["fps"] if x not in base]
                    if new:
                        wit = instance_witness(new[0])
                        violations.append({"id": f"{fl.get('key')}#input-{new[0]}", "source": "bounded",
                                           "clause": fl.get("clause", "") + f" [{len(new)} failing input(s) of this recorded class do not fail on the recorded tree]",
                                           "function": fl.get("function", ""), "witness": wit.get("witness"), "observed": wit.get("observed"),
                                           "required": wit.get("required"), "no_failing_input_found": False,
                                           "replay_args": wit.get("witness"), "new_inputs": new[:50], "key": fl.get("key")})
            else:
                violations.append({"id": fl.get("key"), "source": "bounded", "clause": fl.get("clause", ""),
                                   "function": fl.get("function", ""), "witness": fl.get("witness"),
                                   "observed": fl.get("observed"), "required": fl.get("required"),
                                   "no_failing_input_found": False, "replay_args": fl.get("replay_args")})
    # ---------------- output
    seen_known = set()
    for f, key in known_hits:
        if f["key"] in seen_known:
            continue
        seen_known.add(f["key"])
        print(f"KNOWN-FINDING: property={prop} {f.get('text', f['key'])}")
    code = 0
    for v in violations:
        path = os.path.join("replays", prop, safe_name(v["id"]) + ".json")
        rec = dict(v)
        rec["property"] = prop
        rec["obligation"] = v["id"]
        rec["rerun"] = f"./check {prop} --replay {path}"
        if v["source"].startswith("prover"):
            rec["solver_output"] = {"verdict": "sat (negated obligation satisfiable)", "model": v.get("model")}
        with open(os.path.join(root, path), "w") as fh:
            json.dump(rec, fh, indent=1, default=str)
        tail = " no-failing-input-found" if v.get("no_failing_input_found") else ""
        print(f"VIOLATION property={prop} replay={path} obligation={v['id']}{tail}")
        code = 1
    # ---------------- expected set maintenance
    proved_ids = sorted(cid for cid, t in table.items() if t["verdict"] == "proved" and t["kind"] not in ("cover", "canary")
                        and cid.rsplit(":", 1)[0] not in vacuous_fns)
    if write_expected:
        os.makedirs(os.path.dirname(expected_path), exist_ok=True)
        with open(expected_path, "w") as fh:
            json.dump(proved_ids, fh, indent=0)
        expected = set(proved_ids)
    # ---------------- evidence
    n_obl = sum(1 for t in table.values() if t["kind"] not in ("cover", "canary"))
    n_dis = sum(1 for t in table.values() if t["kind"] not in ("cover", "canary") and t["verdict"] == "proved")
    n_inst = sum(t["instances"] for t in table.values())
    backends = {}
    solver_ms = 0
    for t in table.values():
        solver_ms += t["ms"]
        for b, n in t["backends"].items():
            backends[b] = backends.get(b, 0) + n
    fns = []
    trusted = set()
    for r in results:
        fns.append({"name": r["name"], "status": r["status"], "file": r.get("file", ""), "line": r.get("lineno", 0),
                    "source_sha": r.get("sha", ""), "dropped_decorators": r.get("dropped", []), "paths": r.get("paths", 0),
                    "obligation_instances": len(r["obligations"]), "inlined_helpers": r.get("inlined", []),
                    "seconds": r.get("seconds", 0), "reason": r.get("reason", "")[:200]})
        trusted.update(r.get("trusted", []))
    assumed = sorted(n for n, c in api.CONTRACTS.items() if (not c.verify or c.trusted) and n in trusted)
    level = cfg.get("level", "other")
    all_discharged = n_obl > 0 and n_dis == n_obl and not undecided
    if level == "proof" and not all_discharged:
        level = "other"
    samples = []
    for cid, t in list(sorted(table.items()))[:6]:
        samples.append({"obligation": cid, "clause": t["desc"][:200], "verdict": t["verdict"], "paths": t["instances"], "ms": t["ms"]})
    coverage = {
        "obligations": n_obl, "discharged": n_dis, "obligation_instances_per_path": n_inst,
        "checker_cmd": f"./check {prop} --tier {tier}   (python3-vt pyvc/prove.py {prop}: z3 {pres.get('z3')} API; cvc5 1.0.3 / z3 4.8.12 on unknown)",
        "trusted_base": sorted(set(cfg.get("trusted_base", [])) | {f"assumed contract: {a}" for a in assumed}),
        "functions_under_contract": fns,
        "backends": backends, "solver_seconds": round(solver_ms / 1000.0, 3),
        "covers_checked": sum(1 for t in table.values() if t["kind"] == "cover"),
        "canary_paths_reachable": sum(t["instances"] for t in table.values() if t["kind"] == "canary"),
        "undecided": undecided[:50], "expected_obligations": len(expected),
        "expected_missing_or_unproved": missing[:50],
        "known_findings_reproduced": sorted(seen_known),
        "samples": samples,
        "explanation": cfg.get("explanation", ""),
        "lemmas": [r["name"] for r in results if r["name"].startswith("lemma:")],
    }
    if bres is not None:
        coverage["bounded_stand_ins"] = bres.get("stand_ins", [])
        coverage["evaluations"] = bres.get("evaluations", 0)
        coverage["distinct_nontrivial"] = bres.get("distinct_nontrivial", 0)
        coverage["rule"] = bres.get("rule", "")
        coverage["exhaustive"] = bool(bres.get("exhaustive", False))
        coverage["samples"] = samples + bres.get("samples", [])[:6]
        coverage["probes"] = bres.get("probes", [])
        coverage["crosscheck_evaluations"] = bres.get("crosscheck_evaluations", 0)
    elif level in ("exploration",):
        level = "other"
    if not coverage["explanation"]:
        coverage["explanation"] = "contract-based deductive verification of the real source (see DESIGN.md)"
    ev = {"property_id": prop, "tier": tier, "seed": seed, "level": level, "coverage": coverage,
          "assumptions": cfg.get("assumptions", []) + [f"assumed contract (not verified here): {a}" for a in assumed]
          + sorted({n for r in results for n in r.get("notes", [])})
          + ["the random families of the bounded stand-in run with seed 0 whatever VERIF_SEED is (requested: "
             + str(os.environ.get("VERIF_SEED", "unset")) + "): deterministic exploration, see DESIGN.md section 4"],
          "wall_s": round(time.time() - t0, 2), "violations": len(violations)}
    with open(os.path.join(root, "evidence", f"{prop}.json"), "w") as fh:
        json.dump(ev, fh, indent=1, default=str)
    print(f"{prop}: level={level} obligations={n_obl} discharged={n_dis} undecided={len(undecided)} "
          f"bounded_evaluations={b_eval} known_findings={len(seen_known)} violations={len(violations)} wall={ev['wall_s']}s")
    if n_obl == 0 and bres is None:
        print(f"ENGINE-ERROR property={prop} zero obligations generated")
        return 3
    return code


def do_replay(root, prop, path):
    with open(os.path.join(root, path) if not os.path.isabs(path) else path) as fh:
        rec = json.load(fh)
    if rec.get("source") == "bounded":
        bmod = os.path.join(root, "bounded", prop.lower() + ".py")
        env = dict(os.environ)
        env["PYTHONPATH"] = root
        env.setdefault("MPLBACKEND", "Agg")
        p = subprocess.run([VENV_PY, bmod, "--replay", os.path.abspath(os.path.join(root, path))], cwd=root, env=env)
        return p.returncode
    # prover obligation: re-extract and re-prove the function
    from pyvc import prove
    xpath = os.path.join(root, "build", f"{prop}.extract.json")
    subprocess.run([VENV_PY, os.path.join(root, "pyvc", "extract.py"), xpath], cwd=root, check=True)
    prove.EXTRACT_PATH = xpath
    fn = rec.get("function", "").replace("lemma:", "")
    out = prove.run(prop, "quick", only=fn, serial=True)
    table = clause_table(out["results"])
    t = table.get(rec["obligation"])
    if t is None:
        print(f"obligation {rec['obligation']} is no longer generated")
        return 2
    print(f"{rec['obligation']}: {t['verdict']}")
    if t["verdict"] == "refuted":
        print(f"VIOLATION property={prop} replay={path}")
        return 1
    return 0
