#!/venv/bin/python
"""Bounded run-time stand-in for property C10 (tier B, never counted as proof).

C10  Library circuits never double-book a qubit channel.
     In every circuit produced by the repetition-code and state-calibration constructors,
     (clause 1) no two operations of non-zero length that occupy a common qubit channel overlap in time, and
     (clause 2) no operation overlaps a barrier on one of the barrier's qubits,
     whatever the configured (positive) durations of readout / microwave / flux / reset operations are;
     (clause 3) as constructed and (clause 4) after the repetitions are unrolled.

What is done here
  * constructor inputs are enumerated (bounded): all four public constructors
        construct_repetition_code_circuit, construct_repetition_code_circuit_simplified,
        construct_repetition_code_multi_round_circuit, construct_calibration_circuit
    over chains `from_chain`, contiguous sub-chains of the three Surface-17 layouts (`from_connectivity`), composite
    descriptions (plain, leading descriptions, exclusions), distances, cycles, initial states, refocusing on/off and every
    calibration type;
  * every circuit is built through the public API, observed as constructed and after `apply_modifiers` (fresh build, and
    additionally the build -> read -> unroll flow);
  * for MANY positive global duration tables (fixed core list, grid, seeded random per structure), put in force with
    `temporary_override_get_registry_at`, the start and end of every operation is computed by an OWN evaluator of the relation
    equations over the link FIELDS (never `get_start_time`, never a memo); the nodes are found by an own walk over
    `_outgoing_pointers`; a leaf operation's length is the length the real object reports under the table in force
    (no memo is involved in that), a composite's length is the span of the block: latest end minus earliest start over ALL nodes of the
    block (own walk; the definition CircuitCompositeOperation.duration has since the C04 repair -- the reported-times comparison checks
    that the real objects agree);
  * clauses 1 and 2 are evaluated on these times by an own sweep per qubit (ChannelIdentifier matching rewritten here: same
    qubit and (same channel or one of them ALL); open intervals: a.start < b.end and b.start < a.end);
  * the times REPORTED by the real objects (start_time / duration, caches cleared first: stale memos are C03's business) must
    equal the evaluator's.

Reading order (decided consciously): the circuit is read through `circuit.operations` first.  That public read hands the
relation link of a sub-circuit down to its relation-less first-level operations (side effect of `decomposed_operations`);
only after it do nested operations have absolute times at all, and every consumer (drawing, Stim, OpenQL) reads that way.
The "unrolled" phase is evaluated on a fresh build without any read before `apply_modifiers`, the "unrolled_after_read"
phase on the object that was read as constructed.

`CoordinateShiftOperation` derives from `Barrier` but has zero length; "a barrier" in clause 2 is an operation whose class is
exactly `Barrier`; the coordinate shift is treated as a zero-length operation.
"""
import contextlib
import io
import itertools
import json
import multiprocessing as mp
import os
import random
import sys
import time
import warnings

os.environ.setdefault("MPLBACKEND", "Agg")
warnings.filterwarnings("ignore")

from bounded import common  # noqa: E402

PROP = "C10"
sys.setrecursionlimit(100000)

# ------------------------------------------------------------------------------------------------
# Inputs: description / state / constructor specs (plain JSON)
# ------------------------------------------------------------------------------------------------
# The repetition chains contained in the Surface-17 layouts (an input of the harness; a probe checks them against the
# layouts' gate edges).
CHAIN17 = ["D1", "X1", "D2", "X2", "D3", "Z2", "D6", "Z4", "D5", "Z1", "D4", "Z3", "D7", "X3", "D8", "X4", "D9"]
CHAIN9 = ["D3", "Z2", "D6", "Z4", "D5", "Z1", "D4", "X3", "D7"]
LAYOUTS = {"Repetition9Code": CHAIN17, "Repetition9Round6Code": CHAIN17, "Repetition5Round4Code": CHAIN9}
KEYS = ["READOUT", "MICROWAVE", "FLUX", "RESET"]
DEFAULT_TABLE = [2.0, 1.0, 1.0, 2.0]
CTOR_NAME = {
    "rep": "construct_repetition_code_circuit",
    "simplified": "construct_repetition_code_circuit_simplified",
    "multi": "construct_repetition_code_multi_round_circuit",
    "cal": "construct_calibration_circuit",
}
CTOR_FILE = {
    "rep": "library/repetition_code/circuit_constructors.py",
    "simplified": "library/repetition_code/circuit_constructors.py",
    "multi": "library/repetition_code/circuit_constructors.py",
    "cal": "library/state_calibration/circuit_constructors.py",
}


def _layout(name):
    from qce_circuit.library.repetition_code import repetition_code_connectivity as m
    return getattr(m, name)()


def involved_names(spec):
    kind = spec["kind"]
    if kind == "composite":
        return involved_names(spec["base"])
    if kind in ("chain",):
        return ["D%d" % i for i in range(spec["length"])]
    names = LAYOUTS[spec["layout"]][spec["start"]:spec["stop"]]
    return list(reversed(names)) if spec.get("reverse") else list(names)


def spec_layout(spec):
    if spec["kind"] == "composite":
        return spec_layout(spec["base"])
    return spec.get("layout")


def spec_refocus(spec):
    if spec is None or spec["kind"] == "default":
        return True
    if spec["kind"] == "composite":
        return spec_refocus(spec["base"])
    return bool(spec["refocus"])


def build_description(spec):
    """REAL description object through the public API"""
    from qce_circuit.connectivity import QubitIDObj, EdgeIDObj
    from qce_circuit.library.repetition_code.circuit_components import (
        RepetitionCodeDescription, CompositeRepetitionCodeDescription)
    kind = spec["kind"]
    if kind == "default":
        return None
    if kind == "chain":
        return RepetitionCodeDescription.from_chain(length=spec["length"], qubit_refocusing=spec["refocus"])
    if kind == "layout":
        return RepetitionCodeDescription.from_connectivity(
            involved_qubit_ids=[QubitIDObj(n) for n in involved_names(spec)],
            connectivity=_layout(spec["layout"]), qubit_refocusing=spec["refocus"])
    if kind == "composite":
        base = build_description(spec["base"])
        lead_g = build_description(spec["leading_gate"]) if spec.get("leading_gate") else None
        lead_r = build_description(spec["leading_readout"]) if spec.get("leading_readout") else None
        ids = list(base.qubit_ids)
        for other in (lead_r, lead_g):
            if other is not None:
                for q in other.qubit_ids:
                    if q not in ids:
                        ids.append(q)
        return CompositeRepetitionCodeDescription(
            _base_description=base,
            _qubit_index_map={q: i for i, q in enumerate(ids)},
            _connectivity=_layout(spec_layout(spec)),
            _leading_readout_description=lead_r,
            _leading_gate_description=lead_g,
            _exclude_readout_qubit_ids=[QubitIDObj(n) for n in spec.get("ex_readout", [])],
            _exclude_rotation_qubit_ids=[QubitIDObj(n) for n in spec.get("ex_rotation", [])],
            _exclude_gate_edge_ids=[EdgeIDObj(QubitIDObj(a), QubitIDObj(b)) for a, b in spec.get("ex_gate_e", [])],
            _exclude_gate_qubit_ids=[QubitIDObj(n) for n in spec.get("ex_gate_q", [])],
            _only_required_parking_operations=bool(spec.get("only_required", False)),
        )
    raise ValueError(kind)


def build_state(data, anc):
    from qce_circuit.language import InitialStateContainer, InitialStateEnum
    if data is None:
        return InitialStateContainer.empty()
    return InitialStateContainer.from_ordered_list(
        [InitialStateEnum[n] for n in data], None if anc is None else [InitialStateEnum[n] for n in anc])


def build_circuit(case):
    """the REAL circuit, through the public constructors only"""
    ctor = case["ctor"]
    if ctor == "cal":
        from qce_circuit.connectivity import QubitIDObj
        from qce_circuit.library.state_calibration.circuit_components import CalibrationDescription, CalibrateType
        from qce_circuit.library.state_calibration.circuit_constructors import construct_calibration_circuit
        ids = [QubitIDObj(n) for n in case["names"]]
        desc = CalibrationDescription(_qubit_ids=ids, _qubit_index_map={q: i for q, i in zip(ids, case["indices"])},
                                      _type=CalibrateType[case["type"]])
        return construct_calibration_circuit(description=desc)
    from qce_circuit.library.repetition_code import circuit_constructors as cc
    desc = build_description(case["desc"])
    state = build_state(case.get("data"), case.get("anc"))
    if ctor == "rep":
        return cc.construct_repetition_code_circuit(qec_cycles=case["cycles"], description=desc, initial_state=state)
    if ctor == "simplified":
        return cc.construct_repetition_code_circuit_simplified(qec_cycles=case["cycles"], description=desc, initial_state=state)
    if ctor == "multi":
        return cc.construct_repetition_code_multi_round_circuit(qec_cycles=list(case["rounds"]), description=desc, initial_state=state)
    raise ValueError(ctor)


def description_class(spec):
    """'plain' = a chain description without modifications (from_chain, from_initial_state, from_connectivity, or a composite
    description that only wraps one); otherwise the kinds of modification a composite description applies"""
    if spec["kind"] != "composite":
        return "plain"
    feats = []
    if spec.get("ex_rotation"):
        feats.append("rotation-exclusion")
    if spec.get("ex_readout"):
        feats.append("readout-exclusion")
    if spec.get("ex_gate_q") or spec.get("ex_gate_e"):
        feats.append("gate-exclusion")
    if spec.get("leading_gate") or spec.get("leading_readout"):
        feats.append("leading-description")
    if spec.get("only_required"):
        feats.append("required-parking-only")
    return "plain" if not feats else "composite(" + "+".join(feats) + ")"


def case_flag(case):
    """the input class named in a failure key: calibration type, or refocusing on/off (+ the class of a modified description)"""
    if case["ctor"] == "cal":
        return "type-" + case["type"]
    flag = "refocusing-" + ("on" if spec_refocus(case["desc"]) else "off")
    dc = description_class(case["desc"])
    return flag if dc == "plain" else flag + ":description-" + dc


def subsumed_by(key):
    """the key of the same (constructor, clause, refocusing) class on PLAIN descriptions, or None.  A failure seen on a modified
    description is the same class as the one on plain descriptions when those fail as well (rule applied once, when merging)"""
    if ":description-" not in key:
        return None
    head, tail = key.split(":description-", 1)
    rest = tail.split(")", 1)[1] if ")" in tail else ""
    return head + rest


def case_cost(case):
    if case["ctor"] == "cal":
        return len(case["names"]) * 3
    n = len(involved_names(case["desc"])) if case["desc"]["kind"] != "default" else 2 * len(case["data"]) - 1
    if case["ctor"] == "multi":
        return n * (sum(case["rounds"]) + 2 * len(case["rounds"]) + 3)
    return n * (1 + case["cycles"])


def canon(obj):
    return json.dumps(obj, sort_keys=True)


@contextlib.contextmanager
def quiet():
    """the library prints progress bars / warnings while unrolling and flattening"""
    with warnings.catch_warnings():
        warnings.simplefilter("ignore")
        with contextlib.redirect_stdout(io.StringIO()), contextlib.redirect_stderr(io.StringIO()):
            yield


# ------------------------------------------------------------------------------------------------
# Duration tables
# ------------------------------------------------------------------------------------------------
def is_exact(table):
    """all values are small dyadic rationals: every sum the evaluator (and the library) forms is exact in binary64"""
    return all(v > 0 and (v * 4096.0) == int(v * 4096.0) and v <= 16384.0 for v in table)


# fixed core list (every structure sees these): defaults, equal values, below / at / above the barrier length 0.5,
# readout < microwave, readout == microwave, tiny and huge ratios for every key, a realistic ns table, non-dyadic values
CORE_TABLES = [
    [2.0, 1.0, 1.0, 2.0],            # repository defaults
    [1.0, 1.0, 1.0, 1.0],
    [0.5, 0.5, 0.5, 0.5],
    [0.25, 0.25, 0.25, 0.25],
    [1.0, 2.0, 1.0, 1.0],            # readout < microwave
    [1.0, 4.0, 1.0, 1.0],
    [0.25, 1.0, 1.0, 0.25],
    [8.0, 1.0, 1.0, 1.0],
    [1.0, 1.0, 8.0, 1.0],
    [1.0, 1.0, 1.0, 8.0],
    [1.0, 1.0, 0.25, 1.0],
    [3.0, 1.0, 2.0, 0.5],
    [3.0, 2.0, 1.0, 5.0],            # odd difference: wait = 0.5
    [1.0 / 64, 1.0 / 64, 1.0 / 64, 1.0 / 64],
    [1024.0, 1.0 / 64, 1.0, 1.0],
    [1.0 / 64, 1024.0, 1.0, 1.0],
    [1.0, 1.0, 1024.0, 1.0 / 64],
    [1.0, 1.0, 1.0 / 64, 1024.0],
    [1024.0, 1024.0, 1.0 / 64, 1.0 / 64],
    [420.0, 20.0, 60.0, 500.0],      # nanoseconds of a real device
    [0.3, 0.1, 0.7, 1.1],            # not dyadic: compared with a tolerance
    [0.1, 0.3, 0.2, 0.05],
]
GRID_VALUES = [1.0 / 64, 0.25, 0.5, 1.0, 2.0, 3.0, 64.0]
N_RANDOM = {"quick": 30, "thorough": 120}
N_REPORTED = {"quick": 4, "thorough": 12}
BUDGET = {"quick": 50.0, "thorough": 540.0}     # seconds of wall time after which the remaining inputs are counted as skipped


def grid_tables():
    """readout x microwave over GRID_VALUES (their order decides the decoupling wait), flux / reset rotating through the values
    in two different phases"""
    out = []
    n = len(GRID_VALUES)
    for i, ro in enumerate(GRID_VALUES):
        for j, mw in enumerate(GRID_VALUES):
            out.append([ro, mw, GRID_VALUES[(i + 2 * j + 1) % n], GRID_VALUES[(3 * i + j + 2) % n]])
            out.append([ro, mw, GRID_VALUES[(2 * i + j + 4) % n], GRID_VALUES[(i + 3 * j) % n]])
    return out


def random_table(rng):
    def val():
        return float(rng.randint(1, 15)) * 2.0 ** rng.randint(-6, 5)
    t = [val(), val(), val(), val()]
    r = rng.random()
    if r < 0.15:
        t[1] = t[0]                     # readout == microwave
    elif r < 0.30:
        t[0], t[1] = min(t[0], t[1]), max(t[0], t[1]) + 2.0 ** -6   # readout < microwave
    return t


def tables_for(case, tier, seed):
    rng = random.Random(f"{seed}|{canon(case)}")
    n_rand = N_RANDOM[tier]
    out = [list(t) for t in CORE_TABLES]
    if tier != "quick":
        out += grid_tables()
    else:
        g = grid_tables()
        out += rng.sample(g, 8)
    out += [random_table(rng) for _ in range(n_rand)]
    seen, res = set(), []
    for t in out:
        k = tuple(t)
        if k not in seen:
            seen.add(k)
            res.append(t)
    return res


@contextlib.contextmanager
def durations_in_force(table):
    """`table` = [readout, microwave, flux, reset] or None (no override: the repository's configuration)"""
    if table is None:
        yield
        return
    from qce_circuit.structure.registry_duration import temporary_override_get_registry_at, GlobalRegistryKey
    with temporary_override_get_registry_at({GlobalRegistryKey[k]: float(v) for k, v in zip(KEYS, table)}):
        yield


# ------------------------------------------------------------------------------------------------
# Own observation of the circuit: pointer walk, relation equations
# ------------------------------------------------------------------------------------------------
def is_composite(op):
    return hasattr(op, "_circuit_graph")


def composite_nodes(comp):
    """(depth-1 nodes, relation-leaf nodes, all nodes) of a composite by an own BFS over the pointer fields"""
    graph = comp._circuit_graph
    root, end = graph._entrypoint_node, graph._endpoint_node
    depth1 = [n for n in root._outgoing_pointers if n is not end]
    leaves, allnodes, seen = [], [], set()
    frontier = list(depth1)
    while frontier:
        nxt = []
        for n in frontier:
            if id(n) in seen:
                continue
            seen.add(id(n))
            allnodes.append(n)
            succ = [m for m in n._outgoing_pointers if m is not end]
            if not succ:
                leaves.append(n)
            nxt.extend(succ)
        frontier = nxt
    return depth1, leaves, allnodes


def walk_all_ops(comp, out=None):
    out = [] if out is None else out
    for n in composite_nodes(comp)[2]:
        out.append(n.operation)
        if is_composite(n.operation):
            walk_all_ops(n.operation, out)
    return out


class Structure:
    """duration-independent view of one circuit, compiled once: operation objects found by the own walk, link FIELDS resolved to
    indices, composite membership (ALL nodes of the block, own walk), channel occupation per qubit, and an evaluation order
    in which every operation comes after the operations its link refers to and (sub-circuit) after its members."""

    def __init__(self, circuit):
        self.public_ops = circuit.operations          # public read (hands sub-circuit links down), see module docstring
        top = circuit.circuit_structure
        self.top = top
        ops = walk_all_ops(top)
        self.leaf = [o for o in ops if not is_composite(o)]
        self.comp = [o for o in ops if is_composite(o)]
        self.same_ops = (sorted(map(id, self.leaf)) == sorted(map(id, self.public_ops)))
        # nodes = walked operations + the top composite + whatever a link refers to outside of the walk (dangling references)
        self.nodes, self.index = [], {}
        for o in ops + [top]:
            self._add(o)
        self.dangling = 0
        self.link, self.members = [], []
        i = 0
        while i < len(self.nodes):
            o = self.nodes[i]
            link = o.relation
            if type(link).__name__ == "MultiRelationLink":
                refs, multi = list(link._reference_nodes), True
            else:
                refs, multi = ([] if link._reference_node is None else [link._reference_node]), False
            ridx = []
            for r in refs:
                if id(r) not in self.index:
                    self.dangling += 1
                    self._add(r)
                ridx.append(self.index[id(r)])
            self.link.append((multi, ridx, link._relation_type.name))
            if is_composite(o):
                mem = []
                for n in composite_nodes(o)[2]:          # every node of the block
                    if id(n.operation) not in self.index:
                        self._add(n.operation)
                    mem.append(self.index[id(n.operation)])
                self.members.append(mem)
            else:
                self.members.append(None)
            i += 1
        self.ops = [o for o in self.nodes if o is not top]
        self.order = self._order()
        # channel occupation, rewritten from the fields of the ChannelIdentifier objects: qubit -> [(node index, channel name, is Barrier)]
        self.occupation = {}
        for o in self.leaf:
            name = type(o).__name__
            for ci in o.channel_identifiers:
                self.occupation.setdefault(ci._id, []).append((self.index[id(o)], ci._channel.name, name == "Barrier"))

    def _add(self, o):
        self.index[id(o)] = len(self.nodes)
        self.nodes.append(o)

    def _order(self):
        """dependencies first (iterative depth-first post-order); None if the dependencies are cyclic"""
        n = len(self.nodes)
        state, order = [0] * n, []
        for root in range(n):
            if state[root]:
                continue
            stack = [(root, iter(self._deps(root)))]
            state[root] = 1
            while stack:
                i, it = stack[-1]
                advanced = False
                for j in it:
                    if state[j] == 0:
                        state[j] = 1
                        stack.append((j, iter(self._deps(j))))
                        advanced = True
                        break
                    if state[j] == 1:
                        return None
                if not advanced:
                    state[i] = 2
                    order.append(i)
                    stack.pop()
        return order

    def _deps(self, i):
        d = list(self.link[i][1])
        if self.members[i] is not None:
            d += self.members[i]
        return d

    def nontrivial(self):
        """at least two operations on one common qubit (the property is not vacuous)"""
        return any(len(l) >= 2 for l in self.occupation.values())


class Evaluator:
    """start / end of every operation from the relation equations over the link FIELDS (resolved in Structure), for the
    durations in force at construction time of the evaluator.
      start = 0 without reference; end(ref) / start(ref) / end(ref) - own length for FOLLOWED_BY / JOINED_START / JOINED_END;
      the reference of a multi-link is the first member of the group with the latest end.
      leaf length: what the real object's duration strategy returns under the durations in force (no memo involved);
      composite length: span of the block = latest end minus earliest start over ALL nodes of the block (0 for an empty block)."""

    def __init__(self, structure):
        S = self.S = structure
        n = len(S.nodes)
        self.s, self.d = [0.0] * n, [0.0] * n
        if S.order is None:
            raise RuntimeError("cyclic relation structure")
        s, d = self.s, self.d
        nodes, links, members = S.nodes, S.link, S.members
        for i in S.order:
            mem = members[i]
            if mem is None:
                o = nodes[i]
                d[i] = o.duration_strategy.get_variable_duration(o)
            else:
                if not mem:
                    d[i] = 0.0
                else:
                    rel = min(s[j] for j in mem)
                    v = 0.0
                    for j in mem:
                        delta = s[j] + d[j] - rel
                        if delta > v:
                            v = delta
                    d[i] = v
            multi, refs, rtype = links[i]
            if not refs:
                s[i] = 0.0
                continue
            r = refs[0]
            if multi:
                best = s[r] + d[r]
                for j in refs:
                    e = s[j] + d[j]
                    if e > best:
                        best, r = e, j
            if rtype == "FOLLOWED_BY":
                s[i] = s[r] + d[r]
            elif rtype == "JOINED_START":
                s[i] = s[r]
            elif rtype == "JOINED_END":
                s[i] = s[r] + d[r] - d[i]
            else:
                raise TypeError(rtype)

    def start(self, op):
        return self.s[self.S.index[id(op)]]

    def dur(self, op):
        return self.d[self.S.index[id(op)]]

    def end(self, op):
        i = self.S.index[id(op)]
        return self.s[i] + self.d[i]


def closed_form_duration(op, table):
    """what the configured table says an operation of this duration strategy lasts (None = not table-driven knowledge)"""
    s = op.duration_strategy
    n = type(s).__name__
    T = dict(zip(KEYS, table))
    if n == "GlobalDurationStrategy":
        return T[s.key.name]
    if n == "FixedDurationStrategy":
        return s.duration
    if n == "GlobalDecouplingWaitDurationStrategy":
        return max(0.0, 0.5 * (T["READOUT"] - T["MICROWAVE"]))
    return None


def op_qubits(op):
    if hasattr(op, "qubit_indices"):
        return list(op.qubit_indices)
    if hasattr(op, "control_qubit_index"):
        return [op.control_qubit_index, op.target_qubit_index]
    if hasattr(op, "qubit_index"):
        return [op.qubit_index]
    return sorted({ci._id for ci in op.channel_identifiers})


def describe(op, ev):
    return {"class": type(op).__name__, "qubits": op_qubits(op), "start": ev.start(op), "end": ev.end(op)}


def find_overlaps(structure, ev, tol, limit=4):
    """clauses 1 and 2 on own-evaluated times.  Returns (violations of clause 1, violations of clause 2, number of pairs that
    intersect in time on one qubit and were examined for a common channel)"""
    v1, v2, compared = [], [], 0
    s, d, nodes = ev.s, ev.d, structure.nodes
    for q, occ in structure.occupation.items():
        items = []
        for (i, ch, bar) in occ:
            a, b = s[i], s[i] + d[i]
            if b < a:
                a, b = b, a                    # a negative length is still an occupied stretch of time
            items.append((a, b, i, ch, bar))
        items.sort()
        n = len(items)
        for k in range(n):
            lo1, hi1, i1, c1, b1 = items[k]
            if k + 1 < n and not (items[k + 1][0] + tol < hi1):
                continue
            for m in range(k + 1, n):
                lo2, hi2, i2, c2, b2 = items[m]
                if lo2 + tol >= hi1:
                    break                      # sorted by lower edge: nothing later reaches into operation k
                if i1 == i2:
                    continue
                # open intervals intersect (zero length: the instant lies strictly inside the other operation)
                if not (lo1 + tol < hi2):
                    continue
                compared += 1
                if not (c1 == c2 or c1 == "ALL" or c2 == "ALL"):
                    continue
                if b1 or b2:
                    if len(v2) < limit:
                        v2.append((q, nodes[i1], c1, nodes[i2], c2))
                elif (hi1 - lo1) > tol and (hi2 - lo2) > tol:
                    if len(v1) < limit:
                        v1.append((q, nodes[i1], c1, nodes[i2], c2))
    return v1, v2, compared


def violation_json(v, ev):
    q, o1, c1, o2, c2 = v
    a, b = describe(o1, ev), describe(o2, ev)
    a["channel"], b["channel"] = c1, c2
    return {"qubit": q, "a": a, "b": b}


# ------------------------------------------------------------------------------------------------
# One structure (case, phase) under many tables
# ------------------------------------------------------------------------------------------------
class Stats:
    def __init__(self):
        self.n = {"overlap": 0, "barrier": 0, "reported": 0, "leafdur": 0, "pairs": 0, "ops": 0, "built": 0, "unrolled": 0, "unrolled_after_read": 0}
        self.structures = 0
        self.distinct = 0          # distinct (constructor input, table) pairs: inputs are distinct per job, tables distinct per input
        self.failures = {}
        self.skipped = {}
        self.samples = []
        self.probe = {"same_ops_bad": 0, "leafdur_bad": 0, "leafdur_first": None, "relinked": 0, "dangling": 0,
                      "max_ops": 0, "neg_len": 0, "yaml": None}

    def fail(self, key, clause, function, witness, observed, required, size):
        old = self.failures.get(key)
        if old is None or size < old["_size"]:
            self.failures[key] = {"key": key, "clause": clause, "function": function, "witness": witness, "observed": observed,
                                  "required": required, "replay_args": dict(witness, key=key), "_size": size}

    def skip(self, reason):
        self.skipped[reason] = self.skipped.get(reason, 0) + 1

    def merge(self, o):
        for k, v in o.n.items():
            self.n[k] += v
        self.structures += o.structures
        self.distinct += o.distinct
        for k, f in o.failures.items():
            old = self.failures.get(k)
            if old is None or f["_size"] < old["_size"]:
                self.failures[k] = f
        for k, v in o.skipped.items():
            self.skipped[k] = self.skipped.get(k, 0) + v
        self.samples.extend(o.samples[:2])
        self.samples = self.samples[:8]
        p, q = self.probe, o.probe
        for k in ("same_ops_bad", "leafdur_bad", "relinked", "dangling", "neg_len"):
            p[k] += q[k]
        p["max_ops"] = max(p["max_ops"], q["max_ops"])
        if p["leafdur_first"] is None:
            p["leafdur_first"] = q["leafdur_first"]
        if p["yaml"] is None:
            p["yaml"] = q["yaml"]


CLAUSE1 = ("no two operations of non-zero length that occupy a common qubit channel (same qubit, same channel or one of them ALL) "
           "overlap in time (open intervals), for the durations in force")
CLAUSE2 = "no operation overlaps (open intervals; an instant: strictly inside) a Barrier on one of the barrier's qubits, for the durations in force"
CLAUSE_R = ("start_time / duration reported by the real objects (caches cleared) equal the own evaluation of the relation equations "
            "over the link fields under the durations in force")


def close(a, b, tol):
    return abs(a - b) <= tol


def check_structure(circuit, case, phase, tables, stats, n_reported, built_keys=None, verbose=False):
    """evaluate clauses 1, 2 (+ reported times) on one real circuit for every table.  Returns the set of failure keys raised."""
    ctor = case["ctor"]
    fn = f"{CTOR_NAME[ctor]} ({CTOR_FILE[ctor]})"
    flag = case_flag(case)
    S = Structure(circuit)
    stats.structures += 1
    stats.probe["max_ops"] = max(stats.probe["max_ops"], len(S.leaf))
    if not S.same_ops:
        stats.probe["same_ops_bad"] += 1
    stats.probe["dangling"] += S.dangling
    nontrivial = S.nontrivial()
    # reading the reported times is the expensive part on large circuits (the library recomputes a block's span over all of its
    # nodes on every read): fewer tables are read back there; clauses 1, 2 are still evaluated under every table
    if len(S.leaf) > 250:
        n_reported = max(1, n_reported // 4)
    elif len(S.leaf) > 120:
        n_reported = max(1, n_reported // 2)
    kind = "cal" if ctor == "cal" else case["desc"]["kind"]
    size = (case_cost(case), {"chain": 0, "default": 1, "cal": 1, "layout": 2, "composite": 3}[kind], canon(case))
    raised = set()
    suffix = "" if phase == "built" else ":after-unrolling-only"
    if nontrivial and phase == "built":
        stats.distinct += len({None if t is None else tuple(t) for t in tables})

    def key_of(kind):
        k0 = f"{PROP}:{CTOR_NAME[ctor]}:{kind}:{flag}"
        if phase != "built" and built_keys is not None and k0 in built_keys:
            return k0, False          # same class already witnessed on the circuit as constructed
        return k0 + suffix, True

    for ti, table in enumerate(tables):
        exact = table is not None and is_exact(table)
        with durations_in_force(table):
            ev = Evaluator(S)
            horizon = max(1.0, max((abs(a + b) for a, b in zip(ev.s, ev.d)), default=1.0))
            if min(ev.d, default=0.0) < 0:
                stats.probe["neg_len"] += sum(1 for v in ev.d if v < 0)
            tol = 0.0 if exact else 1e-9 * horizon
            v1, v2, compared = find_overlaps(S, ev, tol)
            stats.n["overlap"] += 1
            stats.n["barrier"] += 1
            stats.n[phase] += 2
            stats.n["pairs"] += compared
            stats.n["ops"] += len(S.leaf)
            wit = {"case": case, "phase": phase, "table": table}
            if v1:
                key, report = key_of("channel-overlap")
                raised.add(key)
                if report:
                    stats.fail(key, CLAUSE1, fn, wit, {"overlapping": [violation_json(v, ev) for v in v1], "durations": dict(zip(KEYS, table)) if table else "repository configuration"},
                               "disjoint open time intervals for operations sharing a qubit channel", size + (ti,))
                if verbose:
                    print("  clause 1 violated:", json.dumps([violation_json(v, ev) for v in v1]))
            if v2:
                key, report = key_of("barrier-overlap")
                raised.add(key)
                if report:
                    stats.fail(key, CLAUSE2, fn, wit, {"overlapping": [violation_json(v, ev) for v in v2], "durations": dict(zip(KEYS, table)) if table else "repository configuration"},
                               "no operation inside a barrier's time interval on the barrier's qubits", size + (ti,))
                if verbose:
                    print("  clause 2 violated:", json.dumps([violation_json(v, ev) for v in v2]))
            if verbose and not v1 and not v2:
                print(f"  clauses 1, 2 hold ({len(S.leaf)} operations, {compared} pairs compared)")
            # configured table really reaches every leaf (validity of the duration dimension; a probe, not a clause)
            if table is not None and ti < n_reported:
                for o in S.leaf:
                    cf = closed_form_duration(o, table)
                    stats.n["leafdur"] += 1
                    if cf is not None and not close(cf, ev.dur(o), tol):
                        stats.probe["leafdur_bad"] += 1
                        if stats.probe["leafdur_first"] is None:
                            stats.probe["leafdur_first"] = {"class": type(o).__name__, "strategy": type(o.duration_strategy).__name__,
                                                            "reported": ev.dur(o), "closed_form": cf, "table": table}
            # reported times
            if ti < n_reported:
                common.clear_caches()
                bad = None
                order = sorted(S.ops, key=lambda o: ev.start(o))     # memo fills bottom-up: shallow recursion in the library
                for o in order:
                    rs, rd = o.start_time, o.duration
                    if not (close(rs, ev.start(o), tol) and close(rd, ev.dur(o), tol)):
                        bad = {"class": type(o).__name__, "qubits": op_qubits(o) if not is_composite(o) else None,
                               "reported_start": rs, "reported_duration": rd, "evaluated_start": ev.start(o), "evaluated_duration": ev.dur(o)}
                        break
                stats.n["reported"] += 1
                if bad:
                    key, report = key_of("reported-times-differ-from-relation-equations")
                    raised.add(key)
                    if report:
                        stats.fail(key, CLAUSE_R, fn, dict(wit, check="reported"), bad, "equal", size + (ti,))
                    if verbose:
                        print("  reported times differ:", json.dumps(bad))
                elif verbose:
                    print(f"  reported start / duration of {len(S.ops)} operations and sub-circuits equal the own evaluation")
                common.clear_caches()
    if len(stats.samples) < 2 and nontrivial:
        with durations_in_force(tables[0]):
            ev = Evaluator(S)
            stats.samples.append({"input": case, "phase": phase, "operations": len(S.leaf), "sub_circuits": len(S.comp),
                                  "tables": len(tables), "first_table": tables[0],
                                  "latest_end": max([ev.end(o) for o in S.leaf] or [0.0]),
                                  "checked": "clauses 1, 2 under every table; reported times under the first %d tables" % n_reported})
    return raised


PHASES = ("built", "unrolled", "unrolled_after_read")


def make_phase(case, phase, circuit_built=None):
    """the REAL circuit object of a phase"""
    if phase == "built":
        with quiet():
            return build_circuit(case)
    if phase == "unrolled":
        with quiet():
            c = build_circuit(case)
            return c.apply_modifiers()
    if phase == "unrolled_after_read":
        with quiet():
            c = circuit_built if circuit_built is not None else build_circuit(case)
            _ = c.operations
            return c.apply_modifiers()
    raise ValueError(phase)


_DEADLINE = [None]


def run_job(job):
    case, tier, seed = job["case"], job["tier"], job["seed"]
    stats = Stats()
    if _DEADLINE[0] is not None and time.time() > _DEADLINE[0]:
        stats.skip("time budget of the tier exhausted before this input was reached")
        return stats
    tables = tables_for(case, tier, seed)
    if job.get("yaml"):
        tables = tables[:1] + [None] + tables[1:]
    n_rep = N_REPORTED[tier]
    try:
        built = make_phase(case, "built")
    except Exception as err:  # the constructor refuses the input: counted, never silent
        stats.skip(f"constructor raised {type(err).__name__} for {case['ctor']} / {case.get('desc', {}).get('kind', case.get('type'))}"
                   f"{' with exclusions' if any(case.get('desc', {}).get(k) for k in ('ex_readout', 'ex_rotation', 'ex_gate_q', 'ex_gate_e')) else ''}")
        return stats
    try:
        built_keys = check_structure(built, case, "built", tables, stats, n_rep)
        unrolled = make_phase(case, "unrolled")
        check_structure(unrolled, case, "unrolled", tables, stats, n_rep, built_keys)
        if job.get("after_read", True):
            again = make_phase(case, "unrolled_after_read", built)
            check_structure(again, case, "unrolled_after_read", tables[:max(8, len(tables) // 3)], stats, 1 if tier == "quick" else 2, built_keys)
    except RecursionError:
        stats.skip("harness error: recursion limit")
    except Exception as err:   # never silent: the driver sees a harness error (exit code 2)
        stats.skip(f"harness error: {type(err).__name__}: {str(err)[:120]}")
    return stats


# ------------------------------------------------------------------------------------------------
# Enumeration of constructor inputs
# ------------------------------------------------------------------------------------------------
def sub_chains(chain, dmin=2, dmax=5):
    out = []
    n_data = (len(chain) + 1) // 2
    for i in range(n_data):
        for d in range(dmin, dmax + 1):
            j = i + d - 1
            if j < n_data:
                out.append((2 * i, 2 * j + 1, d))
    return out


STATE_NAMES = ["ZERO", "ONE", "PLUS", "MINUS", "PLUS_I", "MINUS_I"]


def state_variants(d, rng, n):
    """several initial states: all zero, alternating, every enum member, ancilla states, partial, empty"""
    out = [(["ZERO"] * d, None),
           ([("ONE" if i % 2 == 0 else "ZERO") for i in range(d)], None),
           ([STATE_NAMES[i % 6] for i in range(d)], [STATE_NAMES[(i + 3) % 6] for i in range(d - 1)]),
           (["ONE"], None),          # partial: only the first data qubit is prepared
           (None, None)]             # InitialStateContainer.empty()
    while len(out) < n:
        out.append(([rng.choice(STATE_NAMES) for _ in range(d)], [rng.choice(STATE_NAMES) for _ in range(d - 1)] if rng.random() < 0.5 else None))
    return out[:n]


def make_cases(tier, seed):
    rng = random.Random(seed)
    quick = tier == "quick"
    cases, info = [], []
    cycles_all = list(range(0, 7)) if quick else list(range(0, 9))

    # (1) from_chain: distances 2..5 (thorough: ..6) x cycles x refocusing x both single-circuit constructors x states
    dists = (2, 3, 4, 5) if quick else (2, 3, 4, 5, 6)
    n1 = 0
    for d in dists:
        for refocus in (True, False):
            spec = {"kind": "chain", "length": 2 * d - 1, "refocus": refocus}
            for cyc in cycles_all:
                sv = state_variants(d, rng, 7)
                if quick:
                    sv = [sv[cyc % 3], sv[3 + cyc % 2]] if d > 2 else sv[:5]
                for data, anc in sv:
                    for ctor in ("rep", "simplified"):
                        cases.append({"ctor": ctor, "desc": spec, "data": data, "anc": anc, "cycles": cyc})
                        n1 += 1
    # default description (None -> from_initial_state)
    for d in dists:
        for cyc in (0, 1, 3, 4):
            for ctor in ("rep", "simplified"):
                cases.append({"ctor": ctor, "desc": {"kind": "default"}, "data": ["ONE"] * d, "anc": None, "cycles": cyc})
                n1 += 1
    info.append(f"from_chain / default description: distances {list(dists)}, cycles {cycles_all}, refocusing on/off, "
                f"both single-circuit constructors, initial states (all-zero, alternating, all six enum members with ancilla states, partial, empty, random): {n1} inputs")

    # (2) contiguous sub-chains of the Surface-17 layouts through from_connectivity (parking operations, empty gate layers)
    n2 = 0
    for lname, chain in LAYOUTS.items():
        subs = sub_chains(chain)
        for (a, b, d) in subs:
            for reverse in ((False, True) if not quick else (False,)):
                for refocus in (True, False):
                    spec = {"kind": "layout", "layout": lname, "start": a, "stop": b, "reverse": reverse, "refocus": refocus}
                    if quick:
                        cyc_list = sorted({(a // 2 + d) % 3, 3 + (a // 2 + (1 if refocus else 0)) % 3})
                        if d >= 4:
                            cyc_list = cyc_list[:1] if (a // 2) % 2 else cyc_list[1:]
                    else:
                        cyc_list = [0, 1, 2, 3, 4, 6] if d <= 3 else [1, 2, 4, 5]
                    for cyc in cyc_list:
                        data = [("ONE" if (i + cyc) % 2 else "ZERO") for i in range(d)]
                        ctors = ("rep", "simplified")
                        if quick and d >= 4:
                            ctors = (("rep", "simplified")[(a // 2 + cyc) % 2],)
                        for ctor in ctors:
                            cases.append({"ctor": ctor, "desc": spec, "data": data, "anc": None, "cycles": cyc})
                            n2 += 1
    info.append(f"from_connectivity: every contiguous sub-chain with 2..5 data qubits of Repetition9Code, Repetition9Round6Code, "
                f"Repetition5Round4Code ({sum(len(sub_chains(c)) for c in LAYOUTS.values())} sub-chains{'' if quick else ', both directions'}), refocusing on/off, "
                f"{'a rotating choice of two cycle counts (one of 0..2, one of 3..5)' if quick else 'cycles 0,1,2,3,4,6 (<= 3 data qubits) / 1,2,4,5 (4, 5 data qubits)'}: {n2} inputs")

    # (3) composite descriptions: plain wrap, leading gate / readout description, exclusions, only-required parking
    n3 = 0
    comp_specs = []
    bases = (("Repetition9Code", 8, 3), ("Repetition9Code", 0, 2), ("Repetition5Round4Code", 2, 3), ("Repetition9Round6Code", 4, 3))
    for lname, start, d in (bases[:2] if quick else bases):
        for refocus in (True, False):
            base = {"kind": "layout", "layout": lname, "start": start, "stop": start + 2 * d - 1, "reverse": False, "refocus": refocus}
            names = involved_names(base)
            data_names, anc_names = names[0::2], names[1::2]
            comp_specs.append({"kind": "composite", "base": base})
            comp_specs.append({"kind": "composite", "base": base, "only_required": True})
            comp_specs.append({"kind": "composite", "base": base, "ex_readout": [data_names[0]]})
            comp_specs.append({"kind": "composite", "base": base, "ex_readout": [anc_names[0]]})
            comp_specs.append({"kind": "composite", "base": base, "ex_rotation": [data_names[-1]]})
            comp_specs.append({"kind": "composite", "base": base, "ex_rotation": [anc_names[-1]]})
            comp_specs.append({"kind": "composite", "base": base, "ex_rotation": list(data_names)})
            comp_specs.append({"kind": "composite", "base": base, "ex_gate_q": [data_names[0]]})
            comp_specs.append({"kind": "composite", "base": base, "ex_gate_q": [anc_names[0]], "only_required": True})
            comp_specs.append({"kind": "composite", "base": base, "ex_gate_e": [[anc_names[0], data_names[0]]]})
            comp_specs.append({"kind": "composite", "base": base, "ex_gate_e": [[names[i + 1], names[i]] if i % 2 == 0 else [names[i], names[i + 1]] for i in range(len(names) - 1)]})
            # a longer chain of the same layout leads the gates / the readout
            chain = LAYOUTS[lname]
            lo, hi = max(0, start - 2), min(len(chain), start + 2 * d - 1 + 2)
            lead = {"kind": "layout", "layout": lname, "start": lo, "stop": hi, "reverse": False, "refocus": refocus}
            comp_specs.append({"kind": "composite", "base": base, "leading_gate": lead})
            comp_specs.append({"kind": "composite", "base": base, "leading_readout": lead})
            comp_specs.append({"kind": "composite", "base": base, "leading_gate": lead, "leading_readout": lead, "only_required": True})
    for spec in comp_specs:
        d = (len(involved_names(spec)) + 1) // 2
        for cyc in ((1, 4) if quick else (0, 1, 2, 3, 4, 6)):
            for ctor in ("rep", "simplified"):
                cases.append({"ctor": ctor, "desc": spec, "data": ["ONE"] + ["ZERO"] * (d - 1), "anc": None, "cycles": cyc})
                n3 += 1
    info.append(f"CompositeRepetitionCodeDescription around {2 if quick else 4} layout sub-chains x refocusing on/off: plain, only-required parking, "
                f"readout / rotation / gate-qubit / gate-edge exclusions, a longer leading gate / readout description ({len(comp_specs)} descriptions), "
                f"cycles {'1,4' if quick else '0..4,6'}: {n3} inputs")

    # (4) multi-round constructor (unrolls and flattens every round circuit itself, then appends a QUTRIT calibration)
    n4 = 0
    lists = [p for r in (1, 2, 3) for p in itertools.permutations(range(0, 6), r)]
    if quick:
        lists = [p for p in lists if len(p) == 1] + rng.sample([p for p in lists if len(p) == 2 and max(p) <= 4], 6) + rng.sample([p for p in lists if len(p) == 3 and max(p) <= 3], 2)
    else:
        lists = [p for p in lists if len(p) <= 2] + rng.sample([p for p in lists if len(p) == 3], 30)
    mspecs = [{"kind": "chain", "length": 3, "refocus": True}, {"kind": "chain", "length": 5, "refocus": False},
              {"kind": "layout", "layout": "Repetition9Code", "start": 8, "stop": 13, "reverse": False, "refocus": True},
              {"kind": "chain", "length": 5, "refocus": True}]
    for i, p in enumerate(lists):
        for spec in ([mspecs[i % 4]] if quick else mspecs):
            d = (len(involved_names(spec)) + 1) // 2
            cases.append({"ctor": "multi", "desc": spec, "data": ["ONE"] * d, "anc": None, "rounds": list(p)})
            n4 += 1
    info.append(f"multi-round constructor: rounds lists of <= 3 distinct values <= 5 ({len(lists)} lists{' (sampled)' if quick else ''}) on chains d=2,3 and a Surface-17 sub-chain: {n4} inputs")

    # (5) state calibration: every calibration type x 1..6 (thorough: ..9) qubits x index maps (identity, reversed, sparse)
    n5 = 0
    for ty in ("QUBIT", "QUTRIT", "QUQUAD"):
        for n in (range(1, 7) if quick else range(1, 10)):
            for variant in ("identity", "reversed", "sparse"):
                names = CHAIN17[:n]
                idx = list(range(n)) if variant == "identity" else (list(reversed(range(n))) if variant == "reversed" else [3 * i + 1 for i in range(n)])
                cases.append({"ctor": "cal", "type": ty, "names": names, "indices": idx})
                n5 += 1
    info.append(f"construct_calibration_circuit: types QUBIT / QUTRIT / QUQUAD x {'1..6' if quick else '1..9'} qubits x index map identity / reversed / sparse: {n5} inputs")

    seen, uniq = set(), []
    for c in cases:
        k = canon(c)
        if k not in seen:
            seen.add(k)
            uniq.append(c)
    return uniq, info


# ------------------------------------------------------------------------------------------------
# Probes (assumptions of the harness itself)
# ------------------------------------------------------------------------------------------------
def run_probes(res, total):
    # (a) the oracle sees an overlap / a barrier overlap / respects channels on hand-made circuits (public API only)
    from qce_circuit.language import DeclarativeCircuit
    from qce_circuit.structure.circuit_operations import Rx180, Barrier, DispersiveMeasure, Wait, CPhase
    from qce_circuit.structure.intrf_circuit_operation import RelationLink, RelationType, QubitChannel
    from qce_circuit.structure.registry_duration import FixedDurationStrategy

    def verdict(circ, table):
        S = Structure(circ)
        with durations_in_force(table):
            ev = Evaluator(S)
            v1, v2, _ = find_overlaps(S, ev, 0.0)
        return bool(v1), bool(v2)

    c = DeclarativeCircuit()
    a = c.add(Rx180(0))
    c.add(Rx180(0, relation=RelationLink(a, RelationType.JOINED_START)))
    ok1 = verdict(c, DEFAULT_TABLE) == (True, False)
    c = DeclarativeCircuit()
    a = c.add(Rx180(0))
    c.add(DispersiveMeasure(0, acquisition_strategy=c.get_acquisition_strategy(), relation=RelationLink(a, RelationType.JOINED_START)))
    ok2 = verdict(c, DEFAULT_TABLE) == (False, False)        # microwave and readout channel of one qubit may be busy together
    c = DeclarativeCircuit()
    a = c.add(DispersiveMeasure(0, acquisition_strategy=c.get_acquisition_strategy()))
    b = Barrier([0, 1])
    b.relation = RelationLink(a, RelationType.JOINED_START)
    c.add(b)
    ok3 = verdict(c, DEFAULT_TABLE) == (False, True)
    c = DeclarativeCircuit()
    a = c.add(Rx180(0))
    c.add(Barrier([0, 1]))
    c.add(CPhase(0, 1))
    c.add(Wait(1, duration_strategy=FixedDurationStrategy(0.0)))
    ok4 = verdict(c, DEFAULT_TABLE) == (False, False) and verdict(c, [1.0 / 64, 1024.0, 3.0, 1.0]) == (False, False)
    c = DeclarativeCircuit()
    a = c.add(Rx180(0))
    c.add(Wait(0, qubit_channel=QubitChannel.ALL, duration_strategy=FixedDurationStrategy(1.0), relation=RelationLink(a, RelationType.JOINED_END)))
    ok5 = verdict(c, [1.0, 2.0, 1.0, 1.0]) == (True, False) and verdict(c, [1.0, 1.0, 1.0, 1.0]) == (True, False)
    res.probes.append({"assumption": "the own overlap oracle flags two simultaneous microwave gates (clause 1), a barrier started with a measurement "
                                     "(clause 2), a Wait on ALL joined to a gate; it accepts simultaneous microwave + readout on one qubit and a "
                                     "plainly sequenced circuit under default and extreme durations", "ok": bool(ok1 and ok2 and ok3 and ok4 and ok5)})
    # (b) chains written out above are chains of the layouts
    okc = True
    for lname, chain in LAYOUTS.items():
        lay = _layout(lname)
        edges = set()
        for i in range(lay.gate_sequence_count):
            for g in lay.get_gate_sequence_at_index(index=i).gate_operations:
                edges.add(frozenset(q.id for q in g.identifier.qubit_ids))
        for x, y in zip(chain, chain[1:]):
            if frozenset((x, y)) not in edges:
                okc = False
    res.probes.append({"assumption": "every neighbouring pair of the written-out chains CHAIN17 / CHAIN9 is a gate edge of the respective Surface-17 layout", "ok": okc})
    p = total.probe
    res.probes.append({"assumption": f"the own pointer walk finds exactly the operation objects that circuit.operations lists ({total.structures} structures, "
                                     f"{p['same_ops_bad']} mismatches)", "ok": p["same_ops_bad"] == 0 and total.structures > 0})
    res.probes.append({"assumption": f"the configured table reaches every leaf operation: reported length == table[key] for GlobalDurationStrategy, the constant for "
                                     f"FixedDurationStrategy, max(0,(readout-microwave)/2) for GlobalDecouplingWaitDurationStrategy "
                                     f"({total.n['leafdur']} operation-lengths, {p['leafdur_bad']} mismatches{'' if not p['leafdur_first'] else ', first: ' + json.dumps(p['leafdur_first'])})",
                       "ok": p["leafdur_bad"] == 0 and total.n["leafdur"] > 0})
    res.probes.append({"assumption": f"no leaf operation has a negative length under any table ({p['neg_len']} seen)", "ok": p["neg_len"] == 0})
    res.probes.append({"assumption": "dyadic tables (multiples of 2^-12, <= 2^14) are compared exactly (tolerance 0); other tables with 1e-9 x latest end", "ok": True})


# ------------------------------------------------------------------------------------------------
# Main / replay
# ------------------------------------------------------------------------------------------------
def _init_worker(deadline):
    _DEADLINE[0] = deadline
    import qce_circuit.library.repetition_code.circuit_constructors  # noqa: F401


def main(argv=None):
    args = common.parse_args(argv)
    if args.replay:
        return replay(args.replay)
    res = common.Result(PROP)
    tier = "thorough" if args.tier == "thorough" else "quick"
    cases, info = make_cases(tier, args.seed)
    jobs = [{"case": c, "tier": tier, "seed": args.seed, "yaml": (i % 25 == 0), "after_read": (tier != "quick" or i % 3 == 0)} for i, c in enumerate(cases)]
    random.Random(args.seed).shuffle(jobs)      # a representative mix is evaluated first if the time budget cuts the run; smallest witness kept on merge
    deadline = time.time() + BUDGET[tier]
    total = Stats()
    nproc = min(16, os.cpu_count() or 1)
    ctx = mp.get_context("fork")
    with ctx.Pool(nproc, initializer=_init_worker, initargs=(deadline,)) as pool:
        for st in pool.imap_unordered(run_job, jobs, chunksize=1):
            total.merge(st)

    n = total.n
    res.evaluations = n["overlap"] + n["barrier"] + n["reported"]
    res.distinct = total.distinct
    res.exhaustive = False
    res.rule = ("input = (constructor input, duration table). Constructor inputs: " + "; ".join(info) + ". Each input is built through the public "
                "constructor and evaluated in three phases: as constructed (read through circuit.operations), after apply_modifiers on a fresh build, and "
                + ("apply_modifiers after the as-constructed read (quick tier: every third input)." if tier == "quick" else "apply_modifiers after the as-constructed read.") + " Duration tables [readout, microwave, flux, reset] put in force with "
                f"temporary_override_get_registry_at: {len(CORE_TABLES)} fixed tables (defaults, all equal, below/at/above the barrier length 0.5, readout < / == / > "
                "microwave, ratios 2^-16 .. 2^16, a nanosecond table, two non-dyadic tables), "
                + ("the readout x microwave grid over {1/64,1/4,1/2,1,2,3,64} with rotating flux / reset (98 tables)" if tier != "quick" else "8 sampled tables of the readout x microwave grid over {1/64,1/4,1/2,1,2,3,64}")
                + f", {N_RANDOM[tier]} seeded random dyadic tables (m x 2^e, m in 1..15, e in -6..5; 30 % forced to readout <= microwave) drawn per structure, "
                "every 25th input additionally without override (repository YAML). Non-trivial = at least two operations occupy a common qubit channel; "
                "distinct = distinct (constructor input, table) pairs.")
    res.samples = total.samples[:6]
    bound = f"{len(cases)} constructor inputs, {total.structures} real circuit objects (3 phases), tier {tier}, seed {args.seed}, largest circuit {total.probe['max_ops']} operations"
    res.stand_ins = [
        {"function": "construct_repetition_code_circuit / construct_repetition_code_circuit_simplified / construct_repetition_code_multi_round_circuit / construct_calibration_circuit",
         "contract": "clause 1: " + CLAUSE1 + " (times: own evaluation of the relation equations over the link fields; channel matching rewritten)",
         "bound": bound + f"; {n['ops']} operation placements, {n['pairs']} pairs intersecting in time on one qubit examined for a common channel", "evaluations": n["overlap"]},
        {"function": "get_circuit_qec_round / get_circuit_qec_round_with_dynamical_decoupling / get_circuit_initialize / constructors (Barrier insertion between layers)",
         "contract": "clause 2: " + CLAUSE2, "bound": bound, "evaluations": n["barrier"]},
        {"function": "GlobalDecouplingWaitDurationStrategy.get_variable_duration / temporary_override_get_registry_at",
         "contract": "clause 'whatever the configured durations are': clauses 1 and 2 are evaluated with the length every real operation reports under each table "
                     "(decoupling wait included), tables as in `rule`",
         "bound": bound + f"; evaluations = distinct (input, table) pairs", "evaluations": total.distinct},
        {"function": "DeclarativeCircuit.apply_modifiers (CircuitCompositeOperation.repeat / extend)",
         "contract": "clauses 'as constructed' and 'after its repetitions are unrolled': clauses 1 and 2 in the phases built / unrolled / unrolled_after_read",
         "bound": bound + f"; clause evaluations as constructed {n['built']}, unrolled (fresh build) {n['unrolled']}, unrolled after the as-constructed read {n['unrolled_after_read']}"
                          " (these are the evaluations of the first two rows split by phase; evaluations = the unrolled ones)",
         "evaluations": n["unrolled"] + n["unrolled_after_read"]},
        {"function": "ICircuitOperation.start_time / duration (RelationLink.get_start_time, MultiRelationLink.get_start_time, CircuitCompositeOperation.duration)",
         "contract": CLAUSE_R + " (every operation and sub-circuit)", "bound": bound + f"; first {N_REPORTED[tier]} tables of every structure (half of that above 120 operations, a quarter above 250; {1 if tier == 'quick' else 2} for unrolled_after_read)",
         "evaluations": n["reported"]},
    ]
    run_probes(res, total)
    for k in sorted(total.failures):
        plain = subsumed_by(k)
        if plain is not None and plain in total.failures:
            f = total.failures.pop(k)
            total.failures[plain]["observed"].setdefault("same_class_also_on_modified_descriptions", []).append(
                {"description": description_class(f["witness"]["case"]["desc"]), "input": f["witness"]["case"], "table": f["witness"]["table"]})
    for f in total.failures.values():
        f.pop("_size", None)
    res.failures = total.failures
    res.skipped = total.skipped
    out = res.write(args.out)
    print(f"{PROP} bounded: {out['evaluations']} evaluations on {total.structures} circuits of {len(cases)} inputs, {out['distinct_nontrivial']} distinct non-trivial, "
          f"{len(out['failures'])} failure keys, skipped {out['skipped']}, {out['wall_s']} s")
    for f in out["failures"]:
        print("  FAILURE", f["key"])
    for p in out["probes"]:
        if not p["ok"]:
            print("  PROBE NOT OK:", p["assumption"])
    harness = [k for k in out["skipped"] if k.startswith("harness error")]
    if harness or total.structures == 0:
        print("HARNESS ERROR:", harness or "no circuit was evaluated")
        return 2
    return 0


def replay(path):
    rec, a = common.load_replay(path)
    key = a.get("key") or rec.get("key")
    case, phase, table = a["case"], a["phase"], a.get("table")
    print(f"replaying {key}")
    print(" constructor input:", json.dumps(case))
    print(" phase:", phase, " durations [readout, microwave, flux, reset]:", table if table is not None else "repository configuration")
    stats = Stats()
    built_keys = None
    if phase == "built":
        circuit = make_phase(case, "built")
    else:
        # the key of an unrolled phase says whether the circuit as constructed already shows the class
        built = make_phase(case, "built")
        built_keys = check_structure(built, case, "built", [table], Stats(), 1)
        circuit = make_phase(case, phase, built if phase == "unrolled_after_read" else None)
    raised = check_structure(circuit, case, phase, [table], stats, 1, built_keys, verbose=True)
    print(" failure keys now:", sorted(raised))
    if key in stats.failures:
        f = stats.failures[key]
        print(" observed:", json.dumps(f["observed"], default=str))
        print(" required:", json.dumps(f["required"], default=str))
        print(f"VIOLATION property={PROP} replay={path}")
        return 1
    print(" the recorded failure does not reproduce")
    return 0


if __name__ == "__main__":
    sys.exit(main())
