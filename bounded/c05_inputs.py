"""Enumeration of the inputs (cases) of the bounded stand-in for C05.

A case = {"program": build program, "G": global durations, "pre": state of the original before it is copied,
          "mode": explicit | add | repeat, ["prefix": items of the enclosing circuit, "own_rel", "via"], ["mut": mutations]}
"""
import hashlib
import itertools
import json
import random

from bounded.c05_core import SQ_GLOBAL, SQ_FIXED, TQ_GLOBAL, ALL_KINDS

RULE = ("Inputs are JSON build programs executed through the public API (DeclarativeCircuit.add of every operation class of structure/circuit_operations.py and "
        "addon_stim/circuit_operations.py; relations none / FOLLOWED_BY / JOINED_START / JOINED_END to earlier items of the same circuit, the same link INSTANCE "
        "shared by two operations, user-made multi links; durations fixed {0,1,2,5,..} / DurationRegistry / dynamic / global; channels ALL / MICROWAVE / FLUX / READOUT; "
        "acquisition tags; nested sub-circuits, depth <= 2, repetitions 0..3 fixed or from a RepetitionRegistry, added as circuit or as structure) x state of the "
        "original before the copy (fresh / operations read once / apply_modifiers / both) x copy mode (explicit circuit_structure.copy(); add to an empty circuit; add to a "
        "circuit with earlier operations, optionally with an own relation of the added circuit; repetition by apply_modifiers) x global durations (repository file, "
        "overrides A and B through temporary_override_get_registry_at) x a mutation sequence on one side.")

MUT_ORIG = ["add_wait", "add_rel", "add_measure", "add_new_qubit", "add_sub", "modifiers", "flatten", "inner_add", "add_barrier", "extend", "repeat2"]
MUT_COPY = MUT_ORIG


def op(k, q, rel=None, **kw):
    it = {"k": k, "q": list(q) if isinstance(q, (list, tuple)) else [q]}
    if rel is not None:
        it["rel"] = list(rel) if isinstance(rel, (list, tuple)) else rel
    it.update(kw)
    return it


def sub(items, reps=1, rel=None, **kw):
    it = {"k": "sub", "reps": reps, "items": items}
    if rel is not None:
        it["rel"] = list(rel)
    it.update(kw)
    return it


def kind_variants(k, q1, q2, qall):
    """instances of one kind such that every constructor field takes a non-default value somewhere"""
    if k in SQ_GLOBAL:
        return [op(k, q1)]
    if k == "SingleQubitOperation":
        return [op(k, q1, d=2.0), op(k, q1, d=0.0), op(k, q1, d=1.0, src="reg"), op(k, q1, d=5.0, src="dyn")]
    if k in SQ_FIXED:
        return [op(k, q1, d=2.0), op(k, q1, d=0.0), op(k, q1, d=1.0, ch="MW"), op(k, q1, d=5.0, ch="FL"), op(k, q1, d=2.0, ch="RO", src="reg"),
                op(k, q1, d=1.0, src="dyn")]
    if k in TQ_GLOBAL:
        return [op(k, [q1, q2]), op(k, [q2, q1])]
    if k == "TwoQubitOperation":
        return [op(k, [q1, q2], d=2.0), op(k, [q2, q1], d=0.0), op(k, [q1, q2], d=5.0, src="reg")]
    if k == "VirtualTwoQubitVacant":
        return [op(k, [q1, q2], d=0.0), op(k, [q1, q2], d=2.0), op(k, [q2, q1], d=0.0, ch="FL"), op(k, [q1, q2], d=2.0, ch="FL"),
                op(k, [q1, q2], d=1.0, ch="MW", src="reg")]
    if k == "DispersiveMeasure":
        return [op(k, q1), op(k, q1, tag="final"), op(k, q1, tag="cal", acq="top")]
    if k == "Barrier":
        return [op(k, qall), op(k, [q1])]
    if k == "CoordinateShiftOperation":
        return [op(k, qall, ts=1, ss=2), op(k, [q1])]
    if k == "DetectorOperation":
        return [op(k, q1), op(k, q1, args=[3, 1, None, None, None]), op(k, q1, args=[3, 1, None, 2, None]), op(k, q1, args=[5, 2, 3, None, None]),
                op(k, q1, args=[5, 2, 3, 4, None]), op(k, q1, args=[7, 2, 3, 4, 6])]
    if k == "LogicalObservableOperation":
        return [op(k, q1), op(k, q1, args=[3, 2])]
    raise ValueError(k)


def mutation_for(case, seed):
    h = hashlib.blake2b((json.dumps(case, sort_keys=True) + str(seed)).encode(), digest_size=8).digest()
    rng = random.Random(h)
    side = rng.choice(["orig", "copy"])
    pool = MUT_ORIG if side == "orig" else MUT_COPY
    return {"side": side, "seq": [rng.choice(pool) for _ in range(rng.choice([1, 1, 2, 3]))]}


PREFIXES = [[], [op("Wait", 0, d=3.0)], [op("Rx180", 0), op("DispersiveMeasure", 1), op("Wait", 7, d=1.0)]]


def variants(program, seed, which="all", G="file", reps=(2,)):
    """the copy modes x pre-states of one program"""
    out = []
    pres = ["fresh", "read"]
    for pre in pres:
        out.append({"program": program, "G": G, "pre": pre, "mode": "explicit"})
        out.append({"program": program, "G": G, "pre": pre, "mode": "add", "prefix": PREFIXES[0]})
        out.append({"program": program, "G": G, "pre": pre, "mode": "add", "prefix": PREFIXES[1], "via": "structure"})
        for r in reps:
            out.append({"program": dict(program, reps=r), "G": G, "pre": pre, "mode": "repeat"})
    if which == "all":
        out.append({"program": program, "G": G, "pre": "mod", "mode": "explicit"})
        out.append({"program": program, "G": G, "pre": "modread", "mode": "add", "prefix": PREFIXES[2]})
        for t in "FSE":
            out.append({"program": program, "G": G, "pre": "fresh", "mode": "add", "prefix": PREFIXES[2], "own_rel": [0, t]})
    elif isinstance(which, int):
        h = int.from_bytes(hashlib.blake2b((json.dumps(program, sort_keys=True) + str(seed)).encode(), digest_size=4).digest(), "big")
        out = [out[(h + i * 3) % len(out)] for i in range(which)]
    for c in out:
        if c["mode"] != "repeat":
            c["mut"] = mutation_for(c, seed)
    return out


# ------------------------------------------------------------------------------------------------
# F1: every operation class as the related operation, every class as the reference, every relation type
# ------------------------------------------------------------------------------------------------
def ref_instances():
    refs = [kind_variants(k, 0, 1, [0, 1, 2])[-1 if k in ("Wait", "VirtualTwoQubitVacant") else 0] for k in ALL_KINDS]
    refs.append(sub([op("Wait", 0, d=2.0), op("Rx180", 1)], 2))
    return refs


def family_pairs(ref_kinds=None):
    progs = []
    for ref in ref_instances():
        if ref_kinds is not None and ref["k"] not in ref_kinds:
            continue
        targets = [v for k in ALL_KINDS for v in kind_variants(k, 1, 0, [0, 1])] + [sub([op("Wait", 1, d=1.0), op("DispersiveMeasure", 1)], 2),
                                                                                   sub([op("Barrier", [0, 1]), op("Rx90", 0)], 1)]
        for tgt in targets:
            for rel in [None] + [[i, t] for i in (0, 1) for t in "FSE"]:
                it = dict(tgt)
                if rel:
                    it["rel"] = rel
                # filler shares a channel with everything: the target is not simply the latest operation on its channel
                progs.append({"items": [dict(ref), op("Wait", 0, d=5.0), it, op("Barrier", [0, 1, 2]) if tgt["k"] != "Barrier" else op("Wait", 1, d=0.0)]})
    return progs


# ------------------------------------------------------------------------------------------------
# F2: exhaustive small programs over a reduced alphabet
# ------------------------------------------------------------------------------------------------
def alphabet(name):
    waits = [op("Wait", 0, d=float(d), ch=ch) for d in (0, 1, 2, 5) for ch in ("ALL", "MW", "FL")]
    rest = [op("Rx180", 0), op("Rx180", 1), op("CPhase", [0, 1]), op("DispersiveMeasure", 0), op("Barrier", [0, 1])]
    if name == "full":
        return waits + rest
    if name == "mid":
        return [op("Wait", 0, d=0.0), op("Wait", 0, d=2.0), op("Wait", 0, d=5.0), op("Wait", 0, d=2.0, ch="FL"), op("Wait", 2, d=1.0, ch="MW")] + rest
    if name == "small":
        return [op("Wait", 0, d=5.0), op("Wait", 1, d=2.0, ch="FL"), op("Rx180", 0), op("CPhase", [0, 1]), op("DispersiveMeasure", 0), op("Barrier", [0, 1])]
    raise ValueError(name)


def shapes(n_leaves, depth):
    """nested lists: 'x' = operation slot, list = sub-circuit; exactly n_leaves slots, nesting <= depth, no empty sub-circuit"""
    if n_leaves == 0:
        return [[]]
    out = []
    # first element is a leaf
    for rest in shapes(n_leaves - 1, depth):
        out.append(["x"] + rest)
    # first element is a sub-circuit with k leaves
    if depth > 0:
        for k in range(1, n_leaves + 1):
            for inner in shapes(k, depth - 1):
                if not inner:
                    continue
                for rest in shapes(n_leaves - k, depth):
                    out.append([inner] + rest)
    return out


def fill_shape(shape, alpha, reps_choices):
    """all programs of a shape: letters for slots, repetitions for sub-circuits, relation of every element to every earlier sibling"""
    def level(elems):
        # returns list of item lists
        if not elems:
            return [[]]
        results = [[]]
        for pos, e in enumerate(elems):
            if e == "x":
                cands = [dict(a) for a in alpha]
            else:
                cands = [sub(inner, r) for inner in level(e) for r in reps_choices]
            rels = [None] + [[j, t] for j in range(pos) for t in "FSE"]
            new = []
            for pre in results:
                for c in cands:
                    for rel in rels:
                        it = dict(c)
                        if rel:
                            it["rel"] = rel
                        new.append(pre + [it])
            results = new
        return results
    return [{"items": items} for items in level(shape)]


# ------------------------------------------------------------------------------------------------
# F4: value-equal operations (dictionary-key collisions in the transfer lookup)
# ------------------------------------------------------------------------------------------------
def family_twins():
    progs = []
    # (a) two equal operations constructed with one link instance, a third related to one of them
    for k, kw in (("Rx180", {}), ("Wait", {"d": 2.0}), ("CPhase", {}), ("VirtualPark", {}), ("DetectorOperation", {"args": [3, 1, None, None, None]})):
        q = [1, 2] if k == "CPhase" else [1]
        for t0 in "FSE":
            for which in (1, 2):
                for t in "FSE":
                    progs.append({"items": [op("Wait", 0, d=5.0), op(k, q, rel=[0, t0], **kw), op(k, q, link_of=1, **kw),
                                            op("Ry90", 3, rel=[which, t]), op("Wait", 3, d=1.0)]})
    # (b) relation-less first-level sub-circuits (equal once a link is handed down / shared by extend), something related to the first one
    bodies = [([op("Wait", 0, d=5.0)], [op("Wait", 1, d=1.0)]), ([op("Rx180", 0), op("DispersiveMeasure", 0)], [op("Wait", 1, d=0.0)]),
              ([op("CPhase", [0, 2])], [op("Barrier", [1])])]
    for a, b in bodies:
        for t in "FSE":
            for q in (0, 3):
                tail = op("Rx180", q, rel=[0, t])
                progs.append({"items": [sub([dict(i) for i in a]), sub([dict(i) for i in b]), tail]})
                progs.append({"items": [sub([sub([dict(i) for i in a]), sub([dict(i) for i in b]), dict(tail)], 2)]})
                progs.append({"items": [op("Reset", 5), sub([sub([dict(i) for i in a]), sub([dict(i) for i in b]), dict(tail)], 1, rel=[0, "S"])]})
                progs.append({"items": [sub([dict(i) for i in a], 2), sub([dict(i) for i in b], 2), tail, op("Ry90", 1, rel=[1, t])]})
    # (b'') three default-constructed parallel sub-circuits of different durations, a dependent operation referring to a non-last one (no pre-read needed
    #       for the fresh / explicit / add / repeat variants), also one nesting level down
    three = [sub([op("Wait", 0, d=1.0)]), sub([op("Wait", 1, d=3.0)]), sub([op("Wait", 2, d=5.0), op("Rx180", 2)])]
    for ref in (0, 1):
        for t in "FSE":
            for q in (ref, 3):
                dep = op("Rx180", q, rel=[ref, t])
                progs.append({"items": [dict(i) for i in three] + [dep]})
                progs.append({"items": [dict(i) for i in three] + [dep, op("DispersiveMeasure", q)]})
                progs.append({"items": [op("Reset", 4), sub([dict(i) for i in three] + [dict(dep)], 1)]})
    # (b') measurements counted by the top-level circuit, next to a relation-less first-level sub-circuit (value-equal to the circuit once it was read)
    for inner in ([op("DispersiveMeasure", 0, acq="top")], [op("Rx180", 1), op("DispersiveMeasure", 1, tag="a", acq="top")]):
        progs.append({"items": [sub([dict(i) for i in inner]), op("DispersiveMeasure", 0)]})
        progs.append({"items": [op("DispersiveMeasure", 2), sub([dict(i) for i in inner]), op("DispersiveMeasure", 0, tag="final")]})
    # (d) repeated blocks whose last operations sit at different depths (multi links with references listed later), copied after unrolling
    for body in ([op("DispersiveMeasure", 0), op("Wait", 2, d=1.0, ch="MW"), op("Wait", 0, d=2.0, rel=[1, "E"])],
                 [op("Wait", 0, d=1.0), op("Rx180", 1), op("Wait", 1, d=5.0, src="reg"), op("Ry90", 2)],
                 [op("CPhase", [0, 1]), op("Wait", 2, d=0.0), op("Rx90", 2), op("Barrier", [2, 3])]):
        for r in (2, 3):
            progs.append({"items": [sub([dict(i) for i in body], r)]})
            progs.append({"items": [op("Reset", 0), sub([dict(i) for i in body], r), op("DispersiveMeasure", 1)]})
    # (e) an operation added to a nested sub-circuit after nesting makes it share a channel with an earlier relation-less sibling
    for first in (op("VirtualEmpty", 2, d=5.0, ch="FL"), op("Wait", 2, d=5.0, ch="RO"), op("VirtualPark", 2)):
        for extra in (op("Wait", 2, d=4.0), op("Reset", 2), op("Barrier", [2, 3])):
            progs.append({"items": [dict(first), sub([op("Rx180ef", 2)], 1, then=[dict(extra)]), op("Ry90", 3)]})
            progs.append({"items": [dict(first), sub([op("Rx180ef", 2), op("Rx90", 2)], 2, then=[dict(extra)])]})
    # (c) user-made multi links (group / type different from the defaults), references in both orders
    for g in ("LATEST", "EARLIEST"):
        for t in "FSE":
            for order in ([0, 1], [1, 0], [1], [0, 1, 2]):
                progs.append({"items": [op("Wait", 0, d=5.0), op("Wait", 1, d=2.0), op("Rx90", 2),
                                        op("Ry90", 3, rel={"multi": order, "t": t, "g": g}), op("Rx180", 3)]})
                progs.append({"items": [op("Wait", 0, d=1.0), op("Rx180", 1), op("Rx180", 2), sub([op("CPhase", [0, 1])], 2, rel=[0, "F"]),
                                        op("Barrier", [0, 3], rel={"multi": order, "t": t, "g": g})]})
    return progs


def family_edge():
    return [
        {"items": []},
        {"items": [sub([])]},
        {"items": [sub([], 2), op("Rx180", 0)]},
        {"items": [op("Rx180", 0), sub([sub([], 3)], 2)]},
        {"items": [sub([op("Rx180", 0)], 0), op("Ry90", 0)]},
        {"items": [op("CPhase", [6, 6])]},
        {"items": [op("Barrier", [])]},
        {"items": [op("Wait", 0, d=0.0), op("Wait", 0, d=0.0), op("Wait", 0, d=0.0, rel=[0, "E"])]},
        {"items": [op("Rx180", 0), op("Wait", 1, d=5.0, rel=[0, "E"]), op("DispersiveMeasure", 1, rel=[1, "S"]), op("Reset", 2, rel=[1, "E"])]},
        {"items": [op("Wait", 0, d=10.0), op("Rx180", 1, rel=[0, "S"]), op("Rx180", 1)]},          # last-ending operation is not a leaf
        {"items": [sub([op("Wait", 0, d=10.0), op("Rx180", 1, rel=[0, "S"])], 3), op("DispersiveMeasure", 0)]},
        {"items": [sub([op("Rx180", 0), op("Wait", 1, d=5.0, rel=[0, "E"])], 2, read=True), op("Ry90", 1)]},
        {"items": [sub([op("DispersiveMeasure", 0, tag="a"), sub([op("DispersiveMeasure", 0, tag="b", acq="top"), op("DispersiveMeasure", 1)], 2)], 2,
                       rsrc="reg"), op("DispersiveMeasure", 0)]},
    ]


def family_library(thorough):
    progs = [{"lib": "repcode_simplified", "states": "01", "cycles": 2}, {"lib": "repcode", "states": "01", "cycles": 2}]
    if thorough:
        progs += [{"lib": "repcode", "states": s, "cycles": c} for s in ("010", "1+0") for c in (0, 1, 3, 5)]
        progs += [{"lib": "repcode_simplified", "states": "010", "cycles": c} for c in (1, 3, 6)]
    return progs


# ------------------------------------------------------------------------------------------------
# F3: random programs over all kinds
# ------------------------------------------------------------------------------------------------
def random_program(rng, max_items=6):
    pool = rng.choice([[0, 1, 2], [2, 7], [1, 4, 0, 6], [0, 1]])

    def items(depth, n):
        out = []
        for _ in range(n):
            rel = None
            singles = [i for i, it in enumerate(out) if isinstance(it.get("rel"), list) or "link_of" in it]
            r = rng.random()
            if out and r < 0.45:
                rel = [rng.randrange(len(out)), rng.choice("FSE")]
            elif out and r < 0.52:
                rel = {"multi": rng.sample(range(len(out)), rng.randint(1, min(3, len(out)))), "t": rng.choice("FSE"), "g": rng.choice(["LATEST", "EARLIEST"])}
            elif singles and r < 0.62:
                j = rng.choice(singles)
                if rng.random() < 0.6 and out[j]["k"] != "sub":
                    twin = {k: v for k, v in out[j].items() if k not in ("rel", "link_of")}
                else:
                    k = rng.choice(ALL_KINDS)
                    q1 = rng.choice(pool)
                    twin = dict(rng.choice(kind_variants(k, q1, rng.choice([q for q in pool if q != q1]), rng.sample(pool, rng.randint(1, len(pool))))))
                twin["link_of"] = j
                out.append(twin)
                continue
            if depth < 2 and rng.random() < 0.25:
                kw = {}
                if rng.random() < 0.2:
                    kw["rsrc"] = "reg"
                if rng.random() < 0.2:
                    kw["via"] = "structure"
                if rng.random() < 0.2:
                    kw["read"] = True
                out.append(sub(items(depth + 1, rng.randint(1, 3)), rng.choice([1, 1, 2, 2, 3, 0]), rel if isinstance(rel, list) else None, **kw))
                continue
            k = rng.choice(ALL_KINDS)
            q1 = rng.choice(pool)
            q2 = rng.choice([q for q in pool if q != q1])
            inst = dict(rng.choice(kind_variants(k, q1, q2, rng.sample(pool, rng.randint(1, len(pool))))))
            if rel:
                inst["rel"] = rel
            out.append(inst)
        return out
    return {"items": items(0, rng.randint(2, max_items))}


def random_case(rng, seed):
    program = random_program(rng)
    mode = rng.choice(["explicit", "add", "add", "repeat"])
    case = {"program": program, "G": rng.choice(["file", "A", "B"]), "pre": rng.choice(["fresh", "fresh", "read", "mod", "modread"]), "mode": mode}
    if mode == "repeat":
        case["program"] = dict(program, reps=rng.choice([2, 3]), **({"rsrc": "reg"} if rng.random() < 0.2 else {}))
        case["pre"] = rng.choice(["fresh", "read"])
    if mode == "add":
        case["prefix"] = rng.choice(PREFIXES)
        if case["prefix"] and rng.random() < 0.3:
            case["own_rel"] = [rng.randrange(len(case["prefix"])), rng.choice("FSE")]
        if rng.random() < 0.3:
            case["via"] = "structure"
    if mode != "repeat":
        case["mut"] = mutation_for(case, seed)
    return case


# ------------------------------------------------------------------------------------------------
def make_cases(tier, seed):
    thorough = tier == "thorough"
    rng = random.Random(seed * 104729 + (1 if thorough else 0))
    fam, complete = [], []

    def add(name, cases):
        fam.append((name, cases))

    # F1
    progs = family_pairs(None if thorough else {"Rx180", "Wait", "CPhase", "DispersiveMeasure", "Barrier", "sub", "VirtualTwoQubitVacant"})
    f1 = [c for p in progs for c in variants(p, seed, which="all" if thorough else 2)]
    add(f"F1 pairs (reference kind x related kind-instance x none/F/S/E to the reference or to a filler): {len(progs)} programs", f1)
    complete.append("F1: every operation class (all constructor-field variants) related by none / FOLLOWED_BY / JOINED_START / JOINED_END to " +
                    ("every class as reference" if thorough else "7 reference kinds") + (", all 13 copy-mode x pre-state variants" if thorough else ", 2 variants each"))
    # F2
    e1 = [p for n in (1, 2) for p in fill_shape(["x"] * n, alphabet("full"), [1])]
    f2 = [c for p in e1 for c in variants(p, seed, which="modes" if thorough else 4)]
    e2 = fill_shape(["x"] * 3, alphabet("mid" if thorough else "small"), [1])
    f2 += [c for p in e2 for c in variants(p, seed, which=2 if thorough else 1)]
    nested = [s for n in (1, 2, 3) for s in shapes(n, 2) if any(isinstance(e, list) for e in s)]
    e3 = []
    for s in nested:
        nleaves = json.dumps(s).count('"x"')
        alpha = alphabet("small")[:4] if nleaves == 3 else alphabet("mid")
        e3.extend(fill_shape(s, alpha, (1, 2, 3) if thorough and nleaves < 3 else (1, 2)))
    cap = 80000 if thorough else 6000
    if len(e3) > cap:
        n_all = len(e3)
        step = n_all / float(cap)
        e3 = [e3[int(i * step)] for i in range(cap)]
        nested_note = f"nested shapes (<= 3 operations, depth <= 2, {n_all} programs): evenly spaced sample of {cap}"
    else:
        nested_note = f"all {len(nested)} nested shapes with <= 3 operations, depth <= 2"
    f2 += [c for p in e3 for c in variants(p, seed, which=1)]
    add(f"F2 small programs: {len(e1)} flat <=2 ops (17-letter alphabet), {len(e2)} flat 3 ops, {len(e3)} nested", f2)
    complete.append(f"F2: all flat programs of <= 2 operations over the 17-letter alphabet (Wait d in {{0,1,2,5}} x ALL/MICROWAVE/FLUX, Rx180 on 2 qubits, CPhase, "
                    f"measurement, barrier) x every relation type to every earlier item x {'8' if thorough else '4'} variants; all flat programs of 3 operations over the "
                    f"{'10' if thorough else '6'}-letter alphabet x every relation to every earlier item ({'2 variants' if thorough else '1 variant'} each); {nested_note}")
    # F4, edge, library
    tw = family_twins()
    add(f"F4 value-equal operations / sub-circuits / user multi links: {len(tw)} programs", [c for p in tw for c in variants(p, seed, which="all", reps=(2, 3))])
    complete.append("F4: all listed twin programs x 13 variants")
    ed = family_edge()
    add(f"F5 edge: {len(ed)} programs", [c for p in ed for G in ("file", "A") for c in variants(p, seed, which="all", G=G, reps=(0, 1, 3))])
    lb = family_library(thorough)
    add(f"F6 library repetition-code circuits: {len(lb)}", [c for p in lb for c in variants(p, seed, which="all" if thorough else 3, reps=(2,))
                                                            if not (c["mode"] == "repeat")])
    # F3 random
    nrand = 80000 if thorough else 5000
    add(f"F3 random programs (2..6 items per level, all kinds): {nrand}", [random_case(rng, seed) for _ in range(nrand)])

    # round robin over the families so that a run cut short still covers all of them
    for _, cs in fam:
        rng.shuffle(cs)
    ordered = []
    weights = [max(1, len(cs)) for _, cs in fam]
    total = sum(weights)
    iters = [iter(cs) for _, cs in fam]
    credit = [0.0] * len(fam)
    remaining = sum(len(cs) for _, cs in fam)
    while remaining:
        for i, it in enumerate(iters):
            credit[i] += weights[i] * len(fam) / total
            while credit[i] >= 1.0:
                credit[i] -= 1.0
                c = next(it, None)
                if c is None:
                    credit[i] = 0.0
                    break
                ordered.append(c)
                remaining -= 1
    summary = [f"{name}: {len(cs)} cases" for name, cs in fam]
    return ordered, summary, complete
