#!/usr/bin/env python
"""Bounded run-time stand-in for property C18 (drawing shows the schedule and leaves the circuit alone).

Real circuits are built through the public API, really drawn with `plot_circuit` (Agg back end) and the
drawing is read back (draw components handed out by the factories, artists in the matplotlib axes, figure
size).  The oracle is an own evaluator of the relation equations over the link fields under an explicit
duration table; the library's `start_time` / `end_time` are never used as the oracle.

See bounded/README.md for the command line and the output format.
"""
import os
import sys

os.environ.setdefault("MPLBACKEND", "Agg")
os.environ.setdefault("TQDM_DISABLE", "1")

import contextlib
import hashlib
import itertools
import json
import multiprocessing as mp
import random
import time
import traceback
import warnings

sys.path.insert(0, os.path.dirname(os.path.dirname(os.path.abspath(__file__))))
from bounded import common  # noqa: E402

PROP = "C18"
EPS = 1e-9

# ------------------------------------------------------------------------------------------------
# Constants written down from the property statement / design notes (NOT read from the code under test)
# ------------------------------------------------------------------------------------------------
# the drawing's own compact durations
VIS = {"READOUT": 2.0, "MICROWAVE": 1.0, "FLUX": 1.0, "RESET": 2.0}
# global duration settings different from the drawing's own (exact binary fractions -> exact float arithmetic)
GLOBALS = {
    "file": None,  # whatever the repository's configuration file says (no override)
    "A": {"READOUT": 5.0, "MICROWAVE": 3.0, "FLUX": 4.0, "RESET": 7.0},
    "B": {"READOUT": 1.0, "MICROWAVE": 0.5, "FLUX": 0.25, "RESET": 1.5},
}
ROW_SPACING = 1.2   # documented layout: rows are 1.2 apart, blocks are 1.0 high
ROW_HEIGHT = 1.0
MARGIN = 1.0        # figure width = max(latest end, 1) + 1

SQ_GLOBAL = {"Reset": "RESET", "Identity": "MICROWAVE", "Hadamard": "MICROWAVE", "Rx180": "MICROWAVE",
             "Rx90": "MICROWAVE", "Rxm90": "MICROWAVE", "Ry180": "MICROWAVE", "Ry90": "MICROWAVE",
             "Rym90": "MICROWAVE", "Rx180ef": "MICROWAVE", "VirtualPhase": "MICROWAVE", "Rphi90": "MICROWAVE",
             "VirtualPark": "FLUX"}
SQ_FIXED = ["Wait", "SingleQubitOperation", "VirtualVacant", "VirtualEmpty"]
TQ_KINDS = ["CPhase", "VirtualTwoQubitVacant", "TwoQubitOperation", "TwoQubitVirtualPhase"]
NOT_DRAWN = {"TwoQubitOperation", "TwoQubitVirtualPhase"}   # two-qubit kinds for which no draw factory exists
ALL_KINDS = list(SQ_GLOBAL) + SQ_FIXED + TQ_KINDS + ["DispersiveMeasure", "Barrier"]

# glyph per operation kind, from the meaning of the operation names: (component class, detail)
GLYPH = {
    "Rx180": ("BlockRotation", ("X", "RAD180")), "Rx90": ("BlockRotation", ("X", "RAD90")),
    "Rxm90": ("BlockRotation", ("X", "RAD90M")), "Ry180": ("BlockRotation", ("Y", "RAD180")),
    "Ry90": ("BlockRotation", ("Y", "RAD90")), "Rym90": ("BlockRotation", ("Y", "RAD90M")),
    "Rx180ef": ("BlockRotation", ("X_EF", "RAD180")), "VirtualPhase": ("BlockRotation", ("Z", "THETA")),
    "Rphi90": ("BlockRotation", ("PHI", "RAD90")),
    "Reset": ("RectangleTextBlock", "Reset"), "Identity": ("RectangleTextBlock", "I"),
    "Hadamard": ("RectangleTextBlock", "H"), "SingleQubitOperation": ("RectangleTextBlock", "?"),
    "DispersiveMeasure": ("BlockMeasure", None), "Wait": ("HorizontalVariableIndicator", None),
    "VirtualPark": ("SquareParkBlock", None), "VirtualVacant": ("RectangleVacantBlock", None),
    "VirtualEmpty": ("RectangleBlock", None), "CPhase": ("BlockTwoQubitGate", None),
    "VirtualTwoQubitVacant": ("BlockTwoQubitVacant", None), "Barrier": ("BlockVerticalBarrier", None),
}
SQUARE_GLYPH = {"BlockRotation"}     # drawn as a unit square, the width does not encode the duration
RECT_FAMILY = {"BlockRotation", "RectangleTextBlock", "BlockMeasure", "RectangleVacantBlock", "RectangleBlock"}

CH = {"ALL": "ALL", "MW": "MICROWAVE", "FL": "FLUX", "RO": "READOUT"}
RELT = {"F": "FOLLOWED_BY", "S": "JOINED_START", "E": "JOINED_END"}


# ------------------------------------------------------------------------------------------------
# Library access (imported once, before the pool forks)
# ------------------------------------------------------------------------------------------------
class _L:
    ready = False


def L():
    if _L.ready:
        return _L
    warnings.simplefilter("ignore")
    import matplotlib
    matplotlib.use("Agg")
    import matplotlib.pyplot as plt
    import matplotlib.patches as mpatches
    from qce_circuit.language.declarative_circuit import DeclarativeCircuit
    from qce_circuit.language.intrf_declarative_circuit import InitialStateEnum
    from qce_circuit.language import InitialStateContainer
    from qce_circuit.structure import circuit_operations as co
    from qce_circuit.structure import registry_duration as rd
    from qce_circuit.structure.intrf_circuit_operation import (RelationLink, MultiRelationLink, RelationType, QubitChannel)
    from qce_circuit.structure.registry_repetition import FixedRepetitionStrategy
    from qce_circuit.visualization.visualize_circuit import display_circuit as dc
    from qce_circuit.visualization.visualize_circuit.draw_components import (
        factory_draw_components as fdc, operation_components as ocomp, multi_pivot_components as mcomp,
        annotation_components as acomp)
    _L.plt, _L.mpatches = plt, mpatches
    _L.DeclarativeCircuit, _L.InitialStateEnum, _L.InitialStateContainer = DeclarativeCircuit, InitialStateEnum, InitialStateContainer
    _L.co, _L.rd, _L.dc, _L.fdc, _L.ocomp, _L.mcomp, _L.acomp = co, rd, dc, fdc, ocomp, mcomp, acomp
    _L.RelationLink, _L.MultiRelationLink, _L.RelationType, _L.QubitChannel = RelationLink, MultiRelationLink, RelationType, QubitChannel
    _L.FixedRepetitionStrategy = FixedRepetitionStrategy
    warnings.simplefilter("ignore")   # again: the library installs its own filters at import time
    _L.ready = True
    _install_capture()
    return _L


# ------------------------------------------------------------------------------------------------
# Capture: which draw component each operation was given, which components were returned and drawn
# ------------------------------------------------------------------------------------------------
class Capture:
    def __init__(self):
        self.records = []        # (operation, component) handed out by a factory
        self.op_lists = []       # lists returned by get_operation_draw_components
        self.hl_lists = []       # lists returned by get_highlight_draw_components
        self.drawn = set()       # id() of components whose draw() ran


_CUR = [None]


def _install_capture():
    lib = _L
    # every factory in factory_draw_components
    for name in dir(lib.fdc):
        cls = getattr(lib.fdc, name)
        if isinstance(cls, type) and cls.__module__ == lib.fdc.__name__ and "construct" in cls.__dict__:
            _wrap_construct(cls)
    # every concrete draw component
    for mod in (lib.ocomp, lib.mcomp, lib.acomp):
        for name in dir(mod):
            cls = getattr(mod, name)
            if isinstance(cls, type) and cls.__module__ == mod.__name__ and "draw" in cls.__dict__:
                _wrap_draw(cls)
    vcd = lib.dc.VisualCircuitDescription
    _wrap_list(vcd, "get_operation_draw_components", "op_lists")
    _wrap_list(vcd, "get_highlight_draw_components", "hl_lists")


def _wrap_construct(cls):
    orig = cls.__dict__["construct"]

    def construct(self, operation, transform_constructor):
        comp = orig(self, operation=operation, transform_constructor=transform_constructor)
        cur = _CUR[0]
        if cur is not None:
            cur.records.append((operation, comp))
        return comp
    construct.__wrapped__ = orig
    setattr(cls, "construct", construct)


def _wrap_draw(cls):
    orig = cls.__dict__["draw"]

    def draw(self, axes):
        cur = _CUR[0]
        if cur is not None:
            cur.drawn.add(id(self))
        return orig(self, axes=axes)
    draw.__wrapped__ = orig
    setattr(cls, "draw", draw)


def _wrap_list(cls, name, slot):
    orig = cls.__dict__[name]

    def method(self):
        res = orig(self)
        cur = _CUR[0]
        if cur is not None:
            getattr(cur, slot).append(list(res))
        return res
    method.__wrapped__ = orig
    setattr(cls, name, method)


# ------------------------------------------------------------------------------------------------
# Building circuits from JSON programs
# ------------------------------------------------------------------------------------------------
def _make_op(lib, it, rel, acq):
    k, q = it["k"], it["q"]
    co, rd = lib.co, lib.rd
    kw = {}
    if rel is not None:
        kw["relation"] = rel
    if k in SQ_GLOBAL:
        return getattr(co, k)(q[0], **kw)
    if k in SQ_FIXED:
        kw["duration_strategy"] = rd.FixedDurationStrategy(duration=float(it.get("d", 0.0)))
        if k != "SingleQubitOperation":
            kw["qubit_channel"] = getattr(lib.QubitChannel, CH[it.get("ch", "ALL")])
        return getattr(co, k)(q[0], **kw)
    if k == "CPhase" or k == "TwoQubitVirtualPhase":
        return getattr(co, k)(q[0], q[1], **kw)
    if k in ("TwoQubitOperation", "VirtualTwoQubitVacant"):
        kw["duration_strategy"] = rd.FixedDurationStrategy(duration=float(it.get("d", 0.0)))
        return getattr(co, k)(q[0], q[1], **kw)
    if k == "DispersiveMeasure":
        return co.DispersiveMeasure(q[0], acquisition_strategy=acq, **kw)
    if k == "Barrier":
        op = co.Barrier(list(q))
        if rel is not None:
            op.relation_link = rel
        return op
    raise ValueError(f"unknown kind {k}")


def _build_items(lib, circ, items, acq):
    added = []
    for it in items:
        rel = None
        if it.get("rel"):
            idx, t = it["rel"]
            rel = lib.RelationLink(added[idx], getattr(lib.RelationType, RELT[t]))
        if it["k"] == "sub":
            kw = {"repetition_strategy": lib.FixedRepetitionStrategy(int(it.get("reps", 1)))}
            if rel is not None:
                kw["relation"] = rel
            sub = lib.DeclarativeCircuit(**kw)
            _build_items(lib, sub, it["items"], acq)
            added.append(circ.add(sub))
        else:
            added.append(circ.add(_make_op(lib, it, rel, acq)))
    return added


def build(program):
    lib = L()
    if "lib" in program:
        from qce_circuit.library.repetition_code.circuit_constructors import construct_repetition_code_circuit_simplified
        states = {"0": lib.InitialStateEnum.ZERO, "1": lib.InitialStateEnum.ONE, "+": lib.InitialStateEnum.PLUS}
        init = lib.InitialStateContainer.from_ordered_list([states[c] for c in program["states"]])
        circ = construct_repetition_code_circuit_simplified(initial_state=init, qec_cycles=int(program["cycles"]))
    else:
        circ = lib.DeclarativeCircuit()
        _build_items(lib, circ, program["items"], circ.get_acquisition_strategy())
    post = program.get("post", "none")
    if post in ("mod", "modflat"):
        circ = circ.apply_modifiers()
    if post == "modflat":
        circ = circ.flatten()
    return circ


def program_qubits(program):
    if "lib" in program:
        return list(range(2 * len(program["states"]) - 1))
    out = []

    def rec(items):
        for it in items:
            if it["k"] == "sub":
                rec(it["items"])
            else:
                for q in it["q"]:
                    if q not in out:
                        out.append(q)
    rec(program["items"])
    return sorted(out)


def program_stats(program):
    """static features of a program (for the non-triviality rule and witness classes)"""
    st = {"ops": 0, "rel": 0, "sub": 0, "rep": 0, "empty_rep_sub": 0}
    if "lib" in program:
        st.update(ops=10, rel=1, sub=1, rep=1 if int(program["cycles"]) != 1 else 0)
        return st

    def rec(items):
        for it in items:
            if it.get("rel"):
                st["rel"] += 1
            if it["k"] == "sub":
                st["sub"] += 1
                if int(it.get("reps", 1)) != 1:
                    st["rep"] += 1
                    if not _has_op(it["items"]):
                        st["empty_rep_sub"] += 1
                rec(it["items"])
            else:
                st["ops"] += 1
    rec(program["items"])
    return st


def _has_op(items):
    return any((it["k"] != "sub") or _has_op(it["items"]) for it in items)


# ------------------------------------------------------------------------------------------------
# The oracle: own evaluation of the relation equations under an explicit duration table
# ------------------------------------------------------------------------------------------------
def is_composite(op):
    return hasattr(op, "_circuit_graph")


def composite_nodes(comp):
    """(depth-1 nodes, leaf nodes, all nodes) by an own walk over the pointer fields"""
    graph = comp._circuit_graph
    root, end = graph._entrypoint_node, graph._endpoint_node
    depth1 = [n for n in root._outgoing_pointers if n is not end]
    leaves, allnodes, seen = [], [], set()
    frontier = list(depth1)
    while frontier:
        nxt = []
        for n in frontier:
            if id(n) in seen:
                continue
            seen.add(id(n))
            allnodes.append(n)
            succ = [m for m in n._outgoing_pointers if m is not end]
            if not succ:
                leaves.append(n)
            nxt.extend(succ)
        frontier = nxt
    return depth1, leaves, allnodes


class Evaluator:
    def __init__(self, table):
        self.T = table
        self._s, self._d = {}, {}

    def dur(self, op):
        k = id(op)
        if k in self._d:
            return self._d[k]
        if is_composite(op):
            depth1, leaves, allnodes = composite_nodes(op)
            if not depth1:
                v = 0.0
            else:
                # C04 (statement, and the library since the "fix: a composite's duration spans all contained operations"
                # commit): earliest start to latest end over EVERY node of the block
                rel = min(self.start(n.operation) for n in allnodes)
                v = 0.0
                for n in allnodes:
                    delta = self.end(n.operation) - rel
                    if delta > v:
                        v = delta
        else:
            s = op.duration_strategy
            n = type(s).__name__
            if n == "GlobalDurationStrategy":
                v = self.T[s.key.name]
            elif n == "FixedDurationStrategy":
                v = s.duration
            elif n == "RegistryDurationStrategy":
                v = s.registry._variable_durations.get(s.registry_key, s.registry._default_duration)
            elif n == "DynamicDurationStrategy":
                v = s.duration_call()
            elif n == "GlobalDecouplingWaitDurationStrategy":   # repetition-code library: half of (readout - microwave), floor 0
                v = max(0.0, 0.5 * (self.T["READOUT"] - self.T["MICROWAVE"]))
            else:
                raise TypeError(f"unknown duration strategy {n}")
        self._d[k] = v
        return v

    def _ref(self, link):
        if type(link).__name__ == "MultiRelationLink":
            refs = link._reference_nodes
            if not refs:
                return None
            latest = refs[0]
            for r in refs:
                if self.end(r) > self.end(latest):
                    latest = r
            return latest
        return link._reference_node

    def start(self, op):
        k = id(op)
        if k in self._s:
            return self._s[k]
        link = op.relation
        ref = self._ref(link)
        if ref is None:
            v = 0.0
        else:
            t = link._relation_type.name
            if t == "FOLLOWED_BY":
                v = self.end(ref)
            elif t == "JOINED_START":
                v = self.start(ref)
            elif t == "JOINED_END":
                v = self.end(ref) - self.dur(op)
            else:
                raise TypeError(t)
        self._s[k] = v
        return v

    def end(self, op):
        return self.start(op) + self.dur(op)


def depends_on_multi(op, memo=None):
    """does the start time of `op` depend on a MultiRelationLink (own walk over the link fields)"""
    memo = {} if memo is None else memo
    k = id(op)
    if k in memo:
        return memo[k]
    memo[k] = False
    res = False
    link = op.relation
    if type(link).__name__ == "MultiRelationLink":
        res = True
    else:
        ref = link._reference_node
        if ref is not None and depends_on_multi(ref, memo):
            res = True
    if not res and is_composite(op):
        res = any(depends_on_multi(n.operation, memo) for n in composite_nodes(op)[2])
    if not res and type(link).__name__ != "MultiRelationLink":
        ref = link._reference_node
        if ref is not None and is_composite(ref):
            res = any(depends_on_multi(n.operation, memo) for n in composite_nodes(ref)[2])
    memo[k] = res
    return res


def find_relation_cycle(structure):
    """own DFS over the link fields (single link: its reference; multi link: every reference; composite: its members);
    returns the kinds along one cycle or None.  Iterative: must not recurse on the structure it diagnoses."""
    ops = walk_all_ops(structure)
    def succ(o):
        out = []
        link = o.relation
        if type(link).__name__ == "MultiRelationLink":
            out.extend(link._reference_nodes)
        elif link._reference_node is not None:
            out.append(link._reference_node)
        if is_composite(o):
            out.extend(n.operation for n in composite_nodes(o)[2])
        return out
    color = {}
    for root in ops:
        if id(root) in color:
            continue
        stack = [(root, iter(succ(root)))]
        path = [root]
        color[id(root)] = 1
        while stack:
            node, it = stack[-1]
            nxt = next(it, None)
            if nxt is None:
                color[id(node)] = 2
                stack.pop()
                path.pop()
                continue
            c = color.get(id(nxt), 0)
            if c == 1:
                i = next(j for j, x in enumerate(path) if x is nxt)
                return [f"{type(x).__name__}{op_qubits(x) if not is_composite(x) else ''}[{type(x.relation).__name__}:{x.relation._relation_type.name}]"
                        for x in path[i:]]
            if c == 0:
                color[id(nxt)] = 1
                stack.append((nxt, iter(succ(nxt))))
                path.append(nxt)
    return None


def op_qubits(op):
    if hasattr(op, "qubit_indices"):
        return list(op.qubit_indices)
    if hasattr(op, "control_qubit_index"):
        return [op.control_qubit_index, op.target_qubit_index]
    if hasattr(op, "qubit_index"):
        return [op.qubit_index]
    return [ci.id for ci in op.channel_identifiers]


def is_two_qubit(op):
    return hasattr(op, "control_qubit_index")


def walk_all_ops(comp, out=None):
    """every operation object below a composite, by the own pointer walk (no library traversal, no relinking)"""
    out = [] if out is None else out
    for n in composite_nodes(comp)[2]:
        out.append(n.operation)
        if is_composite(n.operation):
            walk_all_ops(n.operation, out)
    return out


# ------------------------------------------------------------------------------------------------
# Observation of the circuit through the public API (before / after drawing)
# ------------------------------------------------------------------------------------------------
def link_fields(link):
    if type(link).__name__ == "MultiRelationLink":
        return ("multi", tuple(id(r) for r in link._reference_nodes), link._relation_to_group.name,
                link._relation_type.name, link._identifier)
    return ("single", id(link._reference_node) if link._reference_node is not None else None,
            link._relation_type.name, link._identifier)


def snapshot(circuit, qubits, fresh=False):
    ops = circuit.operations
    if fresh:
        # the first call of circuit.operations re-links relation-less children of sub-circuits while it already
        # memoises end times (MultiRelationLink.reference_node); entries made half-way are stale (C03's business)
        common.clear_caches()
    snap = {"objs": ops}
    snap["operations"] = [(id(o), type(o).__name__, tuple(op_qubits(o)), id(o.relation_link), link_fields(o.relation_link),
                           id(getattr(o, "duration_strategy", None))) for o in ops]
    comps = circuit.composite_operations
    snap["comp_objs"] = comps
    snap["composites"] = [(id(c), type(c).__name__, c.nr_of_repetitions, id(c.relation_link), link_fields(c.relation_link),
                           len(composite_nodes(c)[2])) for c in comps]
    snap["channels"] = [repr(c) for c in circuit.occupied_qubit_channels]
    snap.update(read_times(circuit, ops, comps))
    acq = []
    for i, o in enumerate(ops):
        if hasattr(o, "acquisition_index"):
            acq.append((i, o.acquisition_index, o.circuit_level_acquisition_index))
    snap["acquisition"] = (acq, {q: [int(v) for v in circuit.get_acquisition_indices(q)] for q in qubits})
    return snap


def read_times(circuit, ops, comps):
    return {"durations": ([o.duration for o in ops], [c.duration for c in comps], circuit.duration),
            "schedule": ([o.start_time for o in ops], [c.start_time for c in comps], circuit.start_time)}


SNAP_FIELDS = ["operations", "composites", "channels", "durations", "schedule", "acquisition"]


# ------------------------------------------------------------------------------------------------
# Reading a draw component
# ------------------------------------------------------------------------------------------------
def placement(comp):
    cname = type(comp).__name__
    if hasattr(comp, "main_transform_block"):
        m, s = comp.main_transform_block, comp.second_transform_block
        return {"cls": cname, "xs": [m.left_pivot.x, s.left_pivot.x], "ys": [m.center_pivot.y, s.center_pivot.y],
                "ws": [m.width, s.width], "hs": [m.height, s.height]}
    if hasattr(comp, "multiple_transforms"):
        ts = list(comp.multiple_transforms)
        return {"cls": cname, "xs": [t.left_pivot.x for t in ts], "ys": [t.center_pivot.y for t in ts],
                "ws": [t.width for t in ts], "hs": [t.height for t in ts]}
    t = comp.rectilinear_transform
    return {"cls": cname, "xs": [t.left_pivot.x], "ys": [t.center_pivot.y], "ws": [t.width], "hs": [t.height],
            "bot": t.bot_pivot.y, "top": t.top_pivot.y}


def close(a, b, tol=EPS):
    return abs(a - b) <= tol


# ------------------------------------------------------------------------------------------------
# One case = one circuit, one configuration, one drawing
# ------------------------------------------------------------------------------------------------
class Stats:
    CLAUSES = ["succeeds", "reject", "registry", "rows", "labels", "width", "position", "block-width", "glyph",
               "complete", "artists", "highlight", "unchanged-raw", "unchanged-fresh", "relink"]

    def __init__(self):
        self.n = {c: 0 for c in self.CLAUSES}
        self.cases = 0
        self.failures = {}
        self.skipped = {}
        self.hashes = set()
        self.samples = []
        self.errors = []
        self.probe = {"oracle_vs_library_mismatch": 0, "oracle_vs_library_checked": 0, "first_read_relinks": 0,
                      "not_drawn_two_qubit": 0, "overlap_offsets": 0, "overlap_max_ratio": 0.0, "draws": 0}

    def fail(self, key, clause, function, witness, observed, required):
        size = len(json.dumps(witness, default=str))
        old = self.failures.get(key)
        if old is None or size < old["_size"]:
            self.failures[key] = {"key": key, "clause": clause, "function": function, "witness": witness,
                                  "observed": observed, "required": required, "replay_args": dict(witness, key=key),
                                  "_size": size}

    def skip(self, reason):
        self.skipped[reason] = self.skipped.get(reason, 0) + 1

    def merge(self, o):
        for c in self.CLAUSES:
            self.n[c] += o.n[c]
        self.cases += o.cases
        for k, f in o.failures.items():
            old = self.failures.get(k)
            if old is None or (f["_size"], json.dumps(f["witness"], sort_keys=True, default=str)) < \
                    (old["_size"], json.dumps(old["witness"], sort_keys=True, default=str)):
                self.failures[k] = f
        for k, v in o.skipped.items():
            self.skipped[k] = self.skipped.get(k, 0) + v
        self.hashes |= o.hashes
        self.samples.extend(o.samples)
        self.errors.extend(o.errors)
        for k, v in o.probe.items():
            if k == "overlap_max_ratio":
                self.probe[k] = max(self.probe[k], v)
            else:
                self.probe[k] += v


def table_of(gname):
    lib = L()
    if GLOBALS[gname] is not None:
        return dict(GLOBALS[gname])
    reg = lib.rd.GlobalDurationRegistryManager.read_config()._global_registry
    return {k.name: float(reg[k.value]) for k in lib.rd.GlobalRegistryKey}


@contextlib.contextmanager
def global_setting(gname):
    lib = L()
    if GLOBALS[gname] is None:
        yield
        return
    tab = {getattr(lib.rd.GlobalRegistryKey, k): v for k, v in GLOBALS[gname].items()}
    with lib.rd.temporary_override_get_registry_at(tab):
        yield


def exc_class(err, program):
    st = program_stats(program)
    if st["empty_rep_sub"]:
        return "repeated-subcircuit-without-operations"
    tb = traceback.extract_tb(err.__traceback__)
    where = ""
    for fr in reversed(tb):
        if "qce_circuit" in fr.filename:
            where = fr.name
            break
    return f"{type(err).__name__}-in-{where}"


def check_case(circuit, program, case, stats, verbose=False):
    """evaluates every clause of C18 on one real drawing; returns the number of failures recorded"""
    lib = L()
    plt = lib.plt
    gname, order, cmap, compact, variant = case["G"], case["order"], case["map"], case["compact"], case["variant"]
    expect_reject = bool(case.get("reject"))
    witness = {"program": program, "G": gname, "order": order, "map": cmap, "compact": compact, "variant": variant,
               "reject": expect_reject}
    say = (lambda *a: print(*a)) if verbose else (lambda *a: None)

    def fail(key, clause, function, observed, required):
        say("  FAIL", key, "observed:", observed, "required:", required)
        stats.fail(f"{PROP}:{key}", clause, function, witness, observed, required)
        fail.count += 1
    fail.count = 0

    T_G = table_of(gname)
    T_draw = dict(VIS) if compact else T_G
    differs = any(T_G[k] != T_draw[k] for k in T_G)
    qubits = program_qubits(program)
    channel_map = None if cmap is None else {int(k): v for k, v in cmap.items()}
    reg_fn_before = lib.rd.GlobalDurationRegistry.__dict__["get_registry_at"]

    # ---- observation before drawing (fresh memos, public API) -------------------------------------------------
    common.clear_caches()
    links_first = [(id(o), id(o.relation)) for o in walk_all_ops(circuit.circuit_structure)]
    try:
        pre = snapshot(circuit, qubits, fresh=True)
    except RecursionError as pre_err:
        # the circuit cannot even list its operations / report times (nothing was drawn yet): an outcome of the code
        # under test, not of the harness.  Find the cause by an own walk, then ask the drawing itself.
        common.clear_caches()
        cycle = find_relation_cycle(circuit.circuit_structure)
        cause = ("relation-cycle" if cycle else "deep-relation-chain") + "-after-" + \
            {"none": "build", "mod": "apply_modifiers", "modflat": "apply_modifiers+flatten"}.get(program.get("post", "none"), "build")
        stats.n["succeeds"] += 1
        err = None
        try:
            lib.dc.plot_circuit(circuit, channel_order=None if order is None else list(order),
                                channel_map=None if channel_map is None else dict(channel_map), compact_visualization=compact)
        except Exception as e:  # noqa
            err = e
        finally:
            plt.close("all")
            common.clear_caches()
        stats.probe["draws"] += 1
        stats.cases += 1
        say("  circuit.operations / times raise", type(pre_err).__name__, "before drawing; own walk finds cycle:", cycle)
        if err is not None and not expect_reject:
            fail(f"plot_circuit:raises:{type(err).__name__}:{cause}", "drawing succeeds for every circuit the API can build",
                 "plot_circuit (already circuit.operations / duration raise without drawing)",
                 {"plot_circuit": f"{type(err).__name__}", "circuit.operations without drawing": type(pre_err).__name__,
                  "relation cycle (own walk over the link fields)": cycle}, "a figure")
        return fail.count
    links_norm = [(id(o), id(o.relation)) for o in walk_all_ops(circuit.circuit_structure)]
    if links_first != links_norm:
        stats.probe["first_read_relinks"] += 1
    ops, comps = pre["objs"], pre["comp_objs"]
    # probe: my evaluator agrees with the library's fresh report under the global durations
    ev_g = Evaluator(T_G)
    stats.probe["oracle_vs_library_checked"] += 1
    if [ev_g.start(o) for o in ops] != pre["schedule"][0] or [ev_g.dur(o) for o in ops] != pre["durations"][0]:
        stats.probe["oracle_vs_library_mismatch"] += 1
    if variant == "cold":
        common.clear_caches()

    # ---- oracle under the durations the drawing must use --------------------------------------------------------
    ev = Evaluator(T_draw)
    exp = [(ev.start(o), ev.dur(o)) for o in ops]
    occupied = []
    for o in ops:
        for q in op_qubits(o):
            if q not in occupied:
                occupied.append(q)
    latest_end = max([s + d for s, d in exp], default=0.0)
    multi_memo = {}
    has_multi = any(depends_on_multi(o, multi_memo) for o in ops)
    stale_in_possible = has_multi and differs and variant == "warm"     # memo filled under other durations before drawing
    stale_out_possible = has_multi and differs                            # memo filled under the drawing's durations

    # ---- draw ----------------------------------------------------------------------------------------------------
    cap = Capture()
    _CUR[0] = cap
    err, fig, ax = None, None, None
    try:
        fig, ax = lib.dc.plot_circuit(circuit, channel_order=None if order is None else list(order),
                                      channel_map=None if channel_map is None else dict(channel_map),
                                      compact_visualization=compact)
    except Exception as e:  # noqa
        err = e
    finally:
        _CUR[0] = None
    stats.probe["draws"] += 1

    try:
        # ---- clause: unknown channels are rejected / drawing succeeds ------------------------------------------
        if expect_reject:
            stats.n["reject"] += 1
            say("  reject expected; raised:", repr(err))
            if err is None:
                fail("reorder_indices:unknown-channel-accepted", "an unknown channel in the requested order is rejected with an error",
                     "reorder_indices", "no error; figure drawn", "an exception")
        else:
            stats.n["succeeds"] += 1
            if err is not None:
                fail(f"plot_circuit:raises:{exc_class(err, program)}", "drawing succeeds for every circuit the API can build",
                     "plot_circuit", f"{type(err).__name__}: {str(err)[:200]}", "a figure")

        # ---- clause: the global duration setting is back in force (also on the error path) ----------------------
        stats.n["registry"] += 1
        reg_fn_after = lib.rd.GlobalDurationRegistry.__dict__["get_registry_at"]
        probe_d = {"MICROWAVE": lib.co.Rx180(0).duration, "READOUT": lib.co.DispersiveMeasure(0, acquisition_strategy=None).duration,
                   "FLUX": lib.co.CPhase(0, 1).duration, "RESET": lib.co.Reset(0).duration}
        if reg_fn_after is not reg_fn_before or probe_d != T_G:
            fail("temporary_override_get_registry_at:global-durations-not-restored" + (":on-error" if err is not None else ""),
                 "after drawing the global duration settings are the ones in force before", "temporary_override_get_registry_at",
                 probe_d, T_G)

        if err is None and not expect_reject:
            _check_drawing(lib, stats, fail, say, case, program, fig, ax, cap, ops, comps, exp, ev, occupied, latest_end,
                           order, channel_map, multi_memo, stale_in_possible)

        # ---- clause: the circuit is unchanged ---------------------------------------------------------------------
        stats.n["unchanged-raw"] += 1
        post = snapshot(circuit, qubits)
        links_post = [(id(o), id(o.relation)) for o in walk_all_ops(circuit.circuit_structure)]
        stats.n["relink"] += 1
        if links_post != links_norm:
            fail("plot_circuit:operations:relation-links-replaced-by-drawing", "operations are the same before and after drawing",
                 "plot_circuit", "relation link objects differ after drawing", "identical link objects")
        bad = [f for f in SNAP_FIELDS if post[f] != pre[f]]
        say("  unchanged (as reported, memos untouched):", "differs in " + ",".join(bad) if bad else "same")
        raw_bad = list(bad)
        stats.n["unchanged-fresh"] += 1
        common.clear_caches()
        fresh = dict(post)
        fresh.update(read_times(circuit, ops, comps))
        fresh_bad = [f for f in SNAP_FIELDS if fresh[f] != pre[f]]
        say("  unchanged (fresh memos):", "differs in " + ",".join(fresh_bad) if fresh_bad else "same")
        if fresh_bad:
            f0 = fresh_bad[0]
            fail(f"plot_circuit:unchanged:{f0}:differs-with-fresh-memos", f"{f0} are the same before and after drawing",
                 "plot_circuit", _diff(pre[f0], fresh[f0]), "equal to the observation before drawing")
        elif raw_bad:
            # only the memoised report changed: find out which memo carries the drawing's durations
            idx = [i for i, (a, b) in enumerate(zip(pre["schedule"][0], post["schedule"][0])) if a != b]
            only_multi = all(depends_on_multi(ops[i], multi_memo) for i in idx) and (idx or has_multi)
            cls = "multi-link-memo-keeps-drawing-durations" if (only_multi and stale_out_possible) else \
                "relation-link-memo-keeps-drawing-durations"
            f0 = raw_bad[0]
            fail(f"plot_circuit:unchanged:{f0}:{cls}", f"{f0} (as reported by the circuit) are the same before and after drawing",
                 "plot_circuit / clear_lru_cache", _diff(pre[f0], post[f0]), "equal to the observation before drawing")
    finally:
        plt.close("all")
        common.clear_caches()
    stats.cases += 1
    return fail.count


def _diff(a, b):
    try:
        if isinstance(a, tuple) and isinstance(b, tuple) and len(a) == len(b):
            for part, (x, y) in enumerate(zip(a, b)):
                if x != y:
                    if isinstance(x, list) and isinstance(y, list) and len(x) == len(y):
                        i = next(i for i, (u, v) in enumerate(zip(x, y)) if u != v)
                        return {"part": part, "index": i, "before": x[i], "after": y[i]}
                    return {"part": part, "before": x, "after": y}
        if isinstance(a, list) and isinstance(b, list) and len(a) == len(b):
            i = next(i for i, (u, v) in enumerate(zip(a, b)) if u != v)
            return {"index": i, "before": a[i], "after": b[i]}
    except Exception:  # noqa
        pass
    return {"before": str(a)[:300], "after": str(b)[:300]}


def _check_drawing(lib, stats, fail, say, case, program, fig, ax, cap, ops, comps, exp, ev, occupied, latest_end,
                   order, channel_map, multi_memo, stale_in_possible):
    order = list(order or [])

    def label_of(q):
        return str(channel_map.get(q, q)) if channel_map is not None else str(q)

    # ---- rows: one bar per occupied channel, top to bottom ------------------------------------------------------
    stats.n["rows"] += 1
    bars = sorted([ln for ln in ax.lines if ln.get_zorder() == -20], key=lambda ln: -float(ln.get_ydata()[0]))
    bar_y = [float(b.get_ydata()[0]) for b in bars]
    say("  rows drawn:", len(bars), "occupied channels:", len(occupied), "bar y:", bar_y)
    rows_ok = len(bars) == len(occupied) and len(set(bar_y)) == len(bar_y)
    if not rows_ok:
        fail("construct_visual_description:rows:count", "one row per occupied channel", "construct_visual_description",
             len(bars), len(occupied))
    headers = {}
    for t in ax.texts:
        if t.get_ha() == "left" and t.get_va() == "center":
            headers.setdefault(round(float(t.get_position()[1]), 9), []).append(t.get_text())
    row_labels = [headers.get(round(y, 9), [None])[0] if len(headers.get(round(y, 9), [])) == 1 else None for y in bar_y]
    say("  header labels top to bottom:", row_labels)

    # ---- labels / order -------------------------------------------------------------------------------------------
    stats.n["labels"] += 1
    inv = {}
    for q in occupied:
        inv.setdefault(label_of(q), []).append(q)
    chan_at_row = None
    if rows_ok:
        if any(lb is None for lb in row_labels):
            fail("get_channel_header:labels:missing", "every row carries exactly one header label", "get_channel_header",
                 row_labels, [label_of(q) for q in order] + ["..."])
        elif all(len(v) == 1 for v in inv.values()):
            got = [inv.get(lb, [None])[0] for lb in row_labels]
            want_prefix = order
            if got[:len(order)] != want_prefix or sorted(map(str, got)) != sorted(map(str, occupied)):
                which = "order" if channel_map is None else "order-or-label-map"
                fail(f"construct_visual_description:labels:{which}",
                     "rows show the requested channels first, in the requested order, then every other channel once, "
                     "each labelled by the label map (default: the channel index)", "construct_visual_description / reorder_indices",
                     row_labels, [label_of(q) for q in order] + [f"then a permutation of {[label_of(q) for q in occupied if q not in order]}"])
            else:
                chan_at_row = got
    if chan_at_row is None:
        # fall back so that positions can still be judged: requested order, then the library's remaining order
        rest = [q for q in occupied if q not in order]
        chan_at_row = (order + rest)[:len(bar_y)]
    row_y = {q: bar_y[i] for i, q in enumerate(chan_at_row) if i < len(bar_y)}
    row_i = {q: i for i, q in enumerate(chan_at_row)}

    # ---- figure width / height ---------------------------------------------------------------------------------------
    stats.n["width"] += 1
    want_w = max(latest_end, 1.0) + MARGIN
    fw, fh = [float(v) for v in fig.get_size_inches()]
    spans = [(float(b.get_xdata()[0]), float(b.get_xdata()[-1])) for b in bars]
    say("  figure size:", (fw, fh), "latest end (oracle):", latest_end, "required width:", want_w)
    width_ok = close(fw, want_w) and all(close(a, 0.0) and close(b, want_w) for a, b in spans)
    if not width_ok:
        cls = "multi-link-memo-from-before-drawing" if stale_in_possible else "general"
        fail(f"construct_visual_description:width:{cls}", "the figure (and every row) is as wide as the latest end time, floor 1, plus margin 1",
             "construct_visual_description", {"figure_width": fw, "row_spans": spans[:3]}, want_w)
    if not close(fh, ROW_SPACING * len(occupied)):
        fail("figure_size:height", "figure height is 1.2 per row", "VisualCircuitDescription.figure_size", fh, ROW_SPACING * len(occupied))

    # ---- which component was drawn for which operation -----------------------------------------------------------------
    by_op = {}
    for o, comp in cap.records:
        by_op.setdefault(id(o), []).append(comp)
    returned = [c for lst in cap.op_lists for c in lst]
    returned_ids = [id(c) for c in returned]
    rects = [(float(p.get_x()), float(p.get_y()), float(p.get_width()), float(p.get_height()))
             for p in ax.patches if type(p) is lib.mpatches.Rectangle]

    # clusters of simultaneous two-qubit operations with overlapping row ranges (own computation)
    tq = [i for i, o in enumerate(ops) if is_two_qubit(o) and all(q in row_i for q in op_qubits(o))]
    cluster_of = {}
    for i in tq:
        cluster_of[i] = i
    def find(i):
        while cluster_of[i] != i:
            i = cluster_of[i]
        return i
    for a, b in itertools.combinations(tq, 2):
        if exp[a][0] == exp[b][0]:
            ra = sorted(row_i[q] for q in op_qubits(ops[a]))
            rb = sorted(row_i[q] for q in op_qubits(ops[b]))
            if ra[0] <= rb[-1] and rb[0] <= ra[-1]:
                cluster_of[find(a)] = find(b)
    csize = {}
    for i in tq:
        csize[find(i)] = csize.get(find(i), 0) + 1

    used_components = set()
    for i, o in enumerate(ops):
        kind = type(o).__name__
        got = [c for c in by_op.get(id(o), []) if id(c) in returned_ids]
        stats.n["complete"] += 1
        if kind in NOT_DRAWN:
            stats.probe["not_drawn_two_qubit"] += 1
            if got:
                used_components.update(id(c) for c in got)
            continue
        if len(got) != 1 or returned_ids.count(id(got[0])) != 1 or id(got[0]) not in cap.drawn:
            fail("get_operation_draw_components:complete:operation-not-drawn-exactly-once",
                 "each operation of the circuit is drawn exactly once", "BulkDrawComponentFactoryManager.construct",
                 {"operation": i, "kind": kind, "components": len(got), "drawn": [id(c) in cap.drawn for c in got]}, 1)
            continue
        comp = got[0]
        used_components.add(id(comp))
        p = placement(comp)
        s, d = exp[i]
        qs = op_qubits(o)
        fam = "two-qubit" if is_two_qubit(o) else ("barrier" if kind == "Barrier" else "single-qubit")
        # position: x
        stats.n["position"] += 1
        in_cluster = i in cluster_of and csize[find(i)] > 1
        tol = 0.5 * abs(d) if in_cluster else 0.0
        dev = max(abs(x - s) for x in p["xs"]) if p["xs"] else 0.0
        if in_cluster and 0 < dev <= tol + EPS:
            stats.probe["overlap_offsets"] += 1
            if d:
                stats.probe["overlap_max_ratio"] = max(stats.probe["overlap_max_ratio"], dev / abs(d))
        if dev > tol + EPS:
            if stale_in_possible and depends_on_multi(o, multi_memo):
                cls = "multi-link-memo-from-before-drawing"
            elif stale_in_possible and is_two_qubit(o) and dev <= 0.5 * abs(d) + EPS and \
                    any(depends_on_multi(ops[j], multi_memo) for j in tq if j != i):
                # displaced like a member of an overlap group: the grouping went by the stale start time of another gate
                cls = "multi-link-memo-from-before-drawing"
            elif in_cluster:
                # class by mode: with the compact durations (flux = 1) the displacement stays inside the slot
                cls = "overlapping-two-qubit-gates-displaced-beyond-own-time-slot:" + ("compact" if case["compact"] else "non-compact")
            else:
                cls = "general"
            fail(f"identifier_to_pivot:x:{fam}:{cls}", "each operation is placed at the horizontal position of its start time "
                 "(under the durations of the drawing)", "TransformConstructor.identifier_to_pivot",
                 {"operation": i, "kind": kind, "x": p["xs"], "cluster": in_cluster}, {"start": s, "duration": d, "tolerance": tol})
        # position: rows
        want_ys = sorted(row_y[q] for q in qs if q in row_y)
        got_ys = sorted(p["ys"])
        rows_match = len(want_ys) == len(qs) and len(got_ys) == len(want_ys) and all(close(a, b) for a, b in zip(got_ys, want_ys))
        if not rows_match:
            fail(f"identifier_to_pivot:row:{fam}", "each operation is placed on the row of its qubit in the requested order",
                 "TransformConstructor.identifier_to_pivot", {"operation": i, "kind": kind, "qubits": qs, "y": p["ys"]}, want_ys)
        # block width / height
        stats.n["block-width"] += 1
        if p["cls"] not in SQUARE_GLYPH:
            if not all(close(w, d) for w in p["ws"]):
                fail(f"identifier_to_width:{fam}", "the block of an operation spans its duration", "TransformConstructor.identifier_to_width",
                     {"operation": i, "kind": kind, "width": p["ws"]}, d)
        if not all(close(h, ROW_HEIGHT) for h in p["hs"]):
            fail(f"identifier_to_height:{fam}", "blocks are one row high", "TransformConstructor.identifier_to_height",
                 {"operation": i, "kind": kind, "height": p["hs"]}, ROW_HEIGHT)
        # glyph
        if kind in GLYPH:
            stats.n["glyph"] += 1
            want_cls, detail = GLYPH[kind]
            obs = None
            ok = p["cls"] == want_cls
            if ok and want_cls == "BlockRotation":
                obs = (comp.rotation_axes.name, comp.rotation_angle.name)
                ok = obs == detail
            elif ok and want_cls == "RectangleTextBlock":
                obs = comp.text_string
                ok = obs == "$\\mathtt{" + detail + "}$"
            if not ok:
                fail("factory_lookup:glyph:wrong-glyph-for-kind", "each operation kind is drawn with its own glyph",
                     "VisualCircuitDescription.get_operation_draw_components", {"kind": kind, "component": p["cls"], "detail": obs},
                     [want_cls, detail])
        # artists: the block really is in the axes
        if p["cls"] in RECT_FAMILY:
            stats.n["artists"] += 1
            # (component -> artist; oracle -> component is judged above)
            hit = None
            for j, (rx, ry, rw, rh) in enumerate(rects):
                if close(rx, p["xs"][0]) and close(ry + 0.5 * rh, p["ys"][0]) and close(rw, p["ws"][0]) and close(rh, p["hs"][0]):
                    hit = j
                    break
            if hit is None:
                fail("draw:artists:block-not-in-axes", "the block of each operation is in the axes where its component was placed",
                     "IDrawComponent.draw", {"operation": i, "kind": kind, "rectangles": rects[:6]},
                     {"x": p["xs"][0], "y": p["ys"][0], "width": p["ws"][0]})
            else:
                rects.pop(hit)
    stats.n["complete"] += 1
    extra = [type(c).__name__ for c in returned if id(c) not in used_components]
    if extra:
        fail("get_operation_draw_components:complete:extra-components", "nothing but the circuit's operations is drawn",
             "BulkDrawComponentFactoryManager.construct", extra[:5], [])

    # ---- repetition highlights of composite operations ------------------------------------------------------------------
    hl = [c for lst in cap.hl_lists for c in lst]
    hl_by_op = {}
    for o, comp in cap.records:
        if any(comp is h for h in hl):
            hl_by_op.setdefault(id(o), []).append(comp)
    n_expected = 0
    for c in comps:
        reps = c.nr_of_repetitions
        got = hl_by_op.get(id(c), [])
        stats.n["highlight"] += 1
        if reps == 1:
            if got:
                fail("get_highlight_draw_components:highlight:unrepeated-composite-highlighted", "only repeated composites are highlighted",
                     "get_highlight_draw_components", len(got), 0)
            continue
        n_expected += 1
        if len(got) != 1 or id(got[0]) not in cap.drawn:
            fail("get_highlight_draw_components:highlight:missing", "a repeated composite operation is highlighted once",
                 "get_highlight_draw_components", len(got), 1)
            continue
        p = placement(got[0])
        s, d = ev.start(c), ev.dur(c)
        cq = []
        for o in walk_all_ops(c):
            if not is_composite(o):
                for q in op_qubits(o):
                    if q not in cq:
                        cq.append(q)
        ys = [row_y[q] for q in cq if q in row_y]
        ok = close(p["xs"][0], s) and close(p["ws"][0], d) and bool(ys) and close(p["bot"], min(ys) - 0.5 * ROW_HEIGHT) and \
            close(p["top"], max(ys) + 0.5 * ROW_HEIGHT) and got[0].text_string == f"x{reps}"
        if not ok:
            cls = "multi-link-memo-from-before-drawing" if (stale_in_possible and depends_on_multi(c, multi_memo)) else "general"
            fail(f"FootprintFactory:highlight:{cls}", "the highlight of a repeated composite spans its start..end over the rows of its channels "
                 "and names the repetition count", "FootprintFactory.construct",
                 {"x": p["xs"][0], "width": p["ws"][0], "bot": p["bot"], "top": p["top"], "text": got[0].text_string},
                 {"x": s, "width": d, "bot": (min(ys) - 0.5) if ys else None, "top": (max(ys) + 0.5) if ys else None, "text": f"x{reps}"})
    if len(hl) != n_expected:
        fail("get_highlight_draw_components:highlight:count", "one highlight per repeated composite", "get_highlight_draw_components",
             len(hl), n_expected)

    if len(stats.samples) < 2:
        stats.samples.append({"input": {k: case[k] for k in ("G", "order", "map", "compact", "variant")}, "program": program,
                              "checked": {"operations": len(ops), "rows": row_labels, "figure_width": fw, "latest_end": latest_end,
                                          "first_positions": [{"kind": type(o).__name__, "start": exp[i][0],
                                                               "x": placement(by_op[id(o)][0])["xs"] if id(o) in by_op else None}
                                                              for i, o in enumerate(ops[:4])]}})


# ------------------------------------------------------------------------------------------------
# Jobs
# ------------------------------------------------------------------------------------------------
_DEADLINE = [None]


def run_job(job):
    stats = Stats()
    program, cases = job["program"], job["cases"]
    L()
    try:
        for gname in sorted({c["G"] for c in cases}):
            sub = [c for c in cases if c["G"] == gname]
            with global_setting(gname):
                circuit = None
                for case in sub:
                    if _DEADLINE[0] is not None and time.time() > _DEADLINE[0]:
                        stats.skip("time budget of the tier exhausted")
                        continue
                    if circuit is None:
                        try:
                            circuit = build(program)
                        except Exception as e:  # noqa
                            stats.skip(f"program cannot be built: {type(e).__name__}")
                            break
                    h = hashlib.blake2b(json.dumps([program, case], sort_keys=True).encode(), digest_size=8).digest()
                    try:
                        n = check_case(circuit, program, case, stats)
                    except Exception as e:  # noqa  one input must never take the module down
                        tb = traceback.extract_tb(e.__traceback__)
                        fmt = lambda fr: f"{os.path.basename(fr.filename)}:{fr.lineno}:{fr.name}"
                        stats.errors.append({"program": program, "case": case, "error": f"{type(e).__name__}: {str(e)[:200]}",
                                             "frames": [fmt(fr) for fr in tb[:8]] + ["..."] + [fmt(fr) for fr in tb[-8:]]})
                        stats.skip(f"unexpected {type(e).__name__} while evaluating one input (see probes)")
                        L().plt.close("all")
                        common.clear_caches()
                        circuit = None
                        continue
                    if nontrivial(program, case):
                        stats.hashes.add(h)
                    if n:
                        circuit = None     # do not let a changed circuit leak into the next case
    except Exception as e:  # harness problem: make it visible, do not hide it
        stats.skip("harness error: " + "".join(traceback.format_exception_only(type(e), e)).strip()[:300] +
                   " @ " + traceback.format_tb(e.__traceback__)[-1].strip()[:200])
    return stats


def nontrivial(program, case):
    st = program_stats(program)
    return st["ops"] >= 2 and len(program_qubits(program)) >= 2 and (st["rel"] > 0 or st["sub"] > 0)


# ------------------------------------------------------------------------------------------------
# Enumeration of inputs
# ------------------------------------------------------------------------------------------------
def op(k, q, rel=None, **kw):
    it = {"k": k, "q": list(q) if isinstance(q, (list, tuple)) else [q]}
    if rel is not None:
        it["rel"] = list(rel)
    it.update(kw)
    return it


def sub(items, reps=1, rel=None):
    it = {"k": "sub", "reps": reps, "items": items}
    if rel is not None:
        it["rel"] = list(rel)
    return it


def kind_instances(k, q1, q2, qall):
    """instances of one kind (fixed-duration kinds in a few duration / channel variants)"""
    if k in SQ_GLOBAL or k == "DispersiveMeasure":
        return [op(k, q1)]
    if k in SQ_FIXED:
        out = [op(k, q1, d=2.0), op(k, q1, d=0.0)]
        if k != "SingleQubitOperation":
            out.append(op(k, q1, d=0.5, ch="MW"))
            out.append(op(k, q1, d=5.0, ch="FL"))
        return out
    if k in ("CPhase", "TwoQubitVirtualPhase"):
        return [op(k, [q1, q2]), op(k, [q2, q1])]
    if k in ("TwoQubitOperation", "VirtualTwoQubitVacant"):
        return [op(k, [q1, q2], d=2.0), op(k, [q2, q1], d=0.0)]
    if k == "Barrier":
        return [op(k, qall), op(k, [q1])]
    raise ValueError(k)


def family_kinds():
    """A: every operation kind, after two operations of different length, in every relation to each of them"""
    progs = []
    a, b, c = 5, 0, 3
    for k in ALL_KINDS:
        for inst in kind_instances(k, b, c, [a, b, c]):
            for rel in [None] + [[i, t] for i in (0, 1) for t in "FSE"]:
                it = dict(inst)
                if rel:
                    it["rel"] = rel
                progs.append({"items": [op("Reset", a), op("Rx180", b), it, op("Ry90", c)], "post": "none"})
    return progs


def family_short(rng, n3):
    """B: all programs of two operations over a reduced alphabet (x every relation), sampled programs of three"""
    a, b = 2, 0
    alpha = [op("Rx180", a), op("Rx180", b), op("DispersiveMeasure", a), op("DispersiveMeasure", b), op("CPhase", [a, b]),
             op("Barrier", [a, b]), op("Wait", b, d=5.0), op("Reset", a)]
    two, three = [], []
    for x in alpha:
        for y in alpha:
            for rel in [None] + [[0, t] for t in "FSE"]:
                it = dict(y)
                if rel:
                    it["rel"] = rel
                two.append({"items": [dict(x), it], "post": "none"})
    for _ in range(n3):
        x, y, z = (dict(rng.choice(alpha)) for _ in range(3))
        r1 = rng.choice([None] + [[0, t] for t in "FSE"])
        r2 = rng.choice([None] + [[i, t] for i in (0, 1) for t in "FSE"])
        if r1:
            y["rel"] = r1
        if r2:
            z["rel"] = r2
        three.append({"items": [x, y, z], "post": "none"})
    return two, three


def family_repeat():
    """D: repeated sub-circuits (-> multi-links after apply_modifiers), bodies starting with duration-table independent operations"""
    a, b = 4, 1
    pres = [[], [op("Reset", a)], [op("Rx180", a), op("DispersiveMeasure", b)]]
    bodies = [
        [op("Barrier", [a, b]), op("Rx180", a), op("CPhase", [a, b])],
        [op("Wait", a, d=2.0), op("DispersiveMeasure", a)],
        [op("Rx180", a), op("DispersiveMeasure", a)],
        [op("CPhase", [a, b]), op("Ry90", b)],
        [op("SingleQubitOperation", a, d=1.0), op("Rx90", a), op("Hadamard", b)],
        [op("Barrier", [a, b]), op("DispersiveMeasure", b), op("Wait", a, d=5.0)],
        [op("VirtualVacant", b, d=2.0), op("VirtualPark", b), op("Rym90", a, rel=[1, "S"])],
    ]
    tails = [[], [op("DispersiveMeasure", a)], [op("Barrier", [a, b]), op("Rx180", b)]]
    progs = []
    for pre in pres:
        for body in bodies:
            for reps in (2, 3):
                for tail in tails:
                    for post in ("none", "mod", "modflat"):
                        progs.append({"items": [dict(i) for i in pre] + [sub([dict(i) for i in body], reps)] + [dict(i) for i in tail],
                                      "post": post})
    # nesting depth 2 and a sub-circuit referenced by a later operation
    for post in ("none", "mod"):
        progs.append({"items": [op("Reset", a), sub([op("Barrier", [a, b]), sub([op("Rx180", a), op("CPhase", [a, b])], 2), op("Ry90", b)], 2),
                                op("DispersiveMeasure", a)], "post": post})
        progs.append({"items": [op("Rx180", a), sub([op("Wait", b, d=2.0), op("Rx90", b)], 3), op("DispersiveMeasure", a, rel=[1, "E"]),
                                op("Reset", b, rel=[1, "S"])], "post": post})
        progs.append({"items": [sub([op("Wait", a, d=1.0), op("Rx180", a)], 2), sub([op("Barrier", [a, b]), op("Ry90", b)], 2)], "post": post})
    return progs


def family_parallel():
    """E: simultaneous two-qubit gates whose row ranges overlap or not depending on the channel order"""
    progs = []
    for k1, k2 in (("CPhase", "CPhase"), ("CPhase", "VirtualTwoQubitVacant"), ("VirtualTwoQubitVacant", "VirtualTwoQubitVacant")):
        def mk(k, q):
            return op(k, q, d=2.0) if k == "VirtualTwoQubitVacant" else op(k, q)
        progs.append({"items": [mk(k1, [0, 2]), mk(k2, [1, 3])], "post": "none"})
        progs.append({"items": [mk(k1, [0, 3]), mk(k2, [1, 2]), op("Rx180", 0)], "post": "none"})
        progs.append({"items": [op("Barrier", [0, 1, 2, 3]), mk(k1, [0, 2]), mk(k2, [3, 1]), op("DispersiveMeasure", 2)], "post": "none"})
    progs.append({"items": [op("CPhase", [0, 2]), op("CPhase", [1, 3]), op("CPhase", [0, 1]), op("CPhase", [2, 3])], "post": "none"})
    progs.append({"items": [op("CPhase", [0, 1]), op("CPhase", [2, 3]), op("TwoQubitVirtualPhase", [0, 3])], "post": "none"})
    return progs


def family_edge():
    """F: edge circuits"""
    return [
        {"items": [], "post": "none"},
        {"items": [op("Wait", 3, d=0.0)], "post": "none"},
        {"items": [op("Barrier", [2, 0])], "post": "none"},
        {"items": [op("VirtualPhase", 1), op("Barrier", [1])], "post": "none"},
        {"items": [op("Wait", 1, d=0.5), op("Wait", 4, d=0.25)], "post": "none"},
        {"items": [op("Rx180", 0), sub([], 1)], "post": "none"},
        {"items": [op("Rx180", 0), sub([], 2)], "post": "none"},
        {"items": [op("Rx180", 0), sub([], 2)], "post": "mod"},
        {"items": [sub([sub([], 1)], 3), op("Ry90", 2)], "post": "none"},
        {"items": [op("Rx180", 0), op("Reset", 1, rel=[0, "E"])], "post": "none"},
        {"items": [op("Rx180", 0), op("DispersiveMeasure", 0, rel=[0, "E"]), op("Wait", 2, d=5.0, rel=[1, "E"])], "post": "none"},
        {"items": [sub([op("Rx180", 0)], 0), op("Ry90", 0)], "post": "none"},
        {"items": [sub([op("Rx180", 0)], 0), op("Ry90", 0)], "post": "mod"},
        {"items": [op("CPhase", [6, 6])], "post": "none"},
        # unroll + flatten under global durations A leaves a relation cycle (circuit.operations itself recurses for ever)
        {"items": [sub([op("DispersiveMeasure", 5), sub([op("SingleQubitOperation", 0, d=0.0), op("Ry90", 3)], 3, rel=[0, "F"]),
                        op("VirtualPhase", 3, rel=[1, "S"])], 2)], "post": "modflat"},
    ]


def family_library(thorough):
    progs = [{"lib": "repcode_simplified", "states": "01", "cycles": 2, "post": "none"},
             {"lib": "repcode_simplified", "states": "01", "cycles": 2, "post": "mod"}]
    if thorough:
        progs += [{"lib": "repcode_simplified", "states": "010", "cycles": c, "post": p} for c in (1, 3) for p in ("none", "mod")]
        progs += [{"lib": "repcode_simplified", "states": "0+1", "cycles": 6, "post": "mod"}]
    return progs


def random_program(rng):
    pool = rng.choice([[5, 0, 3], [2, 7], [1, 4, 0, 6]])

    def items(depth, n):
        out = []
        for _ in range(n):
            rel = None
            if out and rng.random() < 0.45:
                rel = [rng.randrange(len(out)), rng.choice("FSE")]
            if depth < 2 and rng.random() < 0.22:
                out.append(sub(items(depth + 1, rng.randint(1, 3)), rng.choice([1, 2, 2, 3]), rel))
                continue
            k = rng.choice(ALL_KINDS)
            q1 = rng.choice(pool)
            q2 = rng.choice([q for q in pool if q != q1])
            inst = dict(rng.choice(kind_instances(k, q1, q2, rng.sample(pool, rng.randint(1, len(pool))))))
            if rel:
                inst["rel"] = rel
            out.append(inst)
        return out
    return {"items": items(0, rng.randint(2, 7)), "post": rng.choice(["none", "none", "mod", "mod", "modflat"])}


def ordered_subsets(ids):
    out = [None]
    for k in range(1, len(ids) + 1):
        out.extend(list(p) for p in itertools.permutations(ids, k))
    return out


def label_maps(ids):
    maps = [None, {str(q): f"L{q}" for q in ids}]
    if ids:
        maps.append({str(ids[-1]): "P", "99": "ZZ", "-1": "neg"})
    return maps


def cases_for(program, rng, k, gnames, n_reject, full_orders=False):
    ids = program_qubits(program)
    orders = ordered_subsets(ids) if len(ids) <= 4 else \
        [None] + [rng.sample(ids, rng.randint(1, len(ids))) for _ in range(12)] + [list(ids), list(reversed(ids))]
    maps = label_maps(ids)
    combos = [(g, c, v) for g in gnames for c in (True, False) for v in ("cold", "warm")]
    cases = []
    off = rng.randrange(len(combos))
    if full_orders:
        # every order once, configuration rotating; then every configuration at least once
        for n, o in enumerate(orders):
            g, c, v = combos[(off + n) % len(combos)]
            cases.append({"G": g, "order": o, "map": maps[n % len(maps)], "compact": c, "variant": v})
        k = max(0, k - len(cases))
    for n in range(k):
        g, c, v = combos[(off + n) % len(combos)] if n < len(combos) else rng.choice(combos)
        cases.append({"G": g, "order": rng.choice(orders), "map": rng.choice(maps), "compact": c, "variant": v})
    for n in range(n_reject):
        base = list(rng.choice(orders) or [])
        unknown = rng.choice([99, -1] + [q for q in range(8) if q not in ids][:2])
        base.insert(rng.randint(0, len(base)), unknown)
        g, c, v = rng.choice(combos)
        cases.append({"G": g, "order": base, "map": rng.choice(maps), "compact": c, "variant": v, "reject": True})
    return cases


def make_jobs(tier, seed):
    thorough = tier == "thorough"
    rng = random.Random(seed * 7919 + (1 if thorough else 0))
    gnames = ["file", "A", "B"] if thorough else ["file", "A"]
    two, three = family_short(rng, 2000 if thorough else 100)
    rand = [random_program(rng) for _ in range(4000 if thorough else 200)]
    plan = [  # (family, programs, cases per program, reject cases per program, all channel orders)
        ("A kinds", family_kinds(), 32 if thorough else 3, 2 if thorough else 1, False),
        ("B two ops", two, 12 if thorough else 3, 1, thorough),
        ("B three ops", three, 8 if thorough else 3, 1, False),
        ("C random", rand, 12 if thorough else 5, 1, False),
        ("D repeated", family_repeat(), 32 if thorough else 4, 1, False),
        ("E parallel two-qubit", family_parallel(), 32 if thorough else 12, 1, True),
        ("F edge", family_edge(), 12, 1, False),
        ("G library", family_library(thorough), 12 if thorough else 6, 1, False),
    ]
    jobs, summary = [], []
    for name, progs, k, nrej, full in plan:
        ncase = 0
        for p in progs:
            prng = random.Random(hashlib.blake2b((json.dumps(p, sort_keys=True) + str(seed)).encode(), digest_size=8).digest())
            cs = cases_for(p, prng, k, gnames, nrej, full_orders=full)
            ncase += len(cs)
            jobs.append({"program": p, "cases": cs, "family": name})
        summary.append(f"{name}: {len(progs)} programs, {ncase} drawings")
    # round robin over the families (each shuffled), so that a run cut short by the time budget still covers all of them
    by_family = {}
    for j in jobs:
        by_family.setdefault(j["family"], []).append(j)
    for lst in by_family.values():
        rng.shuffle(lst)
    ordered = []
    for group in itertools.zip_longest(*by_family.values()):
        ordered.extend(j for j in group if j is not None)
    return ordered, summary


# ------------------------------------------------------------------------------------------------
# Main
# ------------------------------------------------------------------------------------------------
def _init_worker(deadline):
    _DEADLINE[0] = deadline
    L()


def main(argv=None):
    args = common.parse_args(argv)
    if args.replay:
        return replay(args.replay)
    res = common.Result(PROP)
    L()
    jobs, summary = make_jobs(args.tier, args.seed)
    budget = 540.0 if args.tier == "thorough" else 52.0
    deadline = time.time() + budget
    total = Stats()
    nproc = min(16, os.cpu_count() or 1)
    ctx = mp.get_context("fork")
    with ctx.Pool(nproc, initializer=_init_worker, initargs=(deadline,)) as pool:
        for st in pool.imap_unordered(run_job, jobs, chunksize=4):
            total.merge(st)

    n = total.n
    res.evaluations = sum(n.values())
    res.distinct = total.hashes
    res.exhaustive = False
    res.rule = ("build programs (JSON: add-sequences over all operation kinds, relations none/FOLLOWED_BY/JOINED_START/JOINED_END to earlier items, "
                "sub-circuits with repetition 0..3 and nesting <= 2, apply_modifiers / flatten) x channel orders (all ordered subsets of the occupied "
                "channels for <= 4 channels, sampled per program) x label maps (none / full / partial with unknown keys) x compact and non-compact x "
                f"global durations {sorted(set(c['G'] for j in jobs for c in j['cases']))} ('file' = repository configuration, A / B = overrides via "
                f"temporary_override_get_registry_at: {GLOBALS['A']}, {GLOBALS['B']}) x memo state before drawing (cold / warm); families: " + "; ".join(summary) +
                ". Non-trivial = at least two operations on at least two channels with a relation or a sub-circuit; distinct = distinct (program, configuration).")
    res.samples = total.samples[:6]
    bound = f"{total.cases} drawings of {len(jobs)} programs, tier {args.tier}, seed {args.seed}"
    res.stand_ins = [
        {"function": "plot_circuit", "contract": "returns a figure for every built circuit and valid order / label map (clause: drawing succeeds)", "bound": bound, "evaluations": n["succeeds"]},
        {"function": "reorder_indices", "contract": "a requested order containing a channel that is not occupied raises (clause: unknown channel rejected); unknown id at every insertion position, mixed with valid ids", "bound": bound, "evaluations": n["reject"]},
        {"function": "temporary_override_get_registry_at", "contract": "after plot_circuit (normal and error exit) GlobalDurationRegistry.get_registry_at is the object in force before and fresh operations report the global durations", "bound": bound, "evaluations": n["registry"]},
        {"function": "construct_visual_description", "contract": "one row per occupied channel; header labels top to bottom = requested order, then a permutation of the rest, each label = label_map.get(channel, channel) (clauses: requested order, label map)", "bound": bound, "evaluations": n["rows"] + n["labels"]},
        {"function": "construct_visual_description", "contract": "figure width and every row span = max(latest end under the drawing's durations, 1) + 1, latest end from the own evaluator (clause: sized to the latest end time)", "bound": bound, "evaluations": n["width"]},
        {"function": "TransformConstructor.identifier_to_pivot", "contract": "left edge of the component given to each operation = own-evaluated start time under VIS durations (compact) or the global durations (non-compact); y = y of the row whose header carries the qubit's label; overlapping simultaneous two-qubit gates may be displaced by at most half their duration", "bound": bound + " (per operation)", "evaluations": n["position"]},
        {"function": "TransformConstructor.identifier_to_width/height", "contract": "component width = own-evaluated duration (square rotation glyphs excepted), height 1", "bound": bound + " (per operation)", "evaluations": n["block-width"]},
        {"function": "VisualCircuitDescription.get_operation_draw_components", "contract": "every operation of circuit.operations (two-qubit kinds without factory excepted) gets exactly one component, it is returned once, drawn, nothing else is returned; glyph class / rotation axis+angle / text per kind from an own table; a Rectangle artist sits at (start,row)", "bound": bound + " (per operation)", "evaluations": n["complete"] + n["glyph"] + n["artists"]},
        {"function": "FootprintFactory.construct", "contract": "one highlight per composite with repetitions != 1: x = start, width = duration (own evaluator), rows of its channels, text x<n>", "bound": bound + " (per composite)", "evaluations": n["highlight"]},
        {"function": "plot_circuit", "contract": "operations (identity, kind, qubits, relation link objects and fields, duration strategies), composites, channels, durations, schedule and acquisition indices observed through the public API are equal before and after drawing: as reported (memos untouched) and with fresh memos; relation link objects found by an own pointer walk are identical", "bound": bound, "evaluations": n["unchanged-raw"] + n["unchanged-fresh"] + n["relink"]},
    ]
    pr = total.probe
    res.probes = [
        {"assumption": f"the library's schedule read with fresh memos equals the own evaluator under the global durations before drawing ({pr['oracle_vs_library_checked']} circuits-configurations, {pr['oracle_vs_library_mismatch']} mismatches); composite duration = earliest start to latest end over every member (C04 itself is judged elsewhere)", "ok": pr["oracle_vs_library_mismatch"] == 0},
        {"assumption": f"the circuit is observed through circuit.operations, whose first call re-links relation-less children of sub-circuits (seen in {pr['first_read_relinks']} cases, happens on any read); the drawing itself must not re-link anything (checked as a clause)", "ok": True},
        {"assumption": f"two-qubit kinds without a draw factory (TwoQubitOperation, TwoQubitVirtualPhase) are silently not drawn ({pr['not_drawn_two_qubit']} operation instances); they are treated as non-drawable kinds", "ok": True},
        {"assumption": f"simultaneous two-qubit gates with overlapping row ranges are displaced on purpose; accepted up to half the gate duration ({pr['overlap_offsets']} displaced placements, max |dx|/duration {pr['overlap_max_ratio']:.3f})", "ok": True},
        {"assumption": f"no input raised an unexpected exception in the harness or outside the clauses ({len(total.errors)} inputs skipped" +
                       ("".join("; " + e["error"] + " at " + e["frames"][-1] + " for " + json.dumps(e["program"])[:400] for e in total.errors[:3])) + ")",
         "ok": not total.errors and not any(k.startswith("harness error") for k in total.skipped)},
        {"assumption": "every case really reached matplotlib (Agg)", "ok": pr["draws"] == total.cases and total.cases > 0},
    ]
    for f in total.failures.values():
        f.pop("_size", None)
    res.failures = total.failures
    res.skipped = total.skipped
    out = res.write(args.out)
    print(f"{PROP} bounded: {out['evaluations']} evaluations, {total.cases} drawings, {out['distinct_nontrivial']} distinct non-trivial, "
          f"{len(out['failures'])} failure keys, skipped {out['skipped']}, {out['wall_s']} s")
    for f in out["failures"]:
        print("  FAILURE", f["key"])
    for e in total.errors[:5]:
        print("  UNEXPECTED (input skipped):", e["error"], "|", json.dumps(e["program"]), "|", json.dumps(e["case"]), "|", e["frames"][-4:])
    if total.cases == 0:     # only a defect that prevents ANY evaluation is a harness failure
        print("HARNESS ERROR: no case was evaluated", out["skipped"])
        return 2
    return 0


def replay(path):
    rec, a = common.load_replay(path)
    key = a.get("key") or rec.get("key") or rec.get("id") or rec.get("obligation")
    program = a["program"]
    case = {"G": a["G"], "order": a["order"], "map": a["map"], "compact": a["compact"], "variant": a["variant"], "reject": a.get("reject", False)}
    print(f"replaying {key}")
    print(" program:", json.dumps(program))
    print(" configuration:", json.dumps(case))
    stats = Stats()
    L()
    with global_setting(case["G"]):
        circuit = build(program)
        check_case(circuit, program, case, stats, verbose=True)
    keys = sorted(stats.failures)
    print(" failure keys now:", keys)
    if key in stats.failures:
        f = stats.failures[key]
        print(" observed:", json.dumps(f["observed"], default=str))
        print(" required:", json.dumps(f["required"], default=str))
        print(f"VIOLATION property={PROP} replay={path}")
        return 1
    print(" the recorded failure does not reproduce")
    return 0


if __name__ == "__main__":
    sys.exit(main())
