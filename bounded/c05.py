#!/usr/bin/env python
"""Bounded run-time stand-in for property C05 (copies are faithful and independent).

Real circuits are built through the public API from JSON build programs (bounded/c05_inputs.py), really copied
(explicit `circuit_structure.copy()`, implicit by `add` of a sub-circuit, implicit by `apply_modifiers` / `repeat`)
and every copy is compared with its source by an own comparer written from the property statement
(bounded/c05_core.py): kinds, qubits, channel identifiers, durations, acquisition tags, all other constructor
fields, relation kind / type / group, every internal relation re-pointed to the corresponding COPIED operation
(identity), the same schedule relative to the own start (own evaluator over the link fields; never start_time),
no shared operation objects.  Afterwards one side is mutated (add, add with relation, add sub-circuit,
apply_modifiers, flatten, extend, repeat, re-link) and the reports of the other side must not change.

Reading order: the raw comparison is made at the moment copy() returns (monitor), before any `operations` read of
the copy; whether the ORIGINAL was read before (`pre` = read / modread, which hands a sub-circuit's link down to
its relation-less children) is part of the input.  A handed-down link is recognised by identity with the enclosing
composite's link and treated like "no own relation"; the own evaluator evaluates the hand-down virtually.

See bounded/README.md for the command line and the output format.
"""
import os
import sys

os.environ.setdefault("MPLBACKEND", "Agg")
os.environ.setdefault("TQDM_DISABLE", "1")

import hashlib
import json
import multiprocessing as mp
import time
import traceback

sys.path.insert(0, os.path.dirname(os.path.dirname(os.path.abspath(__file__))))
from bounded import common  # noqa: E402
from bounded import c05_core as core  # noqa: E402
from bounded.c05_core import L, Mon, walk, graph_parts, is_comp, op_qubits, op_channels, link_refs, EPS, PROP  # noqa: E402

MUTATIONS = ["add_wait", "add_rel", "add_measure", "add_new_qubit", "add_sub", "modifiers", "flatten", "extend", "repeat2",
             "inner_add", "add_barrier"]


# ------------------------------------------------------------------------------------------------
class Stats:
    def __init__(self):
        self.cnt = core.Counters()
        self.cases = 0
        self.failures = {}
        self.skipped = {}
        self.hashes = set()
        self.samples = []
        self.probe = {"explicit_copy_registry_points_at_original": 0, "explicit_copy_measurements": 0,
                      "own_relation_of_added_circuit_dropped": 0, "own_relation_of_added_circuit": 0,
                      "barrier_list_shared": 0, "barrier_pairs": 0, "oracle_vs_library_checked": 0, "oracle_vs_library_mismatch": 0,
                      "action_events": 0, "reported_skipped_joined_end_root": 0, "repeat_events": 0}

    def fail(self, key, clause, function, witness, observed, required):
        size = len(json.dumps(witness, default=str))
        if "lib" in witness["case"]["program"]:
            size += 5000      # prefer witnesses whose program is written out over library constructor calls
        old = self.failures.get(key)
        if old is None or size < old["_size"]:
            self.failures[key] = {"key": key, "clause": clause, "function": function, "witness": witness,
                                  "observed": observed, "required": required,
                                  "replay_args": {"case": witness["case"], "key": key}, "_size": size}

    def skip(self, reason):
        self.skipped[reason] = self.skipped.get(reason, 0) + 1

    def merge(self, o):
        self.cnt.merge(o.cnt)
        self.cases += o.cases
        for k, f in o.failures.items():
            old = self.failures.get(k)
            if old is None or (f["_size"], json.dumps(f["witness"], sort_keys=True, default=str)) < \
                    (old["_size"], json.dumps(old["witness"], sort_keys=True, default=str)):
                self.failures[k] = f
        for k, v in o.skipped.items():
            self.skipped[k] = self.skipped.get(k, 0) + v
        self.hashes |= o.hashes
        if len(self.samples) < 8:
            self.samples.extend(o.samples[:2])
        for k, v in o.probe.items():
            self.probe[k] += v


CLAUSES = {
    "kind": "the copy of an operation has the same kind",
    "qubits": "the copy of an operation acts on the same qubits (same order)",
    "channels": "the copy of an operation reports the same channel identifiers",
    "duration": "the copy of an operation reports the same duration",
    "repetitions": "the copy of a sub-circuit reports the same repetition count",
    "acquisition-tag": "the copy of a measurement carries the same acquisition tag",
    "stim-instruction": "the copy of a Stim operation yields the same Stim instruction",
    "relation": "the copy of an operation has the same relation kind / type and every internal relation is re-pointed to the corresponding copied operation (identity)",
    "schedule": "the copy has the same schedule relative to its own start (own evaluator over the link fields)",
    "sequence": "the copy lists the copies of the original's operations, in the same order and nesting",
    "shared": "the copy shares no operation object with the original",
    "repeat": "every block appended by repeat() consists of fresh operations and has the original block's schedule relative to its own start",
}


def clause_of(attr):
    for k in ("schedule", "repeat", "relation"):
        if attr.startswith(k):
            return CLAUSES[k]
    if attr.startswith("field-"):
        return f"the copy of an operation has the same constructor field {attr[6:]}"
    if attr.startswith(("listing", "operation-sequence")):
        return CLAUSES["sequence"]
    if attr.startswith(("shared", "result-is")):
        return CLAUSES["shared"]
    return CLAUSES.get(attr, attr)


# ------------------------------------------------------------------------------------------------
# Reports of one side through the public API (for the independence clause)
# ------------------------------------------------------------------------------------------------
def link_fields(link):
    kind, refs = link_refs(link)
    return (kind, tuple(id(r) for r in refs), link._relation_type.name, getattr(link, "_relation_to_group", None) and link._relation_to_group.name)


def report_of(obj):
    lib = L()
    decl = isinstance(obj, lib.DeclarativeCircuit)
    comp = obj.circuit_structure if decl else obj
    ops = obj.operations if decl else comp.decomposed_operations()
    common.clear_caches()   # the read above memoises while it still re-links; stale memos are C03's business
    rows, acq = [], []
    for o in ops:
        rows.append((type(o).__name__, tuple(op_qubits(o) or ()), tuple(op_channels(o))))
        if hasattr(o, "acquisition_index"):
            acq.append((o.acquisition_tag, o.acquisition_index, o.circuit_level_acquisition_index))
    rep = {"operations": rows, "acquisition": acq,
           "durations": [o.duration for o in ops], "schedule": [o.start_time for o in ops],
           "total-duration": comp.duration, "channels": [repr(c) for c in comp.channel_identifiers]}
    listing = walk(comp)
    rep["structure"] = [(id(o), id(p), id(o.relation), link_fields(o.relation)) for o, p in listing]
    rep["composites"] = [(id(o), o.nr_of_repetitions, len(graph_parts(o)[0])) for o, _ in listing if is_comp(o)]
    common.clear_caches()
    return rep


REPORT_FIELDS = ["operations", "durations", "schedule", "total-duration", "channels", "acquisition", "composites", "structure"]


def first_qubit(comp):
    for o, _ in walk(comp):
        q = op_qubits(o)
        if q:
            return q[0]
    return 0


def mutate(obj, name, env):
    """one mutation through the public API of a DeclarativeCircuit or a composite operation"""
    lib = L()
    co = lib.co
    decl = isinstance(obj, lib.DeclarativeCircuit)
    comp = obj.circuit_structure if decl else obj
    nodes = graph_parts(comp)[0]
    first = nodes[0].operation if nodes else None
    last = nodes[-1].operation if nodes else None
    q = first_qubit(comp)
    add = obj.add if decl else comp.add
    fixed = lib.rd.FixedDurationStrategy
    if name == "add_wait":
        add(co.Wait(q, duration_strategy=fixed(3.0)))
    elif name == "add_rel":
        if first is None:
            return False
        add(co.Rx180(q, relation=lib.RelationLink(first, lib.RelationType.JOINED_START)))
    elif name == "add_measure":
        acq = obj.get_acquisition_strategy() if decl else lib.ra.RegistryAcquisitionStrategy(lib.ra.AcquisitionRegistry(comp))
        add(co.DispersiveMeasure(q, acquisition_strategy=acq, acquisition_tag="m"))
    elif name == "add_new_qubit":
        add(co.CPhase(97, 98))
    elif name == "add_barrier":
        add(co.Barrier([q, 97]))
    elif name == "add_sub":
        sub = lib.DeclarativeCircuit(repetition_strategy=lib.rr.FixedRepetitionStrategy(2))
        sub.add(co.Wait(q, duration_strategy=fixed(2.0)))
        sub.add(co.Ry90(q))
        if decl:
            obj.add(sub)
        else:
            comp.add(sub.circuit_structure.copy())
    elif name == "modifiers":
        if decl:
            obj.apply_modifiers()
        else:
            comp.apply_modifiers_to_self()
    elif name == "flatten":
        if decl:
            obj.flatten()
        else:
            comp.apply_flatten_to_self()
    elif name == "extend":
        other = lib.DeclarativeCircuit()
        other.add(co.Wait(q, duration_strategy=fixed(1.0)))
        other.add(co.Rx90(96))
        comp.extend(other.circuit_structure)
    elif name == "repeat2":
        comp.repeat(2)
    elif name == "inner_add":
        inner = next((o for o, _ in walk(comp) if is_comp(o)), None)
        if inner is None:
            return False
        inner.add(co.Wait(first_qubit(inner), duration_strategy=fixed(4.0)))
    else:
        raise ValueError(name)
    _ = env
    return True


# ------------------------------------------------------------------------------------------------
# One case
# ------------------------------------------------------------------------------------------------
def exc_text(e):
    where = ""
    for fr in reversed(traceback.extract_tb(e.__traceback__)):
        if "qce_circuit" in fr.filename:
            where = fr.name
            break
    return f"{type(e).__name__} in {where}"


def run_case(case, stats, verbose=False):
    lib = L()
    say = (lambda *a: print(*a)) if verbose else (lambda *a: None)
    cnt = stats.cnt
    program, mode, pre = case["program"], case["mode"], case.get("pre", "fresh")
    nfail = [0]

    def fail(key, clause, function, detail, observed, required):
        say("  FAIL", key, "| observed:", json.dumps(observed, default=str)[:300], "| required:", json.dumps(required, default=str)[:300])
        stats.fail(f"{PROP}:{key}", clause, function, dict(detail, case=case), observed, required)
        nfail[0] += 1

    with core.global_setting(case.get("G", "file")):
        env = core.Env()
        core.mon_reset(cnt)
        try:
            # ---- build ----------------------------------------------------------------------------------------------
            Mon.phase = "build"
            parent, padded = None, []
            try:
                if mode == "add":
                    parent = lib.DeclarativeCircuit()
                    padded = core.build_items(lib, env, parent, case.get("prefix", []), parent)
                if "lib" in program:
                    orig = core.build_library(program)
                else:
                    kw = {}
                    if program.get("reps") is not None:
                        kw["repetition_strategy"] = env.repetition_strategy(program)
                    if case.get("own_rel") and padded:
                        idx, t = case["own_rel"]
                        kw["relation"] = lib.RelationLink(padded[idx], getattr(lib.RelationType, core.RELT[t]))
                    orig = lib.DeclarativeCircuit(**kw)
                    core.build_items(lib, env, orig, program["items"], orig)
            except Exception as e:  # noqa
                stats.skip(f"program cannot be built: {exc_text(e)}")
                return 0
            # ---- state of the original before it is copied -----------------------------------------------------------------
            Mon.phase = "pre"
            try:
                if pre in ("mod", "modread"):
                    orig = orig.apply_modifiers()
                if pre in ("read", "modread"):
                    _ = orig.operations
            except Exception as e:  # noqa
                stats.skip(f"pre-state cannot be reached: {exc_text(e)}")
                return 0
            common.clear_caches()
            S = orig.circuit_structure
            # ---- the copy ---------------------------------------------------------------------------------------------------------
            Mon.phase = "action"
            n_ev = len(Mon.events)
            res = None
            try:
                if mode == "explicit":
                    res = S.copy()
                elif mode == "add":
                    res = parent.add(S if case.get("via") == "structure" else orig)
                elif mode == "repeat":
                    orig.apply_modifiers()
                else:
                    raise ValueError(mode)
            except Exception as e:  # noqa
                fail(f"{ {'explicit': 'CircuitCompositeOperation.copy', 'add': 'add_sub_circuit', 'repeat': 'apply_modifiers'}[mode]}:raises:{exc_text(e)}",
                     "copying a circuit the API could build succeeds", mode, {"phase": "action"}, exc_text(e), "a copy")
                return nfail[0]
            action_events = Mon.events[n_ev:]
            stats.probe["action_events"] += len(action_events)
            ev0 = next((ev for ev in action_events if ev["src"] is S and ev["res"] is res), None)

            if mode in ("explicit", "add"):
                check_copy_result(case, stats, fail, say, lib, env, orig, S, res, parent, ev0)
            # ---- deviations seen by the monitors in any phase (every add of a sub-circuit, every repeat is a copy) -------------------
            report_monitor(stats, fail, say)
            if mode in ("explicit", "add") and case.get("mut") and res is not None and res is not S:
                Mon.phase = "mutation"
                n_ev2, n_rp2 = len(Mon.events), len(Mon.repeats)
                check_independence(case, stats, fail, say, lib, env, orig, res, parent)
                report_monitor(stats, fail, say, n_ev2, n_rp2)
            if len(stats.samples) < 2 and ev0 is not None:
                stats.samples.append({"input": case, "checked": {
                    "operations compared": len(ev0["src_ops"]), "kinds": [type(o).__name__ for o in ev0["src_ops"]][:12],
                    "relative schedule of the original (own evaluator)": ev0["src_rel"][:12],
                    "deviations": [d["attr"] for d in ev0["devs"]]}})
        finally:
            core.mon_off()
            common.clear_caches()
    stats.cases += 1
    return nfail[0]


def report_monitor(stats, fail, say, ev_from=0, rp_from=0):
    for n, ev in enumerate(Mon.events[ev_from:]):
        for d in ev["devs"]:
            if d["derived"]:
                stats.cnt.n["derived-not-reported"] += 1
                continue
            fail(f"{d['K']}.copy:{d['attr']}", clause_of(d["attr"]), f"{d['K']}.copy",
                 {"phase": ev["phase"], "copy_event": ev_from + n, "position": d["pos"], "listing": [type(o).__name__ for o in ev["src_ops"]][:40]},
                 d["observed"], d["required"])
    stats.probe["repeat_events"] += len(Mon.repeats[rp_from:])
    for n, rec in enumerate(Mon.repeats[rp_from:]):
        for d in rec["devs"]:
            if d["derived"]:
                stats.cnt.n["derived-not-reported"] += 1
                continue
            fail(f"CircuitCompositeOperation.repeat:{d['attr'][7:]}", clause_of(d["attr"]), "CircuitCompositeOperation.repeat",
                 {"phase": rec["phase"], "repeat_event": rp_from + n, "times": rec["times"], "block": d["pos"]}, d["observed"], d["required"])


def check_copy_result(case, stats, fail, say, lib, env, orig, S, res, parent, ev0):
    cnt = stats.cnt
    mode = case["mode"]
    fn = "CircuitCompositeOperation.copy" if mode == "explicit" else "DeclarativeCircuit.add_sub_circuit"
    # ---- a copy was made; nothing is shared (own walk, independent of the monitor) ---------------------------------------------
    cnt.n["objects-disjoint"] += 1
    if res is S:
        fail(f"{fn}:returns-the-original", CLAUSES["shared"], fn, {"phase": "action"}, "the original composite itself", "a copy")
        return
    ls, lr = walk(S), walk(res)
    ids = {id(o) for o, _ in ls} | {id(S)}
    shared = [type(c).__name__ for c, _ in lr if id(c) in ids]
    if shared:
        fail(f"{fn}:shares-operation-objects:{shared[0]}", CLAUSES["shared"], fn, {"phase": "action"}, shared[:5], [])
    if mode == "add":
        top = [n.operation for n in graph_parts(parent.circuit_structure)[0]]
        if not any(o is res for o in top):
            fail(f"{fn}:returned-copy-not-in-enclosing-circuit", "add returns the copy that was nested", fn, {"phase": "action"},
                 [type(o).__name__ for o in top], "the returned object among the first-level operations")
    if ev0 is None:
        # no copy() call from the original to the result was observed: compare here, by position
        devs, M = core.compare_copy(S, res, [], cnt)
        for d in devs:
            if not d["derived"]:
                fail(f"{d['K']}.copy:{d['attr']}", clause_of(d["attr"]), f"{d['K']}.copy", {"phase": "action", "position": d["pos"]},
                     d["observed"], d["required"])
    else:
        M = ev0["M"]
    pairs = [(o, M.get(id(o))) for o, _ in ls]
    leaf_pairs = [(o, c) for o, c in pairs if c is not None and not is_comp(o) and type(c) is type(o)]
    clean = ev0 is not None and not ev0["devs"]

    # ---- probes (outside the statement of C05) -----------------------------------------------------------------------------------------
    if case.get("own_rel") and mode == "add":
        stats.probe["own_relation_of_added_circuit"] += 1
        if link_refs(S.relation)[1] and not any(r is link_refs(S.relation)[1][0] for r in link_refs(res.relation)[1]):
            stats.probe["own_relation_of_added_circuit_dropped"] += 1
    for o, c in leaf_pairs:
        if hasattr(o, "qubit_indices"):
            stats.probe["barrier_pairs"] += 1
            if o.qubit_indices is c.qubit_indices:
                stats.probe["barrier_list_shared"] += 1
        if hasattr(o, "acquisition_strategy") and mode == "explicit":
            stats.probe["explicit_copy_measurements"] += 1
            if getattr(c.acquisition_strategy, "registry", None) is not None and c.acquisition_strategy.registry.reference_circuit is S:
                stats.probe["explicit_copy_registry_points_at_original"] += 1

    # ---- acquisition registry re-targeted; indices of the copied measurements (own count) ------------------------------------------------
    if mode == "add":
        P = parent.circuit_structure
        plist = [o for o, _ in walk(P) if not is_comp(o)]
        for o, c in leaf_pairs:
            if not hasattr(o, "acquisition_strategy"):
                continue
            cnt.n["acquisition"] += 1
            ro = getattr(o.acquisition_strategy, "registry", None)
            rc = getattr(c.acquisition_strategy, "registry", None)
            if ro is None or rc is None:
                continue
            if ro.reference_circuit is S:
                if rc.reference_circuit is not P:
                    eq = next((x for x, _ in ls if is_comp(x) and core.value_equal(x, S)), None)
                    how = "" if eq is None else ":" + core.twin_origin(eq, S, {id(x): q for x, q in ls}, S)
                    fail("RegistryAcquisitionStrategy.copy:registry-not-re-targeted-to-the-enclosing-circuit" +
                         (":lookup-entry-of-the-added-circuit-overwritten-by-a-value-equal-sub-circuit" + how if eq is not None else ""),
                         "a measurement that counted in the added circuit counts in the enclosing circuit after add", "RegistryAcquisitionStrategy.copy",
                         {"phase": "action"}, "original circuit" if rc.reference_circuit is S else type(rc.reference_circuit).__name__, "enclosing circuit")
                    continue
                k = next((i for i, x in enumerate(plist) if x is c), None)
                if k is None:
                    continue
                before = [x for x in plist[:k] if hasattr(x, "acquisition_identifier")]
                want = (sum(1 for x in before if x.qubit_index == c.qubit_index), len(before))
                got = (c.acquisition_index, c.circuit_level_acquisition_index)
                if got != want:
                    fail("DeclarativeCircuit.add_sub_circuit:acquisition-index-of-copied-measurement",
                         "a copied measurement reports its position among the measurements listed by the enclosing circuit", "add_sub_circuit",
                         {"phase": "action"}, got, want)

    # ---- the library's own reports, relative to the own start (only judged where the own evaluation found no difference) --------------------
    if clean and len(ls) == len(lr):
        def e_type(comp):
            kind, refs = link_refs(comp.relation)
            return bool(refs) and comp.relation._relation_type.name == "JOINED_END"
        if e_type(S) or e_type(res):
            stats.probe["reported_skipped_joined_end_root"] += 1
        else:
            cnt.n["schedule-reported"] += 1
            try:
                common.clear_caches()
                so = orig.operations
                if parent is not None:
                    _ = parent.operations
                ro = res.decomposed_operations()
                common.clear_caches()
                a = [(o.start_time, o.duration) for o in so]
                b = [(o.start_time, o.duration) for o in ro]
                da, db = S.duration, res.duration
                common.clear_caches()
                ma, mb = min([x[0] for x in a], default=0.0), min([x[0] for x in b], default=0.0)
                a = [(s - ma, d) for s, d in a]
                b = [(s - mb, d) for s, d in b]
                if not core.close_seq(a, b):
                    fail("copy:schedule-relative-to-own-start:reported-by-the-library-only", "the copy reports the same schedule relative to its own start",
                         fn, {"phase": "action"}, b, a)
                elif abs(da - db) > EPS:
                    fail("copy:total-duration:reported-by-the-library-only", "the copy reports the same total duration", fn, {"phase": "action"}, db, da)
                # probe: own evaluator against the library's fresh report of the original (top-level circuits without own relation)
                if not link_refs(S.relation)[1]:
                    stats.probe["oracle_vs_library_checked"] += 1
                    evl = core.Evaluator(S)
                    mine = [(evl.start(o), evl.dur(o)) for o in so]
                    mm = min([x[0] for x in mine], default=0.0)
                    if not core.close_seq([(s - mm, d) for s, d in mine], a):
                        stats.probe["oracle_vs_library_mismatch"] += 1
            except Exception as e:  # noqa
                stats.skip(f"reading the library's schedule raised: {exc_text(e)}")

    # ---- durations stay equal when registries / global settings change -----------------------------------------------------------------------
    changed = env.flip()
    other = "A" if case.get("G", "file") != "A" else "B"
    for label, ctx in (("after-registry-or-dynamic-duration-change", None), ("under-other-global-durations", other)):
        if ctx is None and not changed:
            continue
        cnt.n["durations-after-change"] += 1
        cm = core.global_setting(ctx) if ctx else None
        if cm:
            cm.__enter__()
        try:
            for o, c in leaf_pairs:
                if o.duration != c.duration:
                    K = type(o).__name__
                    known = ev0["devs"] if ev0 else []
                    if not any(d["K"] == K and d["attr"] == "duration" for d in known):
                        fail(f"{K}.copy:duration:{label}", CLAUSES["duration"], f"{K}.copy", {"phase": "action"}, c.duration, o.duration)
                    break
        finally:
            if cm:
                cm.__exit__(None, None, None)
    common.clear_caches()


def check_independence(case, stats, fail, say, lib, env, orig, res, parent):
    cnt = stats.cnt
    mode, mut = case["mode"], case["mut"]
    side, seq = mut["side"], mut["seq"]
    copy_side = parent if parent is not None else res
    watched, target = (copy_side, orig) if side == "orig" else (orig, copy_side)
    try:
        before = report_of(watched)
    except Exception as e:  # noqa
        stats.skip(f"report before mutation raised: {exc_text(e)}")
        return
    done = []
    for name in seq:
        tgt = target   # (composite-only mutations of a DeclarativeCircuit go to its current structure)
        try:
            if mutate(tgt, name, env):
                done.append(name)
        except Exception as e:  # noqa
            stats.skip(f"mutation {name} raised: {exc_text(e)}")
    if not done:
        return
    cnt.n["independence"] += 1
    try:
        after = report_of(watched)
    except Exception as e:  # noqa
        fail(f"independence:{mode}:{side}-mutated:reports-of-the-other-raise", "mutating one side never changes what the other reports", "copy",
             {"phase": "mutation", "mutations": done}, exc_text(e), "unchanged reports")
        return
    bad = [f for f in REPORT_FIELDS if before[f] != after[f]]
    say("  independence:", side, "mutated by", done, "-> other side", "differs in " + ",".join(bad) if bad else "unchanged")
    if bad:
        f0 = bad[0]
        b, a = before[f0], after[f0]
        if isinstance(b, list) and isinstance(a, list) and len(a) == len(b):
            i = next(i for i, (x, y) in enumerate(zip(b, a)) if x != y)
            b, a = {"index": i, "value": b[i]}, {"index": i, "value": a[i]}
        fail(f"independence:{mode}:{side}-mutated:{f0}-of-the-other-side-changed", "mutating one side never changes what the other reports",
             "copy", {"phase": "mutation", "mutations": done}, a, b)


# ------------------------------------------------------------------------------------------------
# Jobs
# ------------------------------------------------------------------------------------------------
_DEADLINE = [None]


def nontrivial(case):
    st = core.program_stats(case["program"])
    return st["ops"] >= 2 and (st["rel"] > 0 or st["sub"] > 0)


def run_job(cases):
    stats = Stats()
    L()
    for case in cases:
        if _DEADLINE[0] is not None and time.time() > _DEADLINE[0]:
            stats.skip("time budget of the tier exhausted")
            continue
        try:
            run_case(case, stats)
            if nontrivial(case):
                stats.hashes.add(hashlib.blake2b(json.dumps(case, sort_keys=True).encode(), digest_size=8).digest())
        except RecursionError as e:
            # relation fields forming a cycle (only seen with broken copies): a property failure, not a harness problem
            stats.fail(f"{PROP}:copy:reading-the-circuits-raises-RecursionError", "the reports of the original and of the copy can be read", "copy",
                       {"case": case, "where": traceback.format_tb(e.__traceback__)[-1].strip()[:200]}, "RecursionError", "finite relation chains")
        except Exception as e:  # harness problem: make it visible
            stats.skip("harness error: " + "".join(traceback.format_exception_only(type(e), e)).strip()[:300] +
                       " @ " + traceback.format_tb(e.__traceback__)[-1].strip()[:300])
    return stats


def _init_worker(deadline):
    _DEADLINE[0] = deadline
    L()


def main(argv=None):
    args = common.parse_args(argv)
    if args.replay:
        return replay(args.replay)
    from bounded import c05_inputs as inputs
    res = common.Result(PROP)
    L()
    cases, summary, complete = inputs.make_cases(args.tier, args.seed)
    budget = float(os.environ.get("C05_BUDGET_S", 520.0 if args.tier == "thorough" else 50.0))
    deadline = time.time() + budget
    total = Stats()
    nproc = min(16, os.cpu_count() or 1)
    chunk = 40
    jobs = [cases[i:i + chunk] for i in range(0, len(cases), chunk)]
    ctx = mp.get_context("fork")
    with ctx.Pool(nproc, initializer=_init_worker, initargs=(deadline,)) as pool:
        for st in pool.imap_unordered(run_job, jobs, chunksize=1):
            total.merge(st)
    n = total.cnt.n
    cut = total.skipped.get("time budget of the tier exhausted", 0)
    res.evaluations = sum(n[k] for k in ("field-checks", "relation-checks", "sequence-checks", "schedule-evaluated", "schedule-reported",
                                         "repeat-blocks", "acquisition", "independence", "objects-disjoint", "durations-after-change"))
    res.distinct = total.hashes
    res.exhaustive = False
    res.rule = inputs.RULE + " Families: " + "; ".join(summary) + \
        f". Completely enumerated sub-spaces (when no case was cut by the time budget; cut here: {cut}): " + "; ".join(complete) + \
        ". Non-trivial = at least two operations and a relation or a sub-circuit; distinct = distinct (program, copy mode, pre-state, durations, mutation)."
    res.samples = total.samples[:6]
    bound = f"{total.cases} cases, tier {args.tier}, seed {args.seed}; operation classes seen in copies: {len(total.cnt.classes)} ({', '.join(sorted(total.cnt.classes))})"
    res.stand_ins = [
        {"function": "every copy() of structure/circuit_operations.py and addon_stim/circuit_operations.py (monitored inside CircuitCompositeOperation.copy)",
         "contract": "clause 'same operation sequence': result has the same class, qubits (ordered), channel_identifiers (id and channel), duration, acquisition tag, "
                     "every other constructor field, Stim instruction; for sub-circuits the same repetition count",
         "bound": bound + f"; {n['op-pairs']} (operation, copy) pairs", "evaluations": n["field-checks"]},
        {"function": "RelationLink.copy / MultiRelationLink.copy / CircuitGraphBranch.add_to_graph (as used by copy)",
         "contract": "clause 'relation types; every internal relation re-pointed to the corresponding copied operation': same link kind, relation type, group; "
                     "reference(s) identical (is) to the copies of the original's reference(s); relation-less operations stay relation-less; "
                     "deviations classified: not kept / re-pointed to a value-equal twin / pointing outside the copy",
         "bound": bound + f"; references outside the copied circuit (nothing required): {n['external-references']}", "evaluations": n["relation-checks"]},
        {"function": "CircuitCompositeOperation.copy (explicit), DeclarativeCircuit.add_sub_circuit (implicit), copies made inside repeat / apply_modifiers",
         "contract": "clause 'same operation sequence': the own breadth-first listing of the result is exactly the copies of the original's listing, same nesting; "
                     "a new composite; no operation object shared (own walk)",
         "bound": bound + f"; {n['copy-events']} outermost copy() calls observed", "evaluations": n["sequence-checks"] + n["objects-disjoint"]},
        {"function": "CircuitCompositeOperation.copy / add_sub_circuit",
         "contract": "clause 'same schedule relative to its own start': own evaluation of the relation equations over the link fields (sub-circuit link handed "
                     "down virtually; a sub-circuit's duration = span of everything it contains, as C04 states) gives the same (start - earliest "
                     "start, duration) for every operation and sub-circuit; additionally the library's fresh start_time / duration / total duration of both sides agree",
         "bound": bound, "evaluations": n["schedule-evaluated"] + n["schedule-reported"]},
        {"function": "CircuitCompositeOperation.repeat",
         "contract": "clause 'implicitly when repeated': each appended block consists of the (fresh) copies, each listed exactly once, and has the pre-unroll "
                     "schedule of the block relative to its own start; blocks share no operation object",
         "bound": bound + f"; {total.probe['repeat_events']} repeat() calls observed", "evaluations": n["repeat-blocks"]},
        {"function": "RegistryAcquisitionStrategy.copy / add_sub_circuit",
         "contract": "a measurement whose registry was the added circuit has the enclosing circuit's structure as registry after add and reports (index on its "
                     "qubit, circuit-level index) = own count of earlier measurements in the enclosing circuit's own listing",
         "bound": bound, "evaluations": n["acquisition"]},
        {"function": "copy() of operations with fixed / registry / dynamic / global durations",
         "contract": "copy and original still report equal durations after every DurationRegistry value and dynamic duration was changed, and under other global durations",
         "bound": bound, "evaluations": n["durations-after-change"]},
        {"function": "copy (explicit / add) followed by mutations",
         "contract": "clause 'independent': after mutating one side (sequences of <= 3 of: " + ", ".join(MUTATIONS) + ") the other side's reports through the public API "
                     "(operations: kinds, qubits, channels; durations; start times with fresh memos; total duration; occupied channels; acquisition tags and indices; "
                     "sub-circuit repetition counts and sizes; identity of operation and link objects by own walk) are unchanged",
         "bound": bound, "evaluations": n["independence"]},
    ]
    pr = total.probe
    res.probes = [
        {"assumption": f"copy() monitors installed on {L().monitored_classes} classes; every explicit / add action was observed as an outermost copy() call "
                       f"({pr['action_events']} action events); positional fallback used {n['positional-fallback']} times", "ok": pr["action_events"] > 0},
        {"assumption": f"own evaluator equals the library's fresh report (relative) on unread-or-read originals without own relation: "
                       f"{pr['oracle_vs_library_checked']} checked, {pr['oracle_vs_library_mismatch']} mismatches (the evaluator takes a sub-circuit's duration as the span "
                       f"of everything it contains; a library whose composite duration looks only at first-level starts and leaf ends, C04, mismatches here)",
         "ok": pr["oracle_vs_library_mismatch"] == 0},
        {"assumption": f"OUTSIDE the statement (not an internal relation), observed only: add_sub_circuit drops the added circuit's OWN relation to an operation of the "
                       f"enclosing circuit ({pr['own_relation_of_added_circuit_dropped']} of {pr['own_relation_of_added_circuit']} cases; the lookup passed to copy holds only "
                       f"{{added circuit: enclosing circuit}}), the copy is then placed after the latest operation on its channels", "ok": True},
        {"assumption": f"OUTSIDE the statement, observed only: Barrier / CoordinateShiftOperation copies share the qubit_indices list object with the original "
                       f"({pr['barrier_list_shared']} of {pr['barrier_pairs']} pairs); no library mutator changes that list in place", "ok": True},
        {"assumption": f"OUTSIDE the statement (C07), observed only: measurements of an explicit copy() keep the ORIGINAL circuit as acquisition registry "
                       f"({pr['explicit_copy_registry_points_at_original']} of {pr['explicit_copy_measurements']}) and therefore report index -1", "ok": True},
        {"assumption": f"library-reported schedule comparison skipped when a root link is JOINED_END (hand-down is not a uniform shift): {pr['reported_skipped_joined_end_root']} cases; "
                       f"consequences of an already recorded deviation of the same copy (changed listing order, changed schedule, relation added after a channel change) counted, not reported under a second key: {n['derived-not-reported']}", "ok": True},
    ]
    for f in total.failures.values():
        f.pop("_size", None)
    res.failures = total.failures
    res.skipped = total.skipped
    out = res.write(args.out)
    print(f"{PROP} bounded: {out['evaluations']} evaluations, {total.cases} cases, {out['distinct_nontrivial']} distinct non-trivial, "
          f"{len(out['failures'])} failure keys, skipped {out['skipped']}, {out['wall_s']} s")
    for f in out["failures"]:
        print("  FAILURE", f["key"])
    harness = [k for k in out["skipped"] if k.startswith("harness error")]
    if harness or total.cases == 0:
        print("HARNESS ERROR:", harness or "no case was evaluated")
        return 2
    return 0


def replay(path):
    rec, a = common.load_replay(path)
    key = a.get("key") or rec.get("key")
    case = a["case"]
    print(f"replaying {key}")
    print(" case:", json.dumps(case))
    stats = Stats()
    L()
    run_case(case, stats, verbose=True)
    print(" failure keys now:", sorted(stats.failures))
    if key in stats.failures:
        f = stats.failures[key]
        print(" observed:", json.dumps(f["observed"], default=str))
        print(" required:", json.dumps(f["required"], default=str))
        print(f"VIOLATION property={PROP} replay={path}")
        return 1
    print(" the recorded failure does not reproduce")
    return 0


if __name__ == "__main__":
    sys.exit(main())
