"""Bounded stand-in for C14: noise dressing only adds noise, with the configured strengths.

Inputs are built through the library's public API only (circuit constructors / DeclarativeCircuit
-> `to_stim` -> `apply_noise`).  The oracle is written from the property statement and uses
nothing of the code under test: own stripper (+ Stim's `without_noise`), own settings look-up
(index -> identifier -> override, else default), own TICK block splitter, own duration table and
the closed-form T1/T2 Pauli-twirl formula evaluated with `math.expm1`.

Clauses (failure-key prefixes):
  C14:construct:*      apply_noise returned a circuit at all (no exception)
  C14:strip:*          strip(noisy) == flatten(input), atom by atom (modulo Stim's instruction fusion)
  C14:range:*          every inserted probability in [0,1]; PAULI_CHANNEL_1: X+Y+Z <= 1
  C14:measurement:*    every measurement target carries the assignment error configured for its qubit
  C14:idle:*           around every TICK-delimited block, on every qubit of the circuit, one
                       PAULI_CHANNEL_1 before and one after, with (px,py,pz) = formula(t, T1(q), T2(q)),
                       t = max(configured duration of the operations in the block, M included) / 2
"""
import hashlib
import json
import math
import os
import random
import sys
import time

os.environ.setdefault("MPLBACKEND", "Agg")

from bounded import common  # noqa: E402

PROP = "C14"
IDLE_NAME = "PAULI_CHANNEL_1"
N_RANDOM_SETTINGS = {"quick": 6, "thorough": 48}
ABS_TOL = 1e-15
REL_TOL = 1e-9

# Surface-17 repetition chain (Repetition9Code), data qubits at even positions.
S17_CHAIN = ["D1", "X1", "D2", "X2", "D3", "Z2", "D6", "Z4", "D5", "Z1", "D4", "Z3", "D7", "X3", "D8", "X4", "D9"]


# ----------------------------------------------------------------------------------------------
# Building real inputs through the public API
# ----------------------------------------------------------------------------------------------
def _state_container(state):
    from qce_circuit.language import InitialStateContainer, InitialStateEnum
    return InitialStateContainer.from_ordered_list(
        [InitialStateEnum.ONE if ch == "1" else InitialStateEnum.ZERO for ch in state])


def _build_hand(program):
    """program: list of tokens, see _hand_programs().  Returns DeclarativeCircuit."""
    from qce_circuit.language import DeclarativeCircuit
    from qce_circuit.structure import circuit_operations as ops
    from qce_circuit.structure.registry_repetition import FixedRepetitionStrategy
    from qce_circuit.structure.registry_acquisition import RegistryAcquisitionStrategy
    from qce_circuit.addon_stim.circuit_operations import (
        DetectorOperation, LogicalObservableOperation, CoordinateShiftOperation)

    def qubits_of(tokens, acc):
        for tok in tokens:
            if tok[0] == "REP":
                qubits_of(tok[2], acc)
            elif tok[0] == "CZ":
                acc.update(tok[1:3])
            elif tok[0] in ("B", "SHIFT"):
                pass
            else:
                acc.add(tok[1])
        return acc

    all_qubits = sorted(qubits_of(program, set())) or [0]
    single = {"R": ops.Reset, "I": ops.Identity, "H": ops.Hadamard, "X": ops.Rx180, "SX": ops.Rx90,
              "SXD": ops.Rxm90, "Y": ops.Ry180, "SY": ops.Ry90, "SYD": ops.Rym90, "WAIT": ops.Wait}
    root = DeclarativeCircuit()
    registry = root.acquisition_registry

    def fill(circuit, tokens):
        for tok in tokens:
            k = tok[0]
            if k in single:
                circuit.add(single[k](tok[1]))
            elif k == "CZ":
                circuit.add(ops.CPhase(tok[1], tok[2]))
            elif k == "M":
                circuit.add(ops.DispersiveMeasure(tok[1], acquisition_strategy=RegistryAcquisitionStrategy(registry)))
            elif k == "B":
                circuit.add(ops.Barrier(list(all_qubits)))
            elif k == "SHIFT":
                circuit.add(CoordinateShiftOperation(qubit_indices=list(all_qubits), time_shift=1))
            elif k == "DET":  # ["DET", q, lookback]
                circuit.add(DetectorOperation(qubit_index=tok[1], last_acquisition_index=0, main_target=1 - tok[2]))
            elif k == "OBS":
                circuit.add(LogicalObservableOperation(qubit_index=tok[1], last_acquisition_index=0, main_target=1 - tok[2]))
            elif k == "REP":
                sub = DeclarativeCircuit(repetition_strategy=FixedRepetitionStrategy(tok[1]))
                fill(sub, tok[2])
                circuit.add(sub)
            else:
                raise ValueError("unknown token %r" % (tok,))

    fill(root, program)
    return root, {q: "Q%d" % q for q in all_qubits}


def build_input(spec):
    """:return: (stim circuit produced by the library's exporter, natural index->identifier-name map)"""
    from qce_circuit.addon_stim import to_stim
    kind = spec["kind"]
    if kind == "hand":
        circuit, nat = _build_hand(spec["program"])
    else:
        from qce_circuit.library.repetition_code import circuit_constructors as cc
        from qce_circuit.library.repetition_code.circuit_components import RepetitionCodeDescription
        state = _state_container(spec["state"])
        if kind in ("rep", "rep_simplified"):
            description = RepetitionCodeDescription.from_chain(length=2 * len(spec["state"]) - 1,
                                                               qubit_refocusing=spec.get("refocus", True))
        elif kind == "rep_conn":
            from qce_circuit.library.repetition_code.repetition_code_connectivity import Repetition9Code
            from qce_circuit.connectivity.intrf_channel_identifier import QubitIDObj
            names = S17_CHAIN[2 * spec["start"]: 2 * spec["start"] + 2 * len(spec["state"]) - 1]
            description = RepetitionCodeDescription.from_connectivity(
                involved_qubit_ids=[QubitIDObj(n) for n in names], connectivity=Repetition9Code(),
                qubit_refocusing=spec.get("refocus", True))
        else:
            raise ValueError(kind)
        fn = cc.construct_repetition_code_circuit_simplified if kind == "rep_simplified" else cc.construct_repetition_code_circuit
        circuit = fn(qec_cycles=spec["cycles"], description=description, initial_state=state)
        nat = {int(i): q.id for i, q in description.circuit_channel_map.items()}
    common.clear_caches()
    return to_stim(circuit), nat


def make_settings(sdesc):
    """sdesc (JSON) -> real NoiseSettings (None when the argument is to be omitted)."""
    if sdesc.get("omitted"):
        return None
    from qce_circuit.addon_stim.noise_settings_manager import (
        NoiseSettings, QubitNoiseModelParameters, OperationDurationParameters)
    from qce_circuit.connectivity.intrf_channel_identifier import QubitIDObj
    d = sdesc["durations"]
    return NoiseSettings(
        default_t1=sdesc["default"]["t1"], default_t2=sdesc["default"]["t2"],
        default_assignment_error=sdesc["default"]["ae"],
        individual_noise={QubitIDObj(name): QubitNoiseModelParameters(t1=p["t1"], t2=p["t2"], assignment_error=p["ae"])
                          for name, p in sdesc["overrides"].items()},
        operation_durations=OperationDurationParameters(duration_mz=d["M"], duration_cz=d["CZ"],
                                                        duration_h=d["H"], duration_x=d["X"]),
    )


def run_library(stim_input, sdesc, imap):
    from qce_circuit.addon_stim.noise_factory_manager import apply_noise
    from qce_circuit.connectivity.intrf_channel_identifier import QubitIDObj
    qmap = {int(i): QubitIDObj(n) for i, n in imap.items()}
    settings = make_settings(sdesc)
    if settings is None:
        return apply_noise(circuit=stim_input, qubit_index_map=qmap)
    return apply_noise(circuit=stim_input, qubit_index_map=qmap, noise_settings=settings)


# ----------------------------------------------------------------------------------------------
# Oracle (independent of the code under test)
# ----------------------------------------------------------------------------------------------
def yaml_settings():
    """The 'default' settings the library loads when the argument is omitted, parsed here from the YAML file."""
    import yaml
    from qce_circuit.definitions import ROOT_DIR
    import qce_circuit.addon_stim.noise_factory_manager  # noqa: F401  (import creates the file when absent)
    with open(os.path.join(ROOT_DIR, "config_circuit_noise.yaml")) as fh:
        raw = yaml.safe_load(fh)
    od = raw.get("operation_durations") or {}
    return {"omitted": True,
            "default": {"t1": float(raw["default_t1"]), "t2": float(raw["default_t2"]),
                        "ae": float(raw["default_assignment_error"])},
            "overrides": {str(k): {"t1": float(v.get("t1", 1e-3)), "t2": float(v.get("t2", 2e-3)),
                                   "ae": float(v.get("assignment_error", 0.0))}
                          for k, v in (raw.get("individual_noise") or {}).items()},
            "durations": {"M": float(od.get("duration_mz", 500e-9)), "CZ": float(od.get("duration_cz", 60e-9)),
                          "H": float(od.get("duration_h", 20e-9)), "X": float(od.get("duration_x", 20e-9))}}


def params_for(q, sdesc, imap):
    """:return: (parameters, look-up path) for circuit index q."""
    key = str(q)
    if key not in imap:
        return sdesc["default"], "index-unmapped"
    name = imap[key]
    if name in sdesc["overrides"]:
        return sdesc["overrides"][name], "mapped-override"
    return sdesc["default"], "mapped-no-override"


def pauli_formula(t, t1, t2):
    """Pauli twirl of amplitude/phase damping for idle time t, clamped into [0,1]."""
    a = -math.expm1(-t / t1)  # 1 - exp(-t/T1)
    b = -math.expm1(-t / t2)  # 1 - exp(-t/T2)
    px = 0.25 * a
    pz = 0.5 * b - 0.25 * a
    cl = lambda v: min(max(v, 0.0), 1.0)
    return cl(px), cl(px), cl(pz)


def close(a, b):
    return abs(a - b) <= ABS_TOL + REL_TOL * max(abs(a), abs(b))


class Atom:
    __slots__ = ("name", "targets", "args", "qubits")

    def __init__(self, name, targets, args, qubits):
        self.name, self.targets, self.args, self.qubits = name, targets, args, qubits

    def key(self, with_args=True):
        return (self.name, self.targets, self.args if with_args else ())

    def __repr__(self):
        return "%s%s %s" % (self.name, list(self.args) if self.args else "", " ".join(self.targets))


_GD = {}


def gate_data(name):
    import stim
    if name not in _GD:
        g = stim.gate_data(name)
        _GD[name] = (g.is_single_qubit_gate, g.is_two_qubit_gate, g.is_noisy_gate, g.produces_measurements)
    return _GD[name]


def is_pure_noise(name):
    g = gate_data(name)
    return g[2] and not g[3]


def is_measurement(name):
    return gate_data(name)[3]


def atoms(circuit):
    """Fusion-independent form: one atom per target group of (single/two)-qubit gates, one per other instruction.
    :return: (atoms, contains_repeat_block)"""
    import stim
    out, has_repeat = [], False
    for ins in circuit:
        if isinstance(ins, stim.CircuitRepeatBlock):
            has_repeat = True
            sub, _ = atoms(ins.body_copy())
            out.extend(sub * ins.repeat_count)
            continue
        name, args = ins.name, tuple(ins.gate_args_copy())
        g = gate_data(name)
        if g[0] or g[1]:
            for grp in ins.target_groups():
                out.append(Atom(name, tuple(repr(t) for t in grp), args,
                                tuple(t.value for t in grp if t.is_qubit_target)))
        else:
            tg = ins.targets_copy()
            out.append(Atom(name, tuple(repr(t) for t in tg), args, tuple(t.value for t in tg if t.is_qubit_target)))
    return out, has_repeat


def evaluate(stim_input, noisy, sdesc, imap):
    """Evaluate the property statement.  :return: (list of failure dicts, counters dict)"""
    fails, cnt = [], {"strip": 0, "range": 0, "measurement": 0, "idle": 0, "meas_atoms": 0, "channel_atoms": 0}
    dur = sdesc["durations"]

    def fail(key, clause, observed, required, **extra):
        fails.append({"key": "%s:%s" % (PROP, key), "clause": clause, "observed": observed, "required": required, "extra": extra})

    flat = stim_input.flattened()
    ia, _ = atoms(flat)
    na, noisy_has_repeat = atoms(noisy)

    # ---- clause 1: stripping the noise gives back exactly the flattened input -----------------
    cnt["strip"] += 1
    if noisy_has_repeat:
        fail("strip:output-contains-repeat-block", "strip(noisy) == flatten(input)", "REPEAT block in output", "flat circuit")
    stripped = [Atom(a.name, a.targets, () if is_measurement(a.name) else a.args, a.qubits)
                for a in na if not is_pure_noise(a.name)]
    sk, ik = [a.key() for a in stripped], [a.key() for a in ia]
    if sk != ik:
        i = 0
        while i < len(sk) and i < len(ik) and sk[i] == ik[i]:
            i += 1
        if i == len(sk):
            cls = "dropped:%s" % ik[i][0]
        elif i == len(ik):
            cls = "inserted-non-noise:%s" % sk[i][0]
        elif sk[i][0] == ik[i][0]:
            cls = "changed:%s" % ik[i][0]
        elif i + 1 < len(ik) and sk[i] == ik[i + 1]:
            cls = "dropped:%s" % ik[i][0]
        elif i + 1 < len(sk) and sk[i + 1] == ik[i]:
            cls = "inserted-non-noise:%s" % sk[i][0]
        else:
            cls = "replaced:%s" % ik[i][0]
        fail("strip:" + cls, "strip(noisy) == flatten(input), atom by atom",
             {"position": i, "stripped": repr(stripped[i]) if i < len(stripped) else None},
             {"position": i, "input": repr(ia[i]) if i < len(ia) else None})
    try:
        wn, _ = atoms(noisy.without_noise())
        if [a.key() for a in wn] != ik:
            fail("strip:stim-without_noise-differs", "noisy.without_noise() == flatten(input) (Stim's own stripper)",
                 "differs", "equal")
    except Exception as exc:  # pragma: no cover
        fail("strip:stim-without_noise-raised", "noisy.without_noise() computable", repr(exc), "no exception")

    # ---- clause 2: probabilities in [0,1], X+Y+Z <= 1 ------------------------------------------
    cnt["range"] += 1
    for a in na:
        if not gate_data(a.name)[2]:
            continue
        bad = [p for p in a.args if not (isinstance(p, float) and math.isfinite(p) and 0.0 <= p <= 1.0)]
        if bad:
            fail("range:%s:probability-outside-[0,1]" % a.name, "every inserted probability in [0,1]", repr(a), "[0,1]")
        if is_pure_noise(a.name) and len(a.args) > 1 and sum(a.args) > 1.0:
            fail("range:%s:sum-exceeds-1" % a.name, "X+Y+Z <= 1", repr(a), "<= 1")

    # ---- clause 3: each measurement carries the assignment error of its qubit -----------------
    cnt["measurement"] += 1
    for a in na:
        if not is_measurement(a.name):
            continue
        cnt["meas_atoms"] += 1
        if len(a.qubits) != 1 or len(a.args) > 1:
            fail("measurement:malformed", "one qubit, one argument", repr(a), "M(p) q")
            continue
        q = a.qubits[0]
        p, path = params_for(q, sdesc, imap)
        obs = a.args[0] if a.args else 0.0
        if not close(obs, p["ae"]):
            fail("measurement:assignment-error:%s" % path,
                 "measurement of qubit q carries assignment error configured for q", obs, p["ae"],
                 qubit=q, identifier=imap.get(str(q)))

    # ---- clause 4: idling channels around every TICK-delimited block ---------------------------
    cnt["idle"] += 1
    blocks, cur = [], []
    for a in ia:
        cur.append(a)
        if a.name == "TICK":
            blocks.append(cur)
            cur = []
    blocks.append(cur)
    qubits = sorted({q for a in ia for q in a.qubits})
    nq = len(qubits)
    p = 0

    def check_run(run, b_idx, side, longest, t, t_alt):
        if len(run) != nq or any(a.name != IDLE_NAME or len(a.qubits) != 1 or len(a.args) != 3 for a in run) \
                or sorted(a.qubits[0] for a in run) != qubits:
            fail("idle:structure:%s-block-channels-not-one-per-qubit" % side,
                 "exactly one %s per circuit qubit %s each block" % (IDLE_NAME, side),
                 [repr(a) for a in run][:12], {"qubits": qubits}, block=b_idx)
            return False
        for a in run:
            cnt["channel_atoms"] += 1
            q = a.qubits[0]
            par, path = params_for(q, sdesc, imap)
            exp = pauli_formula(t, par["t1"], par["t2"]) if t > 0 else (0.0, 0.0, 0.0)
            if all(close(o, e) for o, e in zip(a.args, exp)):
                continue
            if longest == "M":
                alt = pauli_formula(t_alt, par["t1"], par["t2"]) if t_alt > 0 else (0.0, 0.0, 0.0)
                if all(close(o, e) for o, e in zip(a.args, alt)):
                    key = "idle:probability:longest-op=M:measurement-duration-ignored"
                else:
                    key = "idle:probability:longest-op=M:other:%s" % path
            else:
                key = "idle:probability:longest-op=%s:%s" % (longest, path)
            fail(key, "(px,py,pz) == T1/T2 formula at t = max configured duration in block / 2 (measurements included)",
                 list(a.args), list(exp), block=b_idx, side=side, qubit=q, t=t, t1=par["t1"], t2=par["t2"],
                 block_ops=sorted({x.name for x in blocks[b_idx]}))
        return True

    ok = True
    for b_idx, blk in enumerate(blocks):
        ds = [(dur.get(a.name, 0.0), a.name) for a in blk]
        dmax = max([d for d, _ in ds], default=0.0)
        longest = "none" if dmax <= 0.0 else ("M" if any(d == dmax and n == "M" for d, n in ds)
                                              else sorted(n for d, n in ds if d == dmax)[0])
        if longest == "M" and any(d == dmax and n != "M" for d, n in ds):
            longest = sorted(n for d, n in ds if d == dmax and n != "M")[0]  # tie: measurement not decisive
        t = 0.5 * dmax
        t_alt = 0.5 * max([d for d, n in ds if n != "M"], default=0.0)
        ok = check_run(na[p:p + nq], b_idx, "before", longest, t, t_alt)
        if not ok:
            break
        p += nq
        body = na[p:p + len(blk)]
        if [a.key(with_args=not is_measurement(a.name)) for a in body] != [a.key(with_args=not is_measurement(a.name)) for a in blk]:
            fail("idle:structure:block-body-differs", "between the channels stands the block of the input",
                 [repr(a) for a in body][:12], [repr(a) for a in blk][:12], block=b_idx)
            ok = False
            break
        p += len(blk)
        ok = check_run(na[p:p + nq], b_idx, "after", longest, t, t_alt)
        if not ok:
            break
        p += nq
    if ok and p != len(na):
        fail("idle:structure:trailing-instructions", "output ends with the last block's channels",
             [repr(a) for a in na[p:p + 12]], "end of circuit")
    return fails, cnt


def is_nontrivial(stim_input, sdesc):
    ia, _ = atoms(stim_input.flattened())
    names = [a.name for a in ia]
    return "M" in names and "TICK" in names and any(sdesc["durations"].get(n, 0.0) > 0 for n in names)


# ----------------------------------------------------------------------------------------------
# Enumeration
# ----------------------------------------------------------------------------------------------
def _hand_programs():
    singles = ["R", "I", "H", "X", "SX", "SXD", "Y", "SY", "SYD"]
    progs = [[["M", 0]], [["M", 0], ["B"], ["X", 0]]]  # smallest first: first witness found is reported
    # every exported gate kind alone in its own block
    p = []
    for k in singles:
        p += [[k, 0], ["B"]]
    p += [["CZ", 0, 1], ["B"], ["M", 0], ["B"], ["M", 1]]
    progs.append(p)
    # two kinds per block (block maximum), measurements with and without longer/shorter companions
    progs.append([["H", 0], ["X", 1], ["B"], ["H", 0], ["CZ", 1, 2], ["B"], ["X", 0], ["M", 1], ["B"],
                  ["CZ", 0, 1], ["M", 2], ["B"], ["H", 0], ["M", 1], ["B"], ["I", 0], ["SX", 1], ["B"],
                  ["M", 0], ["M", 1], ["M", 2], ["B"], ["X", 0], ["I", 1], ["Y", 2], ["B"]])
    # repetition with measurement, detector, coordinate shift
    progs.append([["R", 0], ["R", 1], ["B"],
                  ["REP", 3, [["H", 0], ["B"], ["CZ", 1, 0], ["B"], ["M", 1], ["SHIFT"], ["DET", 1, 1]]],
                  ["B"], ["M", 0], ["OBS", 0, 1]])
    # nested repetition
    progs.append([["REP", 2, [["X", 0], ["REP", 2, [["CZ", 0, 2], ["B"]]], ["M", 2], ["B"]]], ["H", 2]])
    progs.append([])  # empty
    progs.append([["B"], ["B"]])
    progs.append([["H", 0], ["B"]])
    progs.append([["X", 0], ["B"], ["B"], ["B"], ["CZ", 0, 1]])
    progs.append([["H", 0], ["CZ", 7, 16], ["B"], ["M", 16], ["X", 7], ["B"], ["M", 0], ["M", 7]])  # sparse indices
    progs.append([["WAIT", 0], ["B"], ["WAIT", 1]])  # nothing but TICK exported
    progs.append([["M", 3], ["M", 1], ["M", 2], ["M", 0], ["B"], ["CZ", 3, 0], ["CZ", 2, 1], ["B"], ["M", 0], ["M", 3]])
    progs.append([["R", 0], ["M", 0], ["DET", 0, 1], ["B"], ["REP", 2, [["M", 0], ["DET", 0, 1], ["DET", 0, 2]]], ["OBS", 0, 1]])
    return progs


def _random_program(rng, depth=0):
    nq = rng.randint(1, 4)
    toks = []
    nmeas = 0
    for _ in range(rng.randint(1, 10)):
        r = rng.random()
        if r < 0.45:
            toks.append([rng.choice(["R", "I", "H", "X", "SX", "SXD", "Y", "SY", "SYD"]), rng.randrange(nq)])
        elif r < 0.6 and nq > 1:
            a, b = rng.sample(range(nq), 2)
            toks.append(["CZ", a, b])
        elif r < 0.75:
            q = rng.randrange(nq)
            toks.append(["M", q])
            nmeas += 1
            if rng.random() < 0.4:
                toks.append(["DET", q, 1])
        elif r < 0.92:
            toks.append(["B"])
        elif depth < 2:
            toks.append(["REP", rng.randint(1, 3), _random_program(rng, depth + 1)])
        else:
            toks.append(["SHIFT"])
    return toks


def circuit_specs(tier, seed):
    specs = []
    alt = lambda n, first="0": "".join((first if i % 2 == 0 else ("1" if first == "0" else "0")) for i in range(n))
    for prog in _hand_programs():
        specs.append({"kind": "hand", "program": prog})
    rng = random.Random(seed * 7919 + 14)
    for _ in range(40 if tier == "quick" else 300):
        specs.append({"kind": "hand", "program": _random_program(rng)})
    if tier == "quick":
        for d in (2, 3, 4, 5):
            for cyc in (0, 1, 2, 3, 5):
                specs.append({"kind": "rep", "state": alt(d), "cycles": cyc, "refocus": True})
            specs.append({"kind": "rep", "state": alt(d, "1"), "cycles": 2, "refocus": False})
            specs.append({"kind": "rep_simplified", "state": alt(d), "cycles": 3, "refocus": True})
        specs.append({"kind": "rep_simplified", "state": "01", "cycles": 0, "refocus": True})
        specs.append({"kind": "rep_simplified", "state": "01", "cycles": 1, "refocus": False})
        for start, d, cyc in ((3, 3, 1), (4, 3, 0), (0, 2, 2), (2, 4, 3), (0, 9, 1), (5, 2, 6), (1, 5, 2)):
            specs.append({"kind": "rep_conn", "start": start, "state": alt(d), "cycles": cyc, "refocus": True})
    else:
        for d in (2, 3, 4, 5):
            for cyc in range(0, 7):
                for refocus in (True, False):
                    specs.append({"kind": "rep", "state": alt(d), "cycles": cyc, "refocus": refocus})
            for cyc in (0, 1, 2, 4):
                for refocus in (True, False):
                    specs.append({"kind": "rep_simplified", "state": alt(d, "1"), "cycles": cyc, "refocus": refocus})
            specs.append({"kind": "rep", "state": "1" * d, "cycles": 2, "refocus": True})
        for start in range(0, 8):
            for d in range(2, 10 - start):
                for cyc in ((0, 1, 4) if d <= 4 else (1,)):
                    specs.append({"kind": "rep_conn", "start": start, "state": alt(d), "cycles": cyc, "refocus": (start + d) % 2 == 0})
    return specs


def settings_for(names, rng, n_random):
    """JSON settings descriptions; names = identifier names of the natural map (sorted)."""
    out = [dict(yaml_settings(), label="omitted(yaml)")]
    base_d = {"M": 500e-9, "CZ": 60e-9, "H": 20e-9, "X": 20e-9}
    out.append({"label": "library-defaults", "default": {"t1": 10e-6, "t2": 20e-6, "ae": 0.01}, "overrides": {}, "durations": dict(base_d)})
    ov = {n: {"t1": (10 + k) * 1e-6, "t2": (15 + 2 * k) * 1e-6, "ae": 0.001 * (k + 1)} for k, n in enumerate(names) if k % 3 != 2}
    ov["ZZ9"] = {"t1": 1e-9, "t2": 1e-9, "ae": 0.4}  # identifier no index maps to
    out.append({"label": "distinct", "default": {"t1": 30e-6, "t2": 45e-6, "ae": 0.02}, "overrides": ov,
                "durations": {"M": 400e-9, "CZ": 70e-9, "H": 30e-9, "X": 25e-9}})
    ov2 = {n: {"t1": (50 - 3 * k) * 1e-6, "t2": (20 + k) * 1e-6, "ae": 0.3 / (k + 1)} for k, n in enumerate(names) if k % 2 == 0}
    out.append({"label": "reordered-durations", "default": {"t1": 5e-6, "t2": 3e-6, "ae": 0.0}, "overrides": ov2,
                "durations": {"M": 300e-9, "CZ": 40e-9, "H": 100e-9, "X": 900e-9}})
    ext = [(1e-12, 1e-12, 0.0), (1e300, 1e300, 1.0), (1e-6, 1e-3, 0.5), (1e-3, 1e-9, 1e-9), (1e-9, 1e300, 1.0 - 1e-12), (7e-8, 1.4e-7, 1e-300)]
    ov3 = {n: dict(zip(("t1", "t2", "ae"), ext[k % len(ext)])) for k, n in enumerate(names)}
    out.append({"label": "extreme-a", "default": {"t1": 2e-7, "t2": 1e-7, "ae": 1.0}, "overrides": ov3,
                "durations": {"M": 1.0, "CZ": 1e-12, "H": 0.0, "X": 1e3}})
    out.append({"label": "extreme-b", "default": {"t1": 1e-12, "t2": 1e300, "ae": 0.0}, "overrides": {k: v for k, v in list(ov3.items())[::2]},
                "durations": {"M": 1e-15, "CZ": 1e6, "H": 1e-9, "X": 0.0}})
    out.append({"label": "zero-durations", "default": {"t1": 10e-6, "t2": 20e-6, "ae": 0.05}, "overrides": ov,
                "durations": {"M": 0.0, "CZ": 0.0, "H": 0.0, "X": 0.0}})
    out.append({"label": "int-typed", "default": {"t1": 3, "t2": 4, "ae": 1}, "overrides": {n: {"t1": 2, "t2": 1, "ae": 0} for n in names[::2]},
                "durations": {"M": 4, "CZ": 3, "H": 2, "X": 1}})
    lu = lambda lo, hi: math.exp(rng.uniform(math.log(lo), math.log(hi)))
    for r in range(n_random):
        ovr = {n: {"t1": lu(1e-7, 1e-2), "t2": lu(1e-7, 1e-2), "ae": rng.choice([0.0, rng.uniform(0, 0.5), rng.uniform(0, 1)])}
               for n in names if rng.random() < 0.6}
        durs = {k: rng.choice([0.0, lu(1e-9, 1e-5)]) if rng.random() < 0.15 else lu(1e-9, 1e-5) for k in ("M", "CZ", "H", "X")}
        out.append({"label": "random-%d" % r, "default": {"t1": lu(1e-7, 1e-2), "t2": lu(1e-7, 1e-2), "ae": rng.uniform(0, 0.3)},
                    "overrides": ovr, "durations": durs})
    return out


def maps_for(nat):
    """index->identifier-name maps (JSON: str(index) -> name)."""
    idx = sorted(nat)
    names = [nat[i] for i in idx]
    n = len(idx)
    out = [("empty", {}), ("natural", {str(i): nat[i] for i in idx})]
    if n:
        out.append(("shifted", {str(i): names[(k + 1) % n] for k, i in enumerate(idx)}))
        part = {str(i): nat[i] for k, i in enumerate(idx) if k % 2 == 1}
        part[str(idx[-1] + 5)] = names[0]  # index that is not in the circuit
        out.append(("partial+foreign-index", part))
        out.append(("colliding", {str(i): names[k % 2 if n > 1 else 0] for k, i in enumerate(idx)}))
        out.append(("reversed+unknown-id", {str(i): (names[n - 1 - k] if k % 3 else "UNKNOWN%d" % k) for k, i in enumerate(idx)}))
    return out


def _digest(obj):
    return hashlib.sha1(json.dumps(obj, sort_keys=True).encode()).hexdigest()[:16]


def run_task(task):
    idx, spec, tier, seed = task
    res = {"idx": idx, "evaluations": 0, "nontrivial": [], "fails": {}, "skipped": {}, "cnt": {}, "sample": None}
    try:
        stim_input, nat = build_input(spec)
    except Exception as exc:
        res["skipped"]["cannot build %s: %s" % (spec["kind"], type(exc).__name__)] = 1
        return res
    rng = random.Random(seed * 1000003 + idx)
    names = [nat[i] for i in sorted(nat)]
    sdescs = settings_for(names, rng, N_RANDOM_SETTINGS[tier])
    mps = maps_for(nat)
    spec_d = _digest(spec)
    for s_i, sdesc in enumerate(sdescs):
        # all maps for the structured settings; one rotating + natural for random ones (quick), all in thorough
        use = mps if (tier != "quick" or not sdesc["label"].startswith("random")) else [mps[1 % len(mps)], mps[(2 + s_i) % len(mps)]]
        if sdesc.get("omitted") and tier == "quick":
            use = mps[:3]
        for m_label, imap in use:
            rargs = {"circuit": spec, "settings": sdesc, "index_map": imap}
            try:
                noisy = run_library(stim_input, sdesc, imap)
            except Exception as exc:
                key = "%s:construct:raised:%s" % (PROP, type(exc).__name__)
                res["evaluations"] += 1
                res["fails"].setdefault(key, {"key": key, "clause": "apply_noise returns a noise-dressed circuit",
                                              "function": "apply_noise", "witness": dict(rargs, map_label=m_label, stim_input=str(stim_input)),
                                              "observed": repr(exc)[:300], "required": "no exception",
                                              "replay_args": dict(rargs, key=key)})
                continue
            fails, cnt = evaluate(stim_input, noisy, sdesc, imap)
            res["evaluations"] += 1
            for k, v in cnt.items():
                res["cnt"][k] = res["cnt"].get(k, 0) + v
            if is_nontrivial(stim_input, sdesc):
                res["nontrivial"].append(spec_d + _digest(sdesc) + _digest(imap))
            for f in fails:
                if f["key"] not in res["fails"]:
                    res["fails"][f["key"]] = {
                        "key": f["key"], "clause": f["clause"], "function": _function_of(f["key"]),
                        "witness": dict(rargs, map_label=m_label, detail=f["extra"], stim_input=str(stim_input)),
                        "observed": f["observed"], "required": f["required"], "replay_args": dict(rargs, key=f["key"])}
            if res["sample"] is None and sdesc["label"] == "distinct" and m_label == "shifted":
                res["sample"] = {"circuit": spec, "settings": sdesc["label"], "index_map": imap,
                                 "input_instructions": len(stim_input.flattened()), "output_instructions": len(noisy),
                                 "checked": dict(cnt), "failure_keys": sorted({f["key"] for f in fails})}
    return res


def _function_of(key):
    part = key.split(":")[1]
    return {"strip": "StimNoiseDresserFactoryManager.construct", "range": "PauliAdditiveCircuitNoiseFactory.get_pauli_error",
            "measurement": "MeasurementNoiseDresserFactory.construct", "idle": "PauliAdditiveCircuitNoiseFactory.construct",
            "construct": "apply_noise"}.get(part, "apply_noise")


def probes():
    import stim
    out = []
    ins = stim.CircuitInstruction("MZ", [0], [0.1])
    out.append({"assumption": "Stim reports an instruction created as 'MZ' under the canonical name 'M' (observed: %r)" % ins.name,
                "ok": ins.name == "M"})
    a1, _ = atoms(stim.Circuit("M 0 1\nCZ 0 1 2 3\nX 5"))
    a2, _ = atoms(stim.Circuit("M 0\nM 1\nCZ 0 1\nCZ 2 3\nX 5"))
    out.append({"assumption": "atomisation by target groups is independent of Stim's instruction fusion",
                "ok": [a.key() for a in a1] == [a.key() for a in a2] and len(a1) == 5})
    out.append({"assumption": "stim.gate_data: PAULI_CHANNEL_1 is pure noise, M is a noisy measurement, TICK/DETECTOR/R/CZ are neither",
                "ok": is_pure_noise("PAULI_CHANNEL_1") and is_measurement("M") and gate_data("M")[2]
                and not any(gate_data(n)[2] for n in ("TICK", "DETECTOR", "R", "CZ", "OBSERVABLE_INCLUDE"))})
    c = stim.Circuit("M(0.25) 0\nPAULI_CHANNEL_1(0.1,0.2,0.3) 0\nM(0.5) 1")
    out.append({"assumption": "Stim's without_noise drops noise channels and measurement arguments", "ok": c.without_noise() == stim.Circuit("M 0 1")})
    px, py, pz = pauli_formula(250e-9, 10e-6, 20e-6)
    out.append({"assumption": "oracle formula reproduces hand value px=(1-exp(-0.025))/4, pz=(1-exp(-0.0125))/2-px",
                "ok": close(px, 0.25 * (1 - math.exp(-0.025))) and close(pz, 0.5 * (1 - math.exp(-0.0125)) - px) and px == py})
    try:
        y = yaml_settings()
        out.append({"assumption": "default settings YAML readable by the harness (defaults %r)" % (y["default"],), "ok": True})
    except Exception as exc:
        out.append({"assumption": "default settings YAML readable by the harness: %r" % (exc,), "ok": False})
    return out


def main(argv=None):
    args = common.parse_args(argv)
    if args.replay:
        return replay(args.replay)
    import multiprocessing as mp
    res = common.Result(PROP)
    tier = "thorough" if args.tier == "thorough" else "quick"
    specs = circuit_specs(tier, args.seed)
    tasks = [(i, s, tier, args.seed) for i, s in enumerate(specs)]
    ctx = mp.get_context("fork")
    with ctx.Pool(min(16, os.cpu_count() or 1)) as pool:
        # dispatch the expensive circuits first (balance); results are merged in task order below
        cost = lambda t: len(t[1].get("state", "")) * (t[1].get("cycles", 0) + 1)
        results = list(pool.imap_unordered(run_task, sorted(tasks, key=cost, reverse=True), chunksize=1))
    totals = {}
    for r in sorted(results, key=lambda r: r["idx"]):
        res.evaluations += r["evaluations"]
        res.distinct.update(r["nontrivial"])
        for k, v in r["skipped"].items():
            res.skipped[k] = res.skipped.get(k, 0) + v
        for k, v in r["cnt"].items():
            totals[k] = totals.get(k, 0) + v
        for k, f in r["fails"].items():
            res.fail(f["key"], f["clause"], f["function"], f["witness"], f["observed"], f["required"], f["replay_args"])
        if r["sample"] is not None and len(res.samples) < 8 and (r["idx"] % 9 == 0 or len(res.samples) < 3):
            res.samples.append(r["sample"])
    kinds = {}
    for s in specs:
        kinds[s["kind"]] = kinds.get(s["kind"], 0) + 1
    res.rule = ("inputs = (exporter output of a circuit) x (noise settings) x (index->identifier map). Circuits (%s tier): %s "
                "[hand = DeclarativeCircuits over every exported gate kind (R I H X SQRT_X SQRT_X_DAG Y SQRT_Y SQRT_Y_DAG CZ M TICK "
                "DETECTOR OBSERVABLE_INCLUDE SHIFT_COORDS, nested REPEAT <= depth 2, <= 4 qubits for random ones; 14 fixed + seeded random); "
                "rep = construct_repetition_code_circuit from_chain, distance 2..5, cycles 0..6, refocusing on/off; rep_simplified (REPEAT blocks); "
                "rep_conn = contiguous sub-chains of the Surface-17 Repetition9Code chain]. Settings per circuit: argument omitted (YAML defaults), "
                "library defaults, distinct per-qubit overrides, re-ordered durations (X > H > M > CZ), two extreme sets (T1/T2 from 1e-12 to 1e300, "
                "T2 > 2*T1 so that pz clamps at 0, assignment error 0 / 1 / 1e-300, durations 0 .. 1e6), all durations zero, int-typed values, "
                "+ %d seeded random sets. Maps: empty, natural, cyclically shifted, partial + foreign index, colliding identifiers, reversed + "
                "unknown identifiers. T1, T2 > 0, durations >= 0, assignment error in [0,1]. Non-trivial = flattened input has a measurement, "
                "a TICK and an operation with a positive configured duration." % (tier, kinds, N_RANDOM_SETTINGS[tier]))
    res.exhaustive = False
    ev = res.evaluations
    res.stand_ins = [
        {"function": "StimNoiseDresserFactoryManager.construct / apply_noise",
         "contract": "strip(noisy) == circuit.flattened(): removing noise channels and measurement arguments (own stripper, and Stim's without_noise) "
                     "gives the flattened input atom by atom; no exception; no REPEAT block in the output",
         "bound": "all enumerated (circuit, settings, map) triples", "evaluations": totals.get("strip", 0)},
        {"function": "PauliAdditiveCircuitNoiseFactory.get_pauli_error / MeasurementNoiseDresserFactory.construct",
         "contract": "every argument of every inserted noisy instruction is a finite float in [0,1]; PAULI_CHANNEL_1: px+py+pz <= 1",
         "bound": "all enumerated triples incl. extreme settings", "evaluations": totals.get("range", 0)},
        {"function": "MeasurementNoiseDresserFactory.construct + IndexedNoiseSettings.get_noise_settings + NoiseSettings.get_noise_settings",
         "contract": "each measurement target q carries assignment_error of (override of map[q] if mapped and overridden else default)",
         "bound": "all enumerated triples; %d measurement targets compared" % totals.get("meas_atoms", 0), "evaluations": totals.get("measurement", 0)},
        {"function": "PauliAdditiveCircuitNoiseFactory.construct / split_instruction_blocks / IndexedNoiseSettings.get_operation_duration",
         "contract": "for every TICK-delimited block (TICK closes its block; last block may be empty) and every qubit of the circuit exactly one "
                     "PAULI_CHANNEL_1 before and one after the block with (px,py,pz) = clamp(T1/T2 formula)(t = max configured duration over the "
                     "block's operations, M counted with duration_mz, unconfigured operations 0) / 2), T1/T2 of that qubit; tolerance 1e-15 + 1e-9 rel. "
                     "Keys name the block's longest operation and the settings look-up path; where M is the longest operation a deviation "
                     "that equals the formula with measurements left out of the maximum is keyed ':measurement-duration-ignored' "
                     "(restricted clause), any other deviation ':other:<path>'",
         "bound": "all enumerated triples; %d channels compared" % totals.get("channel_atoms", 0), "evaluations": totals.get("idle", 0)},
    ]
    res.probes = probes()
    if ev == 0:
        res.fail("C14:harness:no-evaluations", "at least one evaluation", "harness", {}, 0, "> 0")
    out = res.write(args.out)
    print("C14 bounded: %d evaluations, %d distinct non-trivial, %d failure keys, %.1fs" % (
        out["evaluations"], out["distinct_nontrivial"], len(out["failures"]), out["wall_s"]))
    for f in out["failures"]:
        print("  FAIL", f["key"])
    return 0


def replay(path):
    rec, ra = common.load_replay(path)
    key = ra.get("key") or rec.get("key")
    stim_input, _nat = build_input(ra["circuit"])
    sdesc = ra["settings"]
    if sdesc.get("omitted"):
        sdesc = dict(yaml_settings(), label="omitted(yaml)")
    imap = {str(k): v for k, v in ra["index_map"].items()}
    print("input circuit:\n%s" % stim_input)
    print("settings: %s" % json.dumps(sdesc))
    print("index map: %s" % json.dumps(imap))
    still = False
    try:
        noisy = run_library(stim_input, sdesc, imap)
    except Exception as exc:
        k = "%s:construct:raised:%s" % (PROP, type(exc).__name__)
        print("apply_noise raised %r -> %s" % (exc, k))
        still = key is None or k == key
    else:
        print("noisy circuit:\n%s" % noisy)
        fails, _cnt = evaluate(stim_input, noisy, sdesc, imap)
        seen = set()
        for f in fails:
            if f["key"] in seen:
                continue
            seen.add(f["key"])
            print("observed failure %s: observed=%s required=%s %s" % (f["key"], f["observed"], f["required"], f["extra"]))
        if not fails:
            print("all clauses hold on this input")
        still = (key in seen) if key else bool(seen)
    if still:
        print("VIOLATION property=%s replay=%s" % (PROP, path))
        return 1
    return 0


if __name__ == "__main__":
    sys.exit(main())
