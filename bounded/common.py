"""Shared helpers for the bounded stand-ins (run under /venv/bin/python)."""
import argparse, json, os, sys, time

os.environ.setdefault("MPLBACKEND", "Agg")


def clear_caches():
    """drop the two lru_caches behind start times (stale entries are property C03's business)"""
    from qce_circuit.structure.intrf_circuit_operation import RelationLink, MultiRelationLink
    RelationLink.get_start_time.cache_clear()
    MultiRelationLink.get_start_time.cache_clear()


def parse_args(argv=None):
    ap = argparse.ArgumentParser()
    ap.add_argument("--tier", default="quick")
    ap.add_argument("--seed", type=int, default=0)
    ap.add_argument("--out", default=None)
    ap.add_argument("--obligations", default=None)
    ap.add_argument("--replay", default=None)
    return ap.parse_args(argv)


class Result:
    def __init__(self, prop):
        self.prop = prop
        self.evaluations = 0
        self.distinct = set()
        self.rule = ""
        self.exhaustive = False
        self.samples = []
        self.stand_ins = []
        self.probes = []
        self.failures = {}
        self.skipped = {}
        self.t0 = time.time()

    def fail(self, key, clause, function, witness, observed=None, required=None, replay_args=None):
        if key not in self.failures:
            self.failures[key] = {"key": key, "clause": clause, "function": function, "witness": witness,
                                  "observed": observed, "required": required, "replay_args": replay_args or witness}

    def skip(self, reason):
        self.skipped[reason] = self.skipped.get(reason, 0) + 1

    def write(self, path):
        out = {"evaluations": self.evaluations, "distinct_nontrivial": len(self.distinct) if isinstance(self.distinct, set) else int(self.distinct),
               "rule": self.rule, "exhaustive": self.exhaustive, "samples": self.samples[:8], "stand_ins": self.stand_ins,
               "probes": self.probes, "failures": list(self.failures.values()), "skipped": self.skipped,
               "wall_s": round(time.time() - self.t0, 2)}
        if path:
            os.makedirs(os.path.dirname(os.path.abspath(path)), exist_ok=True)
            with open(path, "w") as fh:
                json.dump(out, fh, indent=1, default=str)
        return out


def load_replay(path):
    with open(path) as fh:
        rec = json.load(fh)
    return rec, rec.get("replay_args") or rec.get("witness")
