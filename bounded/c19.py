#!/venv/bin/python
"""Bounded stand-in for C19 (identifier relations).  The four relations are under deductive contracts (contracts/c19.py);
this module evaluates the same statements exhaustively on small domains of REAL objects, so that a rewrite that leaves the
verifier's Python subset (and is therefore undecided there) is still judged."""
import itertools, sys, os
sys.path.insert(0, os.path.dirname(os.path.dirname(os.path.abspath(__file__))))
from bounded import common


def lib():
    from qce_circuit.structure.intrf_circuit_operation import ChannelIdentifier, QubitChannel
    from qce_circuit.connectivity.intrf_channel_identifier import QubitIDObj, EdgeIDObj
    from qce_circuit.utilities.array_manipulation import unique_in_order
    return ChannelIdentifier, QubitChannel, QubitIDObj, EdgeIDObj, unique_in_order


def run(res, tier):
    CI, QC, Q, E, uio = lib()
    chans = list(QC)
    # 1. channel matching: all pairs over 3 qubits x 4 channels (and a non-identifier on the right)
    ids = [CI(i, c) for i in range(3) for c in chans]
    for a in ids:
        for b in ids:
            res.evaluations += 1
            want = a.id == b.id and (a.channel == b.channel or a.channel == QC.ALL or b.channel == QC.ALL)
            got = (a == b)
            if bool(got) != want:
                res.fail("C19:ChannelIdentifier.__eq__:pair", "match iff same qubit and (same channel or one is ALL)", "ChannelIdentifier.__eq__",
                         {"a": [a.id, a.channel.name], "b": [b.id, b.channel.name]}, bool(got), want)
            if bool(a == b) != bool(b == a):
                res.fail("C19:ChannelIdentifier.__eq__:asymmetric", "matching is symmetric", "ChannelIdentifier.__eq__",
                         {"a": [a.id, a.channel.name], "b": [b.id, b.channel.name]}, [bool(a == b), bool(b == a)], "equal")
        for other in (None, 0, "x", (a.id, a.channel)):
            res.evaluations += 1
            if a == other:
                res.fail("C19:ChannelIdentifier.__eq__:non-identifier", "never matches a non-identifier", "ChannelIdentifier.__eq__",
                         {"a": [a.id, a.channel.name], "other": repr(other)}, True, False)
    # 2. qubit and edge identifiers over 4 names
    names = ["D1", "D2", "X1", "Z1"]
    qs = [Q(n) for n in names] + [Q(n) for n in names]
    for a in qs:
        for b in qs:
            res.evaluations += 1
            if (a == b) != (a.id == b.id):
                res.fail("C19:QubitIDObj.__eq__", "equal exactly when the names are", "QubitIDObj.__eq__", {"a": a.id, "b": b.id}, a == b, a.id == b.id)
            if a.id == b.id and hash(a) != hash(b):
                res.fail("C19:QubitIDObj.__hash__", "equal identifiers hash equal", "QubitIDObj.__hash__", {"a": a.id, "b": b.id}, [hash(a), hash(b)], "equal")
    for x, y in itertools.permutations(names, 2):
        e1, e2 = E(Q(x), Q(y)), E(Q(y), Q(x))
        res.evaluations += 1
        if not (e1 == e2 and e2 == e1):
            res.fail("C19:EdgeIDObj.__eq__:order", "E(a,b) == E(b,a)", "EdgeIDObj.__eq__", {"a": x, "b": y}, [e1 == e2, e2 == e1], True)
        if hash(e1) != hash(e2):
            res.fail("C19:EdgeIDObj.__hash__:order", "hash(E(a,b)) == hash(E(b,a))", "EdgeIDObj.__hash__", {"a": x, "b": y}, [hash(e1), hash(e2)], "equal")
        if len({e1, e2}) != 1:
            res.fail("C19:EdgeIDObj:set", "both orientations are one set element", "EdgeIDObj.__hash__/__eq__", {"a": x, "b": y}, len({e1, e2}), 1)
        for u, v in itertools.permutations(names, 2):
            e3 = E(Q(u), Q(v))
            res.evaluations += 1
            if (e1 == e3) != ({x, y} == {u, v}):
                res.fail("C19:EdgeIDObj.__eq__:pair", "equal iff same two qubits", "EdgeIDObj.__eq__", {"e1": [x, y], "e3": [u, v]}, e1 == e3, {x, y} == {u, v})
    # 3. order-preserving de-duplication keeps the FIRST occurrence (identity!) of every element.
    #    alphabet with equal-but-distinguishable twins: both orientations of an edge, same-name qubit objects, 1 / 1.0 / True
    qa, qb = Q("D1"), Q("D1")
    ea, eb = E(Q("D1"), Q("Z1")), E(Q("Z1"), Q("D1"))
    alphabet = [qa, qb, ea, eb, Q("D2"), 1, 1.0, True, "s", 2]
    maxlen = 4 if tier == "quick" else 5
    for n in range(0, maxlen + 1):
        for seq in itertools.product(range(len(alphabet)), repeat=n):
            items = [alphabet[i] for i in seq]
            res.evaluations += 1
            res.distinct.add(seq)
            want = []
            for it in items:
                if not any((w is it) or (hash(w) == hash(it) and w == it) for w in want):
                    want.append(it)
            got = uio(items)
            ok = len(got) == len(want) and all(g is w for g, w in zip(got, want))
            if not ok:
                res.fail("C19:unique_in_order:first-occurrence", "result is the sub-sequence of first occurrences (same objects, same order)",
                         "unique_in_order", {"sequence": [repr(x) for x in items]}, [repr(x) for x in got], [repr(x) for x in want],
                         replay_args={"indices": list(seq)})
            if got is items:
                res.fail("C19:unique_in_order:returns-input", "returns a new list", "unique_in_order", {"sequence": [repr(x) for x in items]}, "same list object", "new list")
    res.rule = (f"all pairs of channel identifiers over 3 qubits x 4 channels; all pairs of qubit / edge identifiers over 4 names in both "
                f"orientations; all sequences of length <= {maxlen} over a 10-letter alphabet with equal-but-distinguishable twins; "
                "non-trivial = sequences with a repeated or twin element; distinct = distinct index sequences")
    res.exhaustive = True
    res.samples = [{"sequence": "[E(D1,Z1), Q(D2), E(Z1,D1)]", "checked": "result is [E(D1,Z1), Q(D2)] by identity"}]
    res.stand_ins = [{"function": "ChannelIdentifier.__eq__, QubitIDObj/EdgeIDObj __eq__/__hash__, unique_in_order", "contract": "the four statements of C19",
                      "bound": res.rule, "evaluations": res.evaluations}]


def main():
    a = common.parse_args()
    res = common.Result("C19")
    if a.replay:
        rec, args = common.load_replay(a.replay)
        run(res, "quick")
        key = rec.get("id") or rec.get("key")
        if key in res.failures:
            print("observed:", res.failures[key]["observed"], "required:", res.failures[key]["required"])
            print(f"VIOLATION property=C19 replay={a.replay}")
            sys.exit(1)
        print("clause holds")
        sys.exit(0)
    run(res, a.tier)
    res.write(a.out)


if __name__ == "__main__":
    main()
