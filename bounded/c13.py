"""Bounded run-time stand-in for property C13.

C13: index kernels agree with the experiment circuit they describe.

For every case (description, rounds list, initial state) the REAL circuit is built with
`construct_repetition_code_multi_round_circuit`, the REAL kernel with
`RepetitionExperimentKernel(rounds, heralded=True, qutrit=True, data ids, ancilla ids, 1)`, and three
things are compared per ancilla:

    circuit   indices through `get_acquisition_indices(AcquisitionTag(q, tag))` / `(q)`, segmented into
              blocks (a block starts at every 'heralded' acquisition of the ancilla)
    kernel    the five cycle / calibration getters and `kernel_cycle_length`
    layout    a closed form written from the property statement (this file, `layout()`), used to decide
              WHICH side left the documented experiment layout when circuit and kernel disagree

A failure is raised only where circuit and kernel disagree (that is the statement), or where both left
the layout in the same way.  Beyond the tags, two run-time facts of the circuit are read independently
of the acquisition registry: the chronological order of the ancilla's measurements (start times after
`common.clear_caches()`), and the state-preparation pulses that sit between the heralded and the final
measurement of each calibration point (kernel getters are per state).
"""
import os
import sys

os.environ.setdefault("MPLBACKEND", "Agg")
os.environ.setdefault("TQDM_DISABLE", "1")

import itertools
import json
import multiprocessing
import random
import time
import warnings

sys.path.insert(0, os.path.dirname(os.path.dirname(os.path.abspath(__file__))))
from bounded import common  # noqa: E402

PROP = "C13"
TAGS = ("heralded", "parity", "final")
STATE_PREP = {0: [], 1: ["Rx180"], 2: ["Rx180", "Rx180ef"]}
# The 17-qubit repetition chain contained in `Repetition9Code` (Surface-17), data qubits at even places.
S17_CHAIN = ["D9", "X4", "D8", "X3", "D7", "Z3", "D4", "Z1", "D5", "Z4", "D6", "Z2", "D3", "X2", "D2", "X1", "D1"]


# --------------------------------------------------------------------------------------------------
# closed form written from the statement
# --------------------------------------------------------------------------------------------------
def layout(rounds):
    """Per-ancilla index layout of one experiment repetition (heralded initialisation, qutrit points).

    Block k (rounds[k] = r): one heralded acquisition, then r parity acquisitions (r >= 1), the last of
    which is the projected one; for r == 0 a single acquisition the kernel does not report.
    After the blocks: three calibration points, each (heralded, final), for states 0, 1, 2.
    """
    blocks = []
    cursor = 0
    for r in rounds:
        heralded = cursor
        if r == 0:
            body = []
            unreported = cursor + 1
            cursor += 2
        else:
            body = list(range(cursor + 1, cursor + 1 + r))
            unreported = None
            cursor += 1 + r
        blocks.append({"rounds": r, "heralded": [heralded], "stabilizer_and_projected": body,
                       "projected": body[-1:], "unreported": unreported})
    calibration = []
    for _state in range(3):
        calibration.append({"heralded": [cursor], "final": [cursor + 1]})
        cursor += 2
    return {"blocks": blocks, "calibration": calibration, "length": cursor}


def calibration_layout(n_states):
    return {"calibration": [{"heralded": [2 * s], "final": [2 * s + 1]} for s in range(n_states)], "length": 2 * n_states}


# --------------------------------------------------------------------------------------------------
# building real objects
# --------------------------------------------------------------------------------------------------
def build_description(spec):
    from qce_circuit.library.repetition_code.circuit_components import RepetitionCodeDescription
    from qce_circuit.connectivity import QubitIDObj
    d = spec["distance"]
    refocusing = bool(spec.get("refocusing", True))
    if spec["kind"] == "chain":
        return RepetitionCodeDescription.from_chain(length=2 * d - 1, qubit_refocusing=refocusing)
    if spec["kind"] == "s17":
        from qce_circuit.library.repetition_code.repetition_code_connectivity import Repetition9Code
        start = 2 * spec["start"]
        names = S17_CHAIN[start:start + 2 * d - 1]
        if spec.get("reverse"):
            names = names[::-1]
        return RepetitionCodeDescription.from_connectivity(
            involved_qubit_ids=[QubitIDObj(n) for n in names], connectivity=Repetition9Code(), qubit_refocusing=refocusing)
    raise ValueError(spec["kind"])


def build_initial_state(spec):
    from qce_circuit.language import InitialStateContainer, InitialStateEnum
    if spec is None or spec.get("data") is None:
        return InitialStateContainer.empty()
    conv = {"0": InitialStateEnum.ZERO, "1": InitialStateEnum.ONE}
    data = [conv[ch] for ch in spec["data"]]
    ancilla = [conv[ch] for ch in spec["ancilla"]] if spec.get("ancilla") else None
    return InitialStateContainer.from_ordered_list(data, ancilla)


def flat(x):
    import numpy as np
    return [int(v) for v in np.asarray(x).ravel().tolist()]


def observe_qubit(circuit, qubit_index, chronological=True):
    """Everything the circuit says about one qubit: tag-filtered indices (public getters), and the
    chronological stream of its measurements with the microwave pulses in between."""
    from qce_circuit.structure.intrf_acquisition_operation import AcquisitionTag, IAcquisitionOperation
    from qce_circuit.structure.circuit_operations import Rx180, Rx180ef
    by_tag = {t: flat(circuit.get_acquisition_indices(AcquisitionTag(qubit_index, t))) for t in TAGS}
    every = flat(circuit.get_acquisition_indices(qubit_index))
    if not chronological:
        return {"by_tag": by_tag, "all": every, "chrono": []}
    stream = []
    for op in circuit.operations:
        if isinstance(op, IAcquisitionOperation) and op.acquisition_identifier.qubit_index == qubit_index:
            stream.append((float(op.start_time), 0, "M", op.acquisition_identifier.tag, int(op.acquisition_index)))
        elif isinstance(op, (Rx180, Rx180ef)) and op.qubit_index == qubit_index:
            stream.append((float(op.start_time), 1, type(op).__name__, None, None))
    stream.sort(key=lambda e: (e[0], e[1]))
    chrono = []          # [(index, tag, [pulses since the previous measurement])]
    pulses = []
    for _t, _o, kind, tag, idx in stream:
        if kind == "M":
            chrono.append((idx, tag, pulses))
            pulses = []
        else:
            pulses.append(kind)
    return {"by_tag": by_tag, "all": every, "chrono": chrono}


def segment(obs):
    """Blocks of one qubit's acquisitions in INDEX order; a block starts at a 'heralded' acquisition."""
    tag_of = {}
    for t in TAGS:
        for i in obs["by_tag"][t]:
            tag_of.setdefault(i, []).append(t)
    blocks, head = [], []
    for i in sorted(obs["all"]):
        tags = tag_of.get(i, ["<untagged>"])
        entry = (i, "+".join(tags))
        if tags == ["heralded"]:
            blocks.append([entry])
        elif blocks:
            blocks[-1].append(entry)
        else:
            head.append(entry)
    return head, blocks


def observe_kernel(kernel, qubit_id, rounds):
    from qce_circuit.structure.acquisition_indexing.intrf_stabilizer_index_kernel import StateKey
    states = [StateKey.STATE_0, StateKey.STATE_1, StateKey.STATE_2]
    out = {"length": int(kernel.kernel_cycle_length), "blocks": [], "calibration": []}
    for r in rounds:
        out["blocks"].append({
            "rounds": r,
            "heralded": flat(kernel.get_heralded_cycle_acquisition_indices(qubit_id, r)),
            "stabilizer_and_projected": flat(kernel.get_stabilizer_and_projected_cycle_acquisition_indices(qubit_id, r)),
            "projected": flat(kernel.get_projected_cycle_acquisition_indices(qubit_id, r)),
        })
    for s in states:
        out["calibration"].append({
            "heralded": flat(kernel.get_heralded_calibration_acquisition_indices(qubit_id, s)),
            "final": flat(kernel.get_projected_calibration_acquisition_indices(qubit_id, s)),
        })
    return out


# --------------------------------------------------------------------------------------------------
# evaluation of one case
# --------------------------------------------------------------------------------------------------
def shape_of(rounds):
    s = "rounds-include-0" if 0 in rounds else "rounds-all-positive"
    return s + (":single-block" if len(rounds) == 1 else ":multi-block")


def side(circ, kern, lay):
    """who left the layout"""
    c, k = circ == lay, kern == lay
    if c and not k:
        return "kernel-deviates-from-layout"
    if k and not c:
        return "circuit-deviates-from-layout"
    if not c and not k:
        return "both-deviate-from-layout"
    return "agree"


class Collector:
    """Counts evaluations and records failures.

    Index clauses of ONE qubit are evaluated in stream order with chain=True: an index that is off shifts
    everything behind it, so only the first failing index clause of a qubit is recorded as a failure (the
    root); the keys of the clauses failing behind it are listed in its "consequences".  Clauses that do not
    depend on absolute indices are recorded independently; chain="dependent" clauses need correct indices
    to be meaningful and are recorded only while the qubit has no root failure.
    """

    def __init__(self, case):
        self.case = case
        self.failures = []
        self.evaluations = 0
        self.per_clause = {}
        self._root = None

    def new_scope(self):
        self._root = None

    def check(self, clause_id, ok, key, clause, function, detail, observed, required, chain=False):
        self.evaluations += 1
        self.per_clause[clause_id] = self.per_clause.get(clause_id, 0) + 1
        if ok:
            return
        full = f"{PROP}:{key}"
        if chain and self._root is not None:
            if full not in self._root["consequences"] and full != self._root["key"]:
                self._root["consequences"].append(full)
            return
        w = dict(self.case)
        w.update(detail)
        rec = {"key": full, "clause": clause, "function": function, "witness": w, "observed": observed, "required": required,
               "consequences": [], "replay_args": {"case": self.case, "key": full}}
        w["clauses_failing_behind_it_on_the_same_qubit"] = rec["consequences"]
        self.failures.append(rec)
        if chain is True:
            self._root = rec


FN_CIRCUIT = "qce_circuit.library.repetition_code.circuit_constructors.construct_repetition_code_multi_round_circuit"
FN_KERNEL = "qce_circuit.structure.acquisition_indexing.kernel_repetition_code.RepetitionExperimentKernel"
FN_CALIB = "qce_circuit.library.state_calibration.circuit_constructors.construct_calibration_circuit"


def pick_fn(which):
    return FN_KERNEL if which.startswith("kernel") else FN_CIRCUIT


def evaluate_experiment(case):
    from qce_circuit.library.repetition_code.circuit_constructors import construct_repetition_code_multi_round_circuit
    from qce_circuit.structure.acquisition_indexing.kernel_repetition_code import RepetitionExperimentKernel
    col = Collector(case)
    rounds = list(case["rounds"])
    desc = build_description(case["description"])
    init = build_initial_state(case.get("initial_state"))
    circuit = construct_repetition_code_multi_round_circuit(qec_cycles=list(rounds), description=desc, initial_state=init)
    kernel = RepetitionExperimentKernel(
        rounds=list(rounds), heralded_initialization=True, qutrit_calibration_points=True,
        involved_data_qubit_ids=desc.data_qubit_ids, involved_ancilla_qubit_ids=desc.ancilla_qubit_ids, experiment_repetitions=1)
    common.clear_caches()
    lay = layout(rounds)
    shp = shape_of(rounds)
    n = len(rounds)
    data_info = []
    for qubit_id in desc.ancilla_qubit_ids:
        q = desc.map_qubit_id_to_circuit_index(qubit_id)
        det = {"ancilla": str(qubit_id.id), "ancilla_circuit_index": q}
        obs = observe_qubit(circuit, q)
        ker = observe_kernel(kernel, qubit_id, rounds)
        head, blocks = segment(obs)

        count = len(obs["all"])
        col.new_scope()

        # -- the circuit's indices of the ancilla are its own stream positions 0..count-1, each tagged once,
        #    and they follow the chronological order of the measurements (read from start times)
        ok_range = sorted(obs["all"]) == list(range(count)) and not head and \
            sorted(i for t in TAGS for i in obs["by_tag"][t]) == list(range(count))
        col.check("stream", ok_range, f"circuit-stream:ancilla-indices-are-not-0..n-1-tagged-once:{shp}",
                  "the ancilla's acquisition indices are 0..n-1, every one carries exactly one of the tags heralded/parity/final, the first is heralded",
                  FN_CIRCUIT, det, {"all": obs["all"], "by_tag": obs["by_tag"]}, {"all": list(range(count))}, chain=True)
        chrono_idx = [i for i, _t, _p in obs["chrono"]]
        col.check("stream", chrono_idx == sorted(chrono_idx) and len(chrono_idx) == count,
                  f"circuit-stream:index-order-differs-from-chronological-order:{shp}",
                  "acquisition indices of the ancilla increase with the start time of the measurement",
                  FN_CIRCUIT, det, {"indices_in_time_order": chrono_idx}, {"indices_in_time_order": sorted(chrono_idx)})

        # -- per experiment block
        for k, r in enumerate(rounds):
            blk = blocks[k] if k < len(blocks) else []
            c_her = [i for i, t in blk[:1]]
            c_body = [(i, t) for i, t in blk[1:]]
            kb, lb = ker["blocks"][k], lay["blocks"][k]
            bdet = dict(det, block=k, block_rounds=r)
            pos = "first-block" if k == 0 else "later-block"
            zero = "0-round-block" if r == 0 else ("1-round-block" if r == 1 else "multi-round-block")
            # heralded
            who = side(c_her, kb["heralded"], lb["heralded"])
            col.check("heralded", c_her == kb["heralded"] and who != "both-deviate-from-layout", f"heralded:{who}:{pos}",
                      "index of the block's 'heralded' acquisition == get_heralded_cycle_acquisition_indices(ancilla, rounds[k])",
                      pick_fn(who), bdet, {"circuit": c_her, "kernel": kb["heralded"]}, {"layout": lb["heralded"]}, chain=True)
            if r == 0:
                # documented difference: exactly one acquisition, the block's FINAL measurement of the ancilla
                # (tag 'final'; the kernel's get_final_measurement_index has the documented guard clause for
                # it), unreported by the kernel.  'parity' <-> stabilizer/projected has no exception.
                c_ok = len(c_body) == 1 and c_body[0][1] == "final"
                k_ok = kb["stabilizer_and_projected"] == [] and kb["projected"] == []
                l_ok = [i for i, _ in c_body] == [lb["unreported"]]
                if c_ok and l_ok and not k_ok:
                    who = "kernel-reports-an-index"
                elif k_ok and len(c_body) == 1 and l_ok:
                    who = "circuit-tags-the-single-acquisition-" + c_body[0][1]
                elif k_ok:
                    who = "circuit-does-not-measure-exactly-once"
                else:
                    who = "both-deviate-from-layout"
                col.check("zero-round", c_ok and k_ok and l_ok, f"zero-round-block:{who}:{pos}",
                          "0-round block: the circuit measures the ancilla exactly once after the heralded acquisition (its 'final' "
                          "measurement); the kernel reports no stabilizer/projected index for it",
                          pick_fn(who), bdet, {"circuit": c_body, "kernel_stabilizer_and_projected": kb["stabilizer_and_projected"],
                                               "kernel_projected": kb["projected"]}, {"circuit_index": lb["unreported"], "kernel": []}, chain=True)
                continue
            # parity <-> stabilizer and projected
            c_par = [i for i, _ in c_body]
            tags_ok = all(t == "parity" for _, t in c_body)
            who = side(c_par if tags_ok else None, kb["stabilizer_and_projected"], lb["stabilizer_and_projected"])
            col.check("parity", tags_ok and c_par == kb["stabilizer_and_projected"] and who != "both-deviate-from-layout",
                      f"parity-vs-stabilizer-and-projected:{who}:{zero}:{pos}",
                      "indices of the block's 'parity' acquisitions (in order) == get_stabilizer_and_projected_cycle_acquisition_indices(ancilla, rounds[k])",
                      pick_fn(who), bdet, {"circuit": c_body, "kernel": kb["stabilizer_and_projected"]}, {"layout": lb["stabilizer_and_projected"]}, chain=True)
            c_proj = c_par[-1:] if tags_ok else None
            who = side(c_proj, kb["projected"], lb["projected"])
            col.check("projected", c_proj == kb["projected"] and who != "both-deviate-from-layout",
                      f"last-parity-vs-projected:{who}:{zero}:{pos}",
                      "index of the block's last 'parity' acquisition == get_projected_cycle_acquisition_indices(ancilla, rounds[k])",
                      pick_fn(who), bdet, {"circuit": c_proj, "kernel": kb["projected"]}, {"layout": lb["projected"]}, chain=True)

        # -- calibration points
        chrono_by_index = {i: (t, p) for i, t, p in obs["chrono"]}
        for s in range(3):
            blk = blocks[n + s] if n + s < len(blocks) else []
            c_her = [i for i, t in blk[:1]]
            c_fin = [i for i, t in blk[1:] if t == "final"] if all(t == "final" for _, t in blk[1:]) else None
            kc, lc = ker["calibration"][s], lay["calibration"][s]
            sdet = dict(det, calibration_state=s)
            who = side(c_her, kc["heralded"], lc["heralded"])
            col.check("calibration-heralded", c_her == kc["heralded"] and who != "both-deviate-from-layout",
                      f"calibration-heralded:{who}:state-{s}",
                      "index of the calibration point's 'heralded' acquisition == get_heralded_calibration_acquisition_indices(ancilla, state)",
                      pick_fn(who), sdet, {"circuit": c_her, "kernel": kc["heralded"]}, {"layout": lc["heralded"]}, chain=True)
            who = side(c_fin, kc["final"], lc["final"])
            col.check("calibration-final", c_fin == kc["final"] and who != "both-deviate-from-layout",
                      f"calibration-final:{who}:state-{s}",
                      "index of the calibration point's 'final' acquisition == get_projected_calibration_acquisition_indices(ancilla, state)",
                      pick_fn(who), sdet, {"circuit": blk[1:], "kernel": kc["final"]}, {"layout": lc["final"]}, chain=True)
            # the acquisition the kernel calls "state s" is preceded by the preparation of state s
            idx = kc["final"][0] if len(kc["final"]) == 1 else None
            seen = chrono_by_index.get(idx, (None, None))[1]
            col.check("calibration-state", seen == STATE_PREP[s], f"calibration-state-preparation:circuit-prepares-other-state:state-{s}",
                      "between the heralded and the final acquisition that the kernel reports for calibration state s the circuit "
                      "applies exactly the preparation of state s on that qubit ([] / [Rx180] / [Rx180, Rx180ef])",
                      FN_CALIB, sdet, {"pulses_before_index": idx, "pulses": seen}, {"pulses": STATE_PREP[s]}, chain="dependent")

        # -- number of blocks: len(rounds) experiment blocks + 3 calibration points
        col.check("blocks", len(blocks) == n + 3, f"blocks:number-of-heralded-blocks:{shp}",
                  "the ancilla has len(rounds) + 3 heralded acquisitions (one per block, one per calibration point)",
                  FN_CIRCUIT, det, {"heralded_blocks": len(blocks)}, {"heralded_blocks": n + 3}, chain=True)

        # -- clause: number of acquisitions per ancilla == kernel cycle length
        who = side(count, ker["length"], lay["length"])
        col.check("count", who == "agree", f"cycle-length:{who}:{shp}",
                  "number of acquisitions of the ancilla in the circuit == RepetitionExperimentKernel.kernel_cycle_length "
                  "(== sum(1 + max(r, 1) for r in rounds) + 6)",
                  pick_fn(who), det, {"circuit_acquisitions": count, "kernel_cycle_length": ker["length"]}, {"layout_length": lay["length"]}, chain=True)

    # -- informative only (the statement is per ANCILLA): data qubits, used for a probe in main
    for qubit_id in desc.data_qubit_ids:
        q = desc.map_qubit_id_to_circuit_index(qubit_id)
        obs = observe_qubit(circuit, q, chronological=False)
        ker = observe_kernel(kernel, qubit_id, rounds)
        k_her = sorted(i for b in ker["blocks"] for i in b["heralded"]) + sorted(i for c in ker["calibration"] for i in c["heralded"])
        k_fin = sorted(i for b in ker["blocks"] for i in b["projected"]) + sorted(i for c in ker["calibration"] for i in c["final"])
        data_info.append({"agree": sorted(obs["by_tag"]["heralded"]) == sorted(k_her) and sorted(obs["by_tag"]["final"]) == sorted(k_fin)
                          and obs["by_tag"]["parity"] == [],
                          "count": len(obs["all"])})
    sample = {"input": case, "kernel_cycle_length": int(kernel.kernel_cycle_length),
              "ancillas_checked": len(desc.ancilla_qubit_ids), "checks": col.evaluations, "failures": len(col.failures)}
    return col, sample, data_info


def evaluate_calibration(case):
    """`construct_calibration_circuit` on its own against the calibration kernels (start index 0)."""
    from qce_circuit.library.state_calibration.circuit_components import CalibrationDescription, CalibrateType
    from qce_circuit.library.state_calibration.circuit_constructors import construct_calibration_circuit
    from qce_circuit.structure.acquisition_indexing.kernel_calibration import QutritCalibrationIndexKernel, GeneralCalibrationIndexKernel
    from qce_circuit.structure.acquisition_indexing.intrf_index_strategy import FixedIndexStrategy
    from qce_circuit.structure.acquisition_indexing.intrf_stabilizer_index_kernel import StateKey
    from qce_circuit.connectivity import QubitIDObj
    col = Collector(case)
    ids = [QubitIDObj(f"Q{i}") for i in range(case["qubits"])]
    index_map = {qid: case["indices"][i] for i, qid in enumerate(ids)}
    ctype = {"QUBIT": CalibrateType.QUBIT, "QUTRIT": CalibrateType.QUTRIT}[case["type"]]
    n_states = 2 if case["type"] == "QUBIT" else 3
    circuit = construct_calibration_circuit(CalibrationDescription(_qubit_ids=ids, _qubit_index_map=index_map, _type=ctype))
    common.clear_caches()
    states = [StateKey.STATE_0, StateKey.STATE_1, StateKey.STATE_2]
    lay = calibration_layout(n_states)
    general = GeneralCalibrationIndexKernel(index_offset_strategy=FixedIndexStrategy(index=0), heralded_initialization=True,
                                            f_state=(n_states == 3), repetitions=1)
    qutrit = QutritCalibrationIndexKernel(heralded_initialization=True, index_offset_strategy=FixedIndexStrategy(index=0),
                                          involved_qubit_ids=ids) if n_states == 3 else None
    for qid in ids:
        q = index_map[qid]
        det = {"qubit": str(qid.id), "qubit_circuit_index": q}
        obs = observe_qubit(circuit, q)
        _head, blocks = segment(obs)
        count = len(obs["all"])
        kernels = [("GeneralCalibrationIndexKernel", general.stop_index - general.start_index + 1,
                    [flat(general.get_heralded_state_measurement_index(s)) for s in states[:n_states]],
                    [flat(general.get_calibration_state_measurement_index(s)) for s in states[:n_states]])]
        if qutrit is not None:
            kernels.append(("QutritCalibrationIndexKernel", qutrit.stop_index - qutrit.start_index + 1,
                            [flat(qutrit.get_heralded_state_0_measurement_index(qid)), flat(qutrit.get_heralded_state_1_measurement_index(qid)),
                             flat(qutrit.get_heralded_state_2_measurement_index(qid))],
                            [flat(qutrit.get_state_0_measurement_index(qid)), flat(qutrit.get_state_1_measurement_index(qid)),
                             flat(qutrit.get_state_2_measurement_index(qid))]))
        chrono_by_index = {i: (t, p) for i, t, p in obs["chrono"]}
        chrono_idx = [i for i, _t, _p in obs["chrono"]]
        col.check("calib-stream", sorted(obs["all"]) == list(range(count)) and chrono_idx == sorted(chrono_idx) and len(blocks) == n_states,
                  f"calibration-circuit:stream-not-0..n-1-chronological:{case['type']}",
                  "the qubit's acquisition indices are 0..n-1 in chronological order, one heralded block per calibration state",
                  FN_CALIB, det, {"all": obs["all"], "chrono": chrono_idx, "blocks": len(blocks)}, {"blocks": n_states})
        for name, klen, k_her, k_fin in kernels:
            fn = f"qce_circuit.structure.acquisition_indexing.kernel_calibration.{name}"
            col.new_scope()
            for s in range(n_states):
                blk = blocks[s] if s < len(blocks) else []
                c_her = [i for i, t in blk[:1]]
                c_fin = [i for i, t in blk[1:]] if all(t == "final" for _, t in blk[1:]) else None
                sdet = dict(det, calibration_state=s)
                who = side(c_her, k_her[s], lay["calibration"][s]["heralded"])
                col.check("calib-heralded", c_her == k_her[s] and who != "both-deviate-from-layout",
                          f"calibration-circuit:heralded:{name}:{who}:state-{s}",
                          f"index of the 'heralded' acquisition of calibration state s == {name} heralded getter",
                          fn if who.startswith("kernel") else FN_CALIB, sdet, {"circuit": c_her, "kernel": k_her[s]}, {"layout": lay["calibration"][s]["heralded"]}, chain=True)
                who = side(c_fin, k_fin[s], lay["calibration"][s]["final"])
                col.check("calib-final", c_fin == k_fin[s] and who != "both-deviate-from-layout",
                          f"calibration-circuit:final:{name}:{who}:state-{s}",
                          f"index of the 'final' acquisition of calibration state s == {name} state getter",
                          fn if who.startswith("kernel") else FN_CALIB, sdet, {"circuit": blk[1:], "kernel": k_fin[s]}, {"layout": lay["calibration"][s]["final"]}, chain=True)
                idx = k_fin[s][0] if len(k_fin[s]) == 1 else None
                seen = chrono_by_index.get(idx, (None, None))[1]
                col.check("calib-state", seen == STATE_PREP[s], f"calibration-circuit:state-preparation:{name}:circuit-prepares-other-state:state-{s}",
                          "the acquisition the kernel reports for state s is preceded (since the heralded one) by exactly the preparation of state s",
                          FN_CALIB, sdet, {"pulses_before_index": idx, "pulses": seen}, {"pulses": STATE_PREP[s]}, chain="dependent")
            who = side(count, klen, lay["length"])
            col.check("calib-count", count == klen and who != "both-deviate-from-layout", f"calibration-circuit:length:{name}:{who}:{case['type']}",
                      f"acquisitions per qubit of the calibration circuit == {name}.stop_index - start_index + 1",
                      fn if who.startswith("kernel") else FN_CALIB, det, {"circuit": count, "kernel": klen}, {"layout": lay["length"]}, chain=True)
    sample = {"input": case, "qubits_checked": len(ids), "checks": col.evaluations, "failures": len(col.failures)}
    return col, sample, []


def evaluate(case):
    if case["kind"] == "experiment":
        return evaluate_experiment(case)
    return evaluate_calibration(case)


def worker(case):
    warnings.filterwarnings("ignore")
    devnull = open(os.devnull, "w")
    old = sys.stderr
    sys.stderr = devnull
    try:
        t0 = time.time()
        col, sample, data_info = evaluate(case)
        return {"case": case, "ok": True, "seconds": time.time() - t0, "failures": col.failures, "evaluations": col.evaluations, "per_clause": col.per_clause,
                "sample": sample, "data_info": data_info}
    except Exception as e:  # the input could not be built / evaluated: never silently skipped
        import traceback
        return {"case": case, "ok": False, "error": f"{type(e).__name__}: {e}", "trace": traceback.format_exc()[-1500:]}
    finally:
        sys.stderr = old
        devnull.close()


# --------------------------------------------------------------------------------------------------
# enumeration
# --------------------------------------------------------------------------------------------------
def rounds_lists(values, max_len):
    out = []
    for length in range(1, max_len + 1):
        out.extend(list(p) for p in itertools.permutations(values, length))
    return out


def all_states(d):
    return ["".join(bits) for bits in itertools.product("01", repeat=d)]


def case_cost(case):
    if case["kind"] != "experiment":
        return 1
    d = case["description"]["distance"]
    layers = 2 if case["description"]["kind"] == "s17" else 1
    return d * layers * (sum(case["rounds"]) + 2 * len(case["rounds"]) + 3)


def enumerate_cases(tier, seed):
    rng = random.Random(seed)
    cases = []
    exhaustive_note = ""
    base_lists = rounds_lists(range(0, 6), 3)          # 156 lists: distinct values 0..5, length <= 3, every order
    if tier == "quick":
        # chain descriptions, distances 2..5, every rounds list; the initial state walks through all 2^d
        # computational data states (and the empty container) as the rounds lists go by
        for d in range(2, 6):
            states = [None] + all_states(d)
            for j, rl in enumerate(base_lists):
                st = states[(j + seed) % len(states)]
                cases.append({"kind": "experiment", "description": {"kind": "chain", "distance": d, "refocusing": True},
                              "rounds": rl, "initial_state": {"data": st}})
        # Surface-17 sub-chains (from_connectivity): every start, distances 2..5, a seeded pick of rounds lists
        for d in range(2, 6):
            for start in range(0, 9 - d + 1):
                rl = base_lists[rng.randrange(len(base_lists))]
                cases.append({"kind": "experiment", "description": {"kind": "s17", "distance": d, "start": start, "refocusing": bool((start + d) % 2),
                                                                   "reverse": bool(start % 2)},
                              "rounds": rl, "initial_state": {"data": rng.choice(all_states(d))}})
        exhaustive_note = ("quick: chain d in 2..5 x all 156 rounds lists (distinct values 0..5, length <= 3, every order) exhaustively, "
                           "initial data state cycling through all 2^d computational states and the empty container; "
                           "26 Surface-17 sub-chains with one seeded rounds list each")
    else:
        # d = 2, 3: full product (every rounds list) x (every computational data state + the empty container)
        # d = 4:    every rounds list x 8 states, and every one of the 16 states (+ empty) x every list of length <= 2
        # d = 5:    every rounds list x 4 states, and every one of the 32 states (+ empty) x every list of length 1
        short_lists = {4: rounds_lists(range(0, 6), 2), 5: rounds_lists(range(0, 6), 1)}
        for d in range(2, 6):
            every = [None] + all_states(d)
            if d <= 3:
                plan = [(base_lists, every)]
            else:
                pool = all_states(d)
                fixed = [None, "0" * d, "1" * d, ("01" * d)[:d]]
                if d == 4:
                    fixed = fixed + [("10" * d)[:d]] + [pool[rng.randrange(len(pool))] for _ in range(3)]
                plan = [(base_lists, fixed), (short_lists[d], every)]
            for lists, states in plan:
                for rl in lists:
                    for st in states:
                        cases.append({"kind": "experiment", "description": {"kind": "chain", "distance": d, "refocusing": True},
                                      "rounds": rl, "initial_state": {"data": st}})
        # longer lists / larger counts (seeded): length 4..5 with values <= 8, distances 2..4
        longer = []
        for _ in range(160):
            length = rng.choice([4, 4, 5])
            longer.append(rng.sample(range(0, 9), length))
        for j, rl in enumerate(longer):
            d = 2 + j % 3
            cases.append({"kind": "experiment", "description": {"kind": "chain", "distance": d, "refocusing": bool(j % 2)},
                          "rounds": rl, "initial_state": {"data": rng.choice(all_states(d))}})
        # refocusing off and ancilla initial states, all lists of length <= 2, d = 2..4
        for d in range(2, 5):
            for rl in rounds_lists(range(0, 6), 2):
                anc = "".join(rng.choice("01") for _ in range(d - 1))
                cases.append({"kind": "experiment", "description": {"kind": "chain", "distance": d, "refocusing": False},
                              "rounds": rl, "initial_state": {"data": rng.choice(all_states(d)), "ancilla": anc}})
        # Surface-17 sub-chains: every start x distance, both directions, all lists of length <= 2 (d <= 3) / 12 seeded lists (d >= 4)
        for d in range(2, 6):
            for start in range(0, 9 - d + 1):
                for rev in (False, True):
                    lists = rounds_lists(range(0, 6), 2) if d <= 3 else [base_lists[rng.randrange(len(base_lists))] for _ in range(12)]
                    for rl in lists:
                        cases.append({"kind": "experiment", "description": {"kind": "s17", "distance": d, "start": start,
                                                                           "refocusing": bool(rng.randrange(2)), "reverse": rev},
                                      "rounds": rl, "initial_state": {"data": rng.choice(all_states(d))}})
        exhaustive_note = ("thorough: chain d in 2..3 x all 156 rounds lists (distinct values 0..5, length <= 3, every order) x (all 2^d "
                           "computational data states + empty container) exhaustively; d = 4: all 156 lists x 8 states and all 16 states x "
                           "all lists of length <= 2; d = 5: all 156 lists x 4 states and all 32 states x all lists of length 1; 160 seeded "
                           "lists of length 4..5 with values <= 8 (d 2..4); refocusing off with ancilla initial states for all lists of "
                           "length <= 2 (d 2..4); all 26 Surface-17 sub-chains in both directions (all lists of length <= 2 for d <= 3, 12 seeded lists for d >= 4)")
    # stand-alone calibration constructor
    for ctype in ("QUBIT", "QUTRIT"):
        for nq in range(1, 10 if tier == "thorough" else 6):
            orders = [list(range(nq)), list(range(nq))[::-1]]
            shuffled = list(range(3, 3 + nq))
            rng.shuffle(shuffled)
            orders.append(shuffled)
            for order in orders:
                cases.append({"kind": "calibration", "type": ctype, "qubits": nq, "indices": order})
    return cases, exhaustive_note


def case_id(case):
    return json.dumps(case, sort_keys=True)


def nontrivial(case):
    """A case is non-trivial when it exercises more than the single-block, positive-rounds layout:
    experiment cases with >= 2 blocks or a 0-round block; calibration cases with >= 2 qubits."""
    if case["kind"] == "experiment":
        return len(case["rounds"]) >= 2 or 0 in case["rounds"]
    return case["qubits"] >= 2


def witness_size(case):
    if case["kind"] == "experiment":
        return (case["description"]["distance"], 0 if case["description"]["kind"] == "chain" else 1, len(case["rounds"]), sum(case["rounds"]))
    return (case["qubits"], 0, 0, 0)


# --------------------------------------------------------------------------------------------------
# main / replay
# --------------------------------------------------------------------------------------------------
STAND_INS = [
    ("count", FN_CIRCUIT, "len(get_acquisition_indices(ancilla)) == RepetitionExperimentKernel.kernel_cycle_length (== sum(1 + max(r,1)) + 6)"),
    ("stream", FN_CIRCUIT, "ancilla indices are 0..n-1, tagged exactly once, first one heralded, increasing with measurement start time"),
    ("blocks", FN_CIRCUIT, "ancilla has len(rounds) + 3 heralded acquisitions"),
    ("heralded", FN_CIRCUIT + " vs get_heralded_cycle_acquisition_indices", "index of block k's 'heralded' acquisition == kernel heralded index for rounds[k]"),
    ("parity", FN_CIRCUIT + " vs get_stabilizer_and_projected_cycle_acquisition_indices", "ordered indices of block k's 'parity' acquisitions == kernel stabilizer-and-projected indices for rounds[k] (rounds[k] >= 1)"),
    ("projected", FN_CIRCUIT + " vs get_projected_cycle_acquisition_indices", "index of block k's last 'parity' acquisition == kernel projected index (rounds[k] >= 1)"),
    ("zero-round", FN_CIRCUIT + " vs kernel", "0-round block: exactly one more ancilla acquisition in the circuit (tag 'final', index heralded + 1), kernel reports [] for stabilizer/projected"),
    ("calibration-heralded", FN_CIRCUIT + " vs get_heralded_calibration_acquisition_indices", "index of calibration point s's 'heralded' acquisition == kernel index, s in 0..2"),
    ("calibration-final", FN_CIRCUIT + " vs get_projected_calibration_acquisition_indices", "index of calibration point s's 'final' acquisition == kernel index, s in 0..2"),
    ("calibration-state", FN_CALIB, "pulses on the qubit between heralded and final acquisition of point s == preparation of state s"),
    ("calib-stream", FN_CALIB, "stand-alone calibration circuit: indices 0..n-1 chronological, one heralded block per state"),
    ("calib-count", FN_CALIB + " vs Qutrit/GeneralCalibrationIndexKernel", "acquisitions per qubit == kernel length (4 QUBIT / 6 QUTRIT)"),
    ("calib-heralded", FN_CALIB + " vs calibration kernels", "heralded index per state == kernel heralded getter"),
    ("calib-final", FN_CALIB + " vs calibration kernels", "final index per state == kernel state getter"),
    ("calib-state", FN_CALIB, "state preparation before the acquisition the kernel reports for state s"),
]


def run(args):
    res = common.Result(PROP)
    tier = args.tier if args.tier in ("quick", "thorough") else "quick"
    cases, note = enumerate_cases(tier, args.seed)
    # de-duplicate, longest first for load balance
    seen, uniq = set(), []
    for c in cases:
        cid = case_id(c)
        if cid not in seen:
            seen.add(cid)
            uniq.append(c)
    order = sorted(range(len(uniq)), key=lambda i: -case_cost(uniq[i]))
    procs = min(16, os.cpu_count() or 1)
    per_clause = {}
    best = {}
    data_agree = {"all_rounds_le_1": [0, 0], "some_round_ge_2": [0, 0]}
    results = [None] * len(uniq)
    all_samples = []
    ctx = multiprocessing.get_context("fork")
    with ctx.Pool(procs) as pool:
        for i, out in zip(order, pool.imap(worker, [uniq[i] for i in order], chunksize=1)):
            results[i] = out
    for c, out in zip(uniq, results):
        if not out["ok"]:
            res.skip(out["error"][:200])
            res.fail(f"{PROP}:harness:input-could-not-be-built-or-evaluated:{out['error'].split(':')[0]}",
                     "every enumerated input can be built through the public API and evaluated", FN_CIRCUIT,
                     c, observed=out["error"] + "\n" + out.get("trace", ""), required="no exception",
                     replay_args={"case": c, "key": f"{PROP}:harness:input-could-not-be-built-or-evaluated:{out['error'].split(':')[0]}"})
            continue
        res.evaluations += out["evaluations"]
        for k, v in out["per_clause"].items():
            per_clause[k] = per_clause.get(k, 0) + v
        if nontrivial(c):
            res.distinct.add(case_id(c))
        all_samples.append(out["sample"])
        for f in out["failures"]:
            sz = witness_size(c)
            if f["key"] not in best or sz < best[f["key"]][0]:
                best[f["key"]] = (sz, f)
        if c["kind"] == "experiment":
            bucket = "all_rounds_le_1" if max(c["rounds"]) <= 1 else "some_round_ge_2"
            for di in out["data_info"]:
                data_agree[bucket][0] += 1
                data_agree[bucket][1] += 1 if di["agree"] else 0
    if all_samples:
        step = max(1, len(all_samples) // 7)
        res.samples = all_samples[::step][:7] + [all_samples[-1]]
    for key in sorted(best):
        f = best[key][1]
        res.fail(f["key"], f["clause"], f["function"], f["witness"], f["observed"], f["required"], f["replay_args"])
    n_exp = sum(1 for c in uniq if c["kind"] == "experiment")
    res.rule = (f"{note}; stand-alone calibration circuits QUBIT/QUTRIT on 1..{9 if tier == 'thorough' else 5} qubits with 3 index maps each. "
                f"Every case builds the real circuit (heralded initialisation and qutrit points are what the constructor always emits) and the real "
                f"RepetitionExperimentKernel(heralded=True, qutrit=True, repetitions=1) and evaluates every clause for EVERY ancilla. "
                f"Non-trivial: experiment cases with >= 2 blocks or a 0-round block, calibration cases with >= 2 qubits. "
                f"{n_exp} experiment cases, {len(uniq) - n_exp} calibration cases, {procs} processes.")
    res.exhaustive = True
    bound = "tier " + tier + ": " + note
    for cid, fn, contract in STAND_INS:
        res.stand_ins.append({"function": fn, "contract": contract, "bound": bound if not cid.startswith("calib-") else
                              f"QUBIT/QUTRIT, 1..{9 if tier == 'thorough' else 5} qubits, 3 index maps", "evaluations": per_clause.get(cid, 0)})
    a1, a2 = data_agree["all_rounds_le_1"], data_agree["some_round_ge_2"]
    res.probes.append({"assumption": "the statement is per ANCILLA only: for DATA qubits the kernel numbers acquisitions in the ancilla's frame "
                                     "(final slot of the block), the circuit measures a data qubit twice per block; they coincide exactly when every "
                                     f"rounds entry is <= 1 (observed: {a1[1]}/{a1[0]} data qubits agree when all rounds <= 1, {a2[1]}/{a2[0]} when some round >= 2)",
                       "ok": a1[0] == a1[1] and a2[1] == 0})
    res.probes.append({"assumption": "every clause was evaluated at least once", "ok": all(per_clause.get(cid, 0) > 0 for cid, _f, _c in STAND_INS)})
    out = res.write(args.out)
    print(f"{PROP} bounded: tier={tier} cases={len(uniq)} evaluations={res.evaluations} failures={len(res.failures)} "
          f"skipped={sum(res.skipped.values())} wall={out['wall_s']}s")
    for k in res.failures:
        print("  FAIL", k)
    return 0


def replay(path):
    rec, ra = common.load_replay(path)
    case = ra.get("case", ra)
    key = ra.get("key") or rec.get("key") or rec.get("id") or rec.get("obligation")
    out = worker(case)
    print(f"replay {PROP}: case = {json.dumps(case)}")
    if not out["ok"]:
        print("input cannot be built / evaluated:", out["error"])
        print(out.get("trace", ""))
        print(f"VIOLATION property={PROP} replay={path}")
        return 1
    keys = sorted({f["key"] for f in out["failures"]})
    print(f"evaluations on this input: {out['evaluations']}; failing clause classes now: {keys}")
    hit = [f for f in out["failures"] if key is None or f["key"] == key or key in f.get("consequences", [])]
    for f in hit[:3]:
        print(json.dumps({"key": f["key"], "clause": f["clause"], "witness": f["witness"], "observed": f["observed"], "required": f["required"]},
                         indent=1, default=str))
    if hit:
        print(f"VIOLATION property={PROP} replay={path}")
        return 1
    print("clause holds on this input now")
    return 0


def main(argv=None):
    args = common.parse_args(argv)
    warnings.filterwarnings("ignore")
    if args.replay:
        return replay(args.replay)
    return run(args)


if __name__ == "__main__":
    sys.exit(main())
