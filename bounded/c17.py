"""Bounded stand-in (tier B) for property C17: declared and derived gate-sequence layouts are executable.

Interface: see bounded/README.md.  Run from /verif:
    PYTHONPATH=/verif /venv/bin/python bounded/c17.py --tier quick --seed 0 --out build/C17.bounded.json
    PYTHONPATH=/verif /venv/bin/python bounded/c17.py --replay replays/C17/<file>.json

ORACLE (independent of the code under test)
-------------------------------------------
* The device is MY OWN transcription of the Surface-17 chip: a coordinate per qubit (COORD), device edges :=
  pairs of qubits at Manhattan distance 1, neighbourhood := the adjacency of that graph, idle frequency level
  (FREQ: D4,D5,D6 high; all X*/Z* ancillas mid; D1-3,D7-9 low).  None of this is read from the library.  The
  library's own tables (Surface17Layer edge list / frequency lookup / parity groups / neighbour functions) are
  *checked against* this reference (input kind "surface17"); they are never used to judge a layout.
* Parking requirement (from the property text + C16's wording): for a set S of gates on pairwise distinct
  qubits, an idle qubit q requires parking iff some gate g in S has q neighbouring its higher-frequency
  ("moving") member and q idles at the operating level of g (= level of g's lower-frequency member).
* What a layout *declares* (its layers: gate pairs and park qubits, its parity groups) is necessarily library
  data: it is the input.  It is read from the raw dataclass fields (`_gate_sequences`, `_gate_operations`,
  `_park_operations`, `identifier.qubit_id0/1._id`, `_ancilla_qubit`, `_data_qubits`), not through the
  accessor functions under test; the accessors are then compared against that raw reading.
* Expected content of a derived description is recomputed here from the raw layout tables and the input
  (involved ids, exclusions) by a few lines of set algebra over strings.
"""
import hashlib
import itertools
import json
import multiprocessing as mp
import os
import random
import sys
import time
import traceback

from bounded import common

PROP = "C17"

# ------------------------------------------------------------------------------------------------------------
# Own reading of the device (Surface-17): coordinates, edges, neighbourhood, frequency levels, chains
# ------------------------------------------------------------------------------------------------------------
COORD = {
    'D1': (0, -2), 'X1': (1, -2),
    'Z3': (-2, -1), 'D4': (-1, -1), 'Z1': (0, -1), 'D2': (1, -1),
    'D7': (-2, 0), 'X3': (-1, 0), 'D5': (0, 0), 'X2': (1, 0), 'D3': (2, 0),
    'D8': (-1, 1), 'Z4': (0, 1), 'D6': (1, 1), 'Z2': (2, 1),
    'X4': (-1, 2), 'D9': (0, 2),
}
QUBITS = sorted(COORD)                       # 17 identifiers, fixed order used for bit masks
LOW, MID, HIGH = 0, 1, 2
FREQ = {q: (HIGH if q in ('D4', 'D5', 'D6') else MID if q[0] in 'XZ' else LOW) for q in QUBITS}


def _dist(a, b):
    return abs(COORD[a][0] - COORD[b][0]) + abs(COORD[a][1] - COORD[b][1])


EDGES = {frozenset((a, b)) for a in QUBITS for b in QUBITS if a < b and _dist(a, b) == 1}
NB = {q: {b for e in EDGES if q in e for b in e if b != q} for q in QUBITS}
assert len(EDGES) == 24 and all(FREQ[a] != FREQ[b] for a, b in map(tuple, EDGES))
# structural facts of the reference itself (checkerboard: an edge always joins an ancilla and a data qubit)
assert all(sum(1 for q in e if q[0] == 'D') == 1 for e in EDGES)

CHAIN17 = ['D1', 'X1', 'D2', 'X2', 'D3', 'Z2', 'D6', 'Z4', 'D5', 'Z1', 'D4', 'Z3', 'D7', 'X3', 'D8', 'X4', 'D9']
CHAIN9 = ['D3', 'Z2', 'D6', 'Z4', 'D5', 'Z1', 'D4', 'X3', 'D7']
assert all(frozenset(p) in EDGES for c in (CHAIN17, CHAIN9) for p in zip(c, c[1:]))

LAYOUT_NAMES = ["Repetition9Code", "Repetition9Round6Code", "Repetition5Round4Code"]


def required_parks(gates):
    """own evaluator of 'qubits that require parking for this set of gates' (gates: list of (a, b) device edges
    on pairwise distinct qubits).  Returns {q: (gate, moving member)}."""
    gated = {q for g in gates for q in g}
    out = {}
    for g in gates:
        a, b = g
        hi, lo = (a, b) if FREQ[a] > FREQ[b] else (b, a)
        for q in sorted(NB[hi]):
            if q not in gated and FREQ[q] == FREQ[lo]:
                out.setdefault(q, (list(g), hi))
    return out


# ------------------------------------------------------------------------------------------------------------
# Access to the real objects
# ------------------------------------------------------------------------------------------------------------
_LIB = {}


def lib():
    if not _LIB:
        from qce_circuit.library.repetition_code import repetition_code_connectivity as rc
        from qce_circuit.library.repetition_code import circuit_components as cc
        from qce_circuit.connectivity import connectivity_surface_code as sc
        from qce_circuit.connectivity import intrf_channel_identifier as ci
        from qce_circuit.connectivity import intrf_connectivity_gate_sequence as gs
        from qce_circuit.connectivity import intrf_connectivity_surface_code as isc
        from qce_circuit.utilities import custom_exceptions as ce
        _LIB.update(rc=rc, cc=cc, sc=sc, ci=ci, gs=gs, isc=isc, ce=ce)
    return _LIB


def get_layout(name):
    return getattr(lib()["rc"], name)()


def Q(s):
    return lib()["ci"].QubitIDObj(s)


def E(a, b):
    return lib()["ci"].EdgeIDObj(Q(a), Q(b))


def qid(q):
    """raw identifier string of a qubit-id object"""
    v = getattr(q, "_id", None)
    return v if isinstance(v, str) else q.id


def raw_edge(e):
    return (qid(e.qubit_id0), qid(e.qubit_id1))


def raw_layer(layer):
    """(gates [(a, b)], parks [q]) from the raw dataclass fields of a GateSequenceLayer"""
    gates = [raw_edge(op.identifier) for op in layer._gate_operations]
    parks = [qid(op.identifier) for op in layer._park_operations]
    return gates, parks


def raw_parity(L):
    """[(ancilla, [data...], type-name)] from the raw fields of the layout's parity groups (x then z)"""
    out = []
    for pg in list(L._parity_group_x) + list(L._parity_group_z):
        out.append((qid(pg._ancilla_qubit), [qid(d) for d in pg._data_qubits], pg._parity_type.name))
    return out


def public_layers(L):
    """the layout's layers as published by its accessors (count + get_gate_sequence_at_index), read from raw fields"""
    return [raw_layer(L.get_gate_sequence_at_index(i)) for i in range(L.gate_sequence_count)]


def uniq(seq):
    seen, out = set(), []
    for s in seq:
        if s not in seen:
            seen.add(s)
            out.append(s)
    return out


def ms(pairs):
    """multiset of unordered pairs, as a sorted list of sorted lists (JSON-able, comparable)"""
    return sorted(sorted(p) for p in pairs)


# ------------------------------------------------------------------------------------------------------------
# Failure collection
# ------------------------------------------------------------------------------------------------------------
class Ev:
    """result of evaluating all clauses on ONE input record"""

    def __init__(self, rec):
        self.rec = rec
        self.counts = {}
        self.fails = []
        self.nontrivial = False

    def n(self, stand_in, k=1):
        self.counts[stand_in] = self.counts.get(stand_in, 0) + k

    def fail(self, key, clause, function, detail, observed=None, required=None):
        key = "%s:%s" % (PROP, key)
        if any(f["key"] == key for f in self.fails):
            return
        ra = dict(self.rec)
        ra["key"] = key
        self.fails.append({"key": key, "clause": clause, "function": function,
                           "witness": {"input": self.rec, "detail": detail},
                           "observed": observed, "required": required, "replay_args": ra})


# ------------------------------------------------------------------------------------------------------------
# Clause evaluators shared by shipped layouts and derived descriptions
# ------------------------------------------------------------------------------------------------------------
def check_layers_executable(ev, who, function, layers, stand_in, park_class=None):
    """clauses (a) gates are device edges on pairwise distinct qubits, (b) nobody parked and gated,
    (c) every qubit requiring parking is parked -- on raw layers [(gates, parks)].
    park_class(i, q) may refine the witness class of a missing park."""
    for i, (gates, parks) in enumerate(layers):
        ok_edges = True
        for g in gates:
            ev.n(stand_in)
            if g[0] not in COORD or g[1] not in COORD or frozenset(g) not in EDGES:
                ok_edges = False
                ev.fail("%s:gate-is-not-a-device-edge" % who, "each layer's gates are real device edges", function,
                        {"layer": i, "gate": list(g)}, observed=list(g), required="a pair of qubits at distance 1 on the chip")
        gq = [q for g in gates for q in g]
        ev.n(stand_in)
        if len(set(gq)) != len(gq):
            ok_edges = False
            dup = sorted(q for q in set(gq) if gq.count(q) > 1)
            ev.fail("%s:qubit-in-two-gates-of-a-layer" % who, "the gates of a layer are on pairwise distinct qubits", function,
                    {"layer": i, "gates": [list(g) for g in gates], "qubits": dup}, observed=dup, required=[])
        ev.n(stand_in)
        both = sorted(set(parks) & set(gq))
        if both:
            ev.fail("%s:qubit-parked-and-gated" % who, "no qubit is both parked and gated in a layer", function,
                    {"layer": i, "qubits": both, "gates": [list(g) for g in gates], "parks": parks}, observed=both, required=[])
        ev.n(stand_in)
        bad = sorted(p for p in parks if p not in COORD)
        if bad:
            ev.fail("%s:parked-qubit-not-on-device" % who, "parked qubits are device qubits", function,
                    {"layer": i, "qubits": bad}, observed=bad, required=[])
        if ok_edges:
            ev.n(stand_in)
            req = required_parks(gates)
            missing = sorted(q for q in req if q not in parks)
            if missing:
                q = missing[0]
                cls = park_class(i, q) if park_class else ""
                ev.fail("%s:required-park-missing%s" % (who, cls),
                        "every qubit that requires parking for the layer's gates is parked", function,
                        {"layer": i, "missing": missing, "because": {m: {"gate": req[m][0], "moving": req[m][1]} for m in missing},
                         "gates": [list(g) for g in gates], "parks": parks,
                         "info_library_get_requires_parking": library_requires_parking(missing, gates)},
                        observed=sorted(parks), required="superset of %s" % sorted(req))


def library_requires_parking(qubits, gates):
    """INFORMATION for the witness only (never used to decide): what the library's own predicate says"""
    try:
        sc = lib()["sc"]
        return {q: bool(sc.get_requires_parking(Q(q), [E(*g) for g in gates], sc.Surface17Layer())) for q in qubits}
    except Exception as ex:  # noqa
        return "raises %s" % type(ex).__name__


def check_parity_coverage(ev, who, function, layers, parity, kept, stand_in):
    """over one full sequence every ancilla-data edge of every parity group is exercised exactly once
    (`kept(a, d)`: whether that edge is expected to be present in this description at all)"""
    count = {}
    for gates, _ in layers:
        for g in gates:
            count[frozenset(g)] = count.get(frozenset(g), 0) + 1
    for anc, data, _t in parity:
        for d in data:
            ev.n(stand_in)
            want = 1 if kept(anc, d) else 0
            got = count.get(frozenset((anc, d)), 0)
            if got != want:
                cls = "never" if got == 0 else ("more-than-once" if want == 1 else "although-not-kept")
                ev.fail("%s:parity-edge-exercised-%s" % (who, cls),
                        "over one full sequence every ancilla-data edge of every parity group is exercised exactly once",
                        function, {"ancilla": anc, "data": d}, observed=got, required=want)


# ------------------------------------------------------------------------------------------------------------
# kind "surface17": the device tables of the library against my reference
# ------------------------------------------------------------------------------------------------------------
def eval_surface17(ev):
    sc, ci = lib()["sc"], lib()["ci"]
    S = sc.Surface17Layer()
    f = "Surface17Layer tables (connectivity_surface_code.py)"
    si = "surface17"
    ev.nontrivial = True
    # qubits
    qs = [qid(q) for fl in S._feedline_qubit_lookup.values() for q in fl]
    ev.n(si)
    if sorted(qs) != QUBITS:
        ev.fail("Surface17Layer.qubit_ids:differs-from-chip", "the layout's qubits are the 17 chip qubits, each once", f,
                {}, observed=sorted(qs), required=QUBITS)
    ev.n(si)
    if [qid(q) for q in S.qubit_ids] != qs:
        ev.fail("Surface17Layer.qubit_ids:accessor-differs-from-table", "qubit_ids flattens the feedline table", f, {},
                observed=[qid(q) for q in S.qubit_ids], required=qs)
    # edges
    raw = [raw_edge(e) for e in S._qubit_edges]
    for a, b in raw:
        ev.n(si)
        if a not in COORD or b not in COORD or frozenset((a, b)) not in EDGES:
            ev.fail("Surface17Layer.edge_ids:edge-not-on-chip", "declared device edges join chip qubits at distance 1", f,
                    {"edge": [a, b]}, observed=[a, b], required="distance 1")
    ev.n(si)
    es = [frozenset(e) for e in raw]
    if len(set(es)) != len(es):
        ev.fail("Surface17Layer.edge_ids:duplicate-edge", "every device edge is declared once", f, {},
                observed=ms([e for e in raw if es.count(frozenset(e)) > 1]), required=[])
    ev.n(si)
    if set(es) != EDGES:
        ev.fail("Surface17Layer.edge_ids:chip-edge-missing", "every pair at distance 1 is a declared edge", f, {},
                observed=ms(EDGES - set(es)), required=[])
    ev.n(si)
    if [raw_edge(e) for e in S.edge_ids] != raw:
        ev.fail("Surface17Layer.edge_ids:accessor-differs-from-table", "edge_ids returns the table", f, {})
    # frequency
    for q in QUBITS:
        ev.n(si)
        try:
            lv = S.get_frequency_group_identifier(Q(q)).id.name
        except Exception as ex:  # noqa
            lv = "raises %s" % type(ex).__name__
        want = {LOW: "LOW", MID: "MID", HIGH: "HIGH"}[FREQ[q]]
        if lv != want:
            ev.fail("Surface17Layer.frequency_group:differs-from-chip", "frequency group of each qubit", f, {"qubit": q},
                    observed=lv, required=want)
    # neighbourhood functions against my adjacency
    for q in QUBITS:
        ev.n(si)
        got = sorted(qid(x) for x in S.get_neighbors(Q(q)))
        if got != sorted(NB[q]):
            ev.fail("Surface17Layer.get_neighbors:differs-from-chip", "neighbours = qubits at distance 1", f, {"qubit": q},
                    observed=got, required=sorted(NB[q]))
        ev.n(si)
        got = ms(raw_edge(e) for e in S.get_edges(Q(q)))
        want = ms(e for e in EDGES if q in e)
        if got != want:
            ev.fail("Surface17Layer.get_edges:differs-from-chip", "edges of a qubit", f, {"qubit": q}, observed=got, required=want)
    for e in sorted(map(sorted, EDGES)):
        ev.n(si)
        got = sorted(qid(x) for x in sc.get_neighbors(E(*e), S))
        want = sorted(NB[e[0]] | NB[e[1]])
        if got != want:
            ev.fail("get_neighbors(edge):differs-from-chip", "neighbours of an edge = union of its members' neighbours", f,
                    {"edge": e}, observed=got, required=want)
        for a, b in (e, e[::-1]):
            ev.n(si)
            hi = a if FREQ[a] > FREQ[b] else b
            got = (qid(sc.get_higher_frequency_qubit_id(E(a, b), S)), qid(sc.get_lower_frequency_qubit_id(E(a, b), S)),
                   bool(sc.on_moving_side(Q(a), E(a, b), S)))
            want = (hi, b if hi == a else a, hi == a)
            if got != want:
                ev.fail("on_moving_side:differs-from-frequency-levels", "moving member = higher-frequency member of an edge", f,
                        {"edge": [a, b]}, observed=list(got), required=list(want))
    # parity groups: plaquettes of the chip
    par = raw_parity(S)
    ev.n(si)
    ancs = [a for a, _, _ in par]
    if sorted(ancs) != sorted(q for q in QUBITS if q[0] in 'XZ'):
        ev.fail("Surface17Layer.parity_groups:ancillas-differ-from-chip", "one parity group per ancilla", f, {},
                observed=sorted(ancs), required=sorted(q for q in QUBITS if q[0] in 'XZ'))
    for a, ds, t in par:
        ev.n(si)
        if a in NB and sorted(ds) != sorted(NB[a]) or a not in NB:
            ev.fail("Surface17Layer.parity_groups:data-differ-from-plaquette", "data qubits of a group = chip neighbours of its ancilla", f,
                    {"ancilla": a}, observed=ds, required=sorted(NB.get(a, [])))
        ev.n(si)
        if t != "STABILIZER_" + a[0]:
            ev.fail("Surface17Layer.parity_groups:type-differs-from-name", "X ancillas carry X stabilisers, Z ancillas Z", f,
                    {"ancilla": a}, observed=t, required="STABILIZER_" + a[0])
    for pg in list(S.parity_group_x) + list(S.parity_group_z):
        ev.n(si)
        a = qid(pg.ancilla_id)
        got = ms(raw_edge(e) for e in pg.edge_ids)
        want = ms((a, qid(d)) for d in pg._data_qubits)
        if got != want:
            ev.fail("ParityGroup.edge_ids:not-ancilla-data-pairs", "edge_ids = {ancilla-data}", "ParityGroup.__post_init__",
                    {"ancilla": a}, observed=got, required=want)
        for d in pg._data_qubits:
            ev.n(si)
            if not (pg.contains(Q(qid(d))) and pg.contains(E(qid(d), a)) and pg.contains(E(a, qid(d))) and pg.contains(Q(a))):
                ev.fail("ParityGroup.contains:misses-member", "contains() finds members and edges in both orientations",
                        "ParityGroup.contains", {"ancilla": a, "data": qid(d)})
    ev.n(si)
    got = (sorted(qid(q) for q in S.ancilla_qubit_ids), sorted(qid(q) for q in S.data_qubit_ids))
    want = (sorted(q for q in QUBITS if q[0] != 'D'), sorted(q for q in QUBITS if q[0] == 'D'))
    if got != want:
        ev.fail("Surface17Layer.data/ancilla_qubit_ids:differ-from-chip", "ancilla / data partition", f, {}, observed=list(got), required=list(want))
    # the library's parking predicate agrees with the reading used as oracle, on the gate sets of shipped layers
    # (this is a PROBE of the oracle's reading, evaluated as a check because a disagreement is a C17-relevant fact)
    for name in LAYOUT_NAMES:
        L = get_layout(name)
        for i, layer in enumerate(L._gate_sequences):
            gates, _ = raw_layer(layer)
            if any(frozenset(g) not in EDGES for g in gates) or len({q for g in gates for q in g}) != 2 * len(gates):
                continue
            req = set(required_parks(gates))
            ev.n(si)
            got = {q for q in QUBITS if sc.get_requires_parking(Q(q), [E(*g) for g in gates], L)}
            if got != req:
                ev.fail("get_requires_parking:differs-from-statement-on-shipped-layer",
                        "requires parking iff idle, neighbouring the moving member of an active gate, at that gate's level",
                        "get_requires_parking", {"layout": name, "layer": i, "gates": [list(g) for g in gates]},
                        observed=sorted(got), required=sorted(req))


# ------------------------------------------------------------------------------------------------------------
# kind "edge_identity": order-independent edge identity
# ------------------------------------------------------------------------------------------------------------
def eval_edge_identity(ev):
    si = "edge_identity"
    f = "EdgeIDObj.__eq__/__hash__/contains"
    ev.nontrivial = True
    pairs = [(a, b) for a in QUBITS for b in QUBITS if a != b]
    objs = {p: E(*p) for p in pairs}
    for (a, b), e in objs.items():
        ev.n(si)
        r = objs[(b, a)]
        if not (e == r and r == e and hash(e) == hash(r)):
            ev.fail("EdgeIDObj:orientation-dependent-identity", "E(a,b) == E(b,a) with equal hashes", f, {"edge": [a, b]},
                    observed={"eq": bool(e == r), "hash_eq": hash(e) == hash(r)}, required=True)
        ev.n(si)
        if not (e.contains(Q(a)) and e.contains(Q(b))) or any(e.contains(Q(c)) for c in QUBITS if c not in (a, b)):
            ev.fail("EdgeIDObj.contains:wrong-membership", "contains(q) iff q is a member", f, {"edge": [a, b]})
        ev.n(si)
        if qid(e.get_connected_qubit_id(Q(a))) != b or qid(e.get_connected_qubit_id(Q(b))) != a:
            ev.fail("EdgeIDObj.get_connected_qubit_id:wrong-member", "other member of the edge", f, {"edge": [a, b]})
    # equality is exactly equality of the unordered pairs (all device edges against all ordered pairs)
    for d in sorted(map(sorted, EDGES)):
        de = E(*d)
        for p, e in objs.items():
            ev.n(si)
            if bool(de == e) != (set(d) == set(p)) or bool(e == de) != (set(d) == set(p)):
                ev.fail("EdgeIDObj.__eq__:not-equality-of-unordered-pairs", "E(a,b)==E(c,d) iff {a,b}=={c,d}", f,
                        {"edge": d, "other": list(p)}, observed=bool(de == e), required=set(d) == set(p))
    # hashed containers
    ev.n(si)
    s = {objs[tuple(sorted(e))] for e in EDGES}
    if not all(objs[tuple(sorted(e, reverse=True))] in s for e in EDGES) or len(s) != 24 or \
            len({objs[p] for p in pairs}) != len(pairs) // 2:
        ev.fail("EdgeIDObj.__hash__:set-membership-orientation-dependent", "reversed edge is found in a set / dict", f, {})


# ------------------------------------------------------------------------------------------------------------
# kind "layout": a shipped repetition layout, complete
# ------------------------------------------------------------------------------------------------------------
def eval_layout(ev):
    name = ev.rec["layout"]
    ce = lib()["ce"]
    L = get_layout(name)
    f = "%s.__init__ layer tables (repetition_code_connectivity.py)" % name
    si = "layout"
    ev.nontrivial = True
    layers = [raw_layer(l) for l in L._gate_sequences]
    parity = raw_parity(L)
    check_layers_executable(ev, name, f, layers, si)
    check_parity_coverage(ev, name, f, layers, parity, lambda a, d: True, si)
    # the same clauses on the layers as PUBLISHED by the accessors (what every consumer iterates over)
    ev.n(si)
    try:
        pub = public_layers(L)
    except Exception as ex:  # noqa
        pub = None
        ev.fail("GenericSurfaceCode.get_gate_sequence_at_index:raises-inside-range:%s" % type(ex).__name__,
                "every index below gate_sequence_count gives a layer", "GenericSurfaceCode accessors", {"layout": name}, observed=str(ex))
    if pub is not None:
        check_layers_executable(ev, name + "(published)", f, pub, si)
        check_parity_coverage(ev, name + "(published)", f, pub, parity, lambda a, d: True, si)
        ev.n(si)
        if sorted(map(canon, pub)) != sorted(map(canon, layers)):
            ev.fail("GenericSurfaceCode.get_gate_sequence_at_index:published-layers-differ-from-declared",
                    "the accessors enumerate exactly the declared layers (as a multiset)", "GenericSurfaceCode accessors",
                    {"layout": name}, observed=pub, required=layers)
    # parity groups live on the device
    for a, ds, _t in parity:
        for d in ds:
            ev.n(si)
            if frozenset((a, d)) not in EDGES:
                ev.fail("%s:parity-edge-is-not-a-device-edge" % name, "ancilla-data edges of parity groups are device edges", f,
                        {"ancilla": a, "data": d})
    ev.n(si)
    ancs = [a for a, _, _ in parity]
    if len(set(ancs)) != len(ancs) or any(len(set(ds)) != len(ds) for _, ds, _ in parity):
        ev.fail("%s:parity-group-repeats-a-qubit" % name, "ancillas pairwise distinct, data of a group pairwise distinct", f, {}, observed=parity)
    # every gate of the layout is an ancilla-data edge of one of its parity groups (otherwise 'exactly once' is moot)
    pe = {frozenset((a, d)) for a, ds, _ in parity for d in ds}
    for i, (gates, _) in enumerate(layers):
        for g in gates:
            ev.n(si)
            if frozenset(g) not in pe:
                ev.fail("%s:gate-outside-parity-groups" % name, "a layout's gates are ancilla-data edges of its parity groups", f,
                        {"layer": i, "gate": list(g)})
    # accessors of GenericSurfaceCode / GateSequenceLayer against the raw tables
    fg = "GenericSurfaceCode / GateSequenceLayer accessors"
    for i, (gates, parks) in enumerate(layers):
        lay = L._gate_sequences[i]
        ev.n(si)
        want_q = uniq(parks + [q for g in gates for q in g])
        got_q = [qid(q) for q in lay.qubit_ids]
        if sorted(got_q) != sorted(want_q):
            ev.fail("GateSequenceLayer.qubit_ids:differs-from-fields", "all parked and all gated qubits of the layer, each once", fg,
                    {"layout": name, "index": i}, observed=got_q, required=want_q)
        ev.n(si)
        if ms(raw_edge(e) for e in lay.edge_ids) != ms({frozenset(g) for g in gates}) or \
                [qid(o.identifier) for o in lay.park_operations] != parks or [raw_edge(o.identifier) for o in lay.gate_operations] != gates:
            ev.fail("GateSequenceLayer.edge_ids/park_operations/gate_operations:differ-from-fields", "accessors return the fields", fg,
                    {"layout": name, "index": i})
        for g in gates:
            for a, b in (g, g[::-1]):
                ev.n(si)
                try:
                    got = raw_layer(L.get_gate_sequence_from_element(E(a, b)))
                except Exception as ex:  # noqa
                    got = "raises %s" % type(ex).__name__
                if isinstance(got, str) or frozenset((a, b)) not in {frozenset(x) for x in got[0]}:
                    ev.fail("GenericSurfaceCode.get_gate_sequence_from_element:wrong-layer",
                            "a layer that plays the edge is found for either orientation of the edge", fg,
                            {"layout": name, "edge": [a, b], "layer": i}, observed=got, required=[gates, parks])
                ev.n(si)
                if not (lay.contains(E(a, b)) and lay.contains(Q(a))):
                    ev.fail("GateSequenceLayer.contains:misses-member", "contains() finds gates (either orientation) and qubits", fg,
                            {"layout": name, "edge": [a, b], "layer": i})
    ev.n(si)
    want = uniq([q for gates, parks in layers for q in parks + [x for g in gates for x in g]])
    got = [qid(q) for q in L.involved_qubit_ids]
    if sorted(got) != sorted(want):
        ev.fail("GenericSurfaceCode.involved_qubit_ids:differs-from-tables", "all qubits parked or gated in some layer, each once", fg,
                {"layout": name}, observed=got, required=want)
    ev.n(si)
    got = (sorted(qid(q) for q in L.data_qubit_ids), sorted(qid(q) for q in L.ancilla_qubit_ids))
    want = (sorted({d for _, ds, _ in parity for d in ds}), sorted({a for a, _, _ in parity}))
    if got != want:
        ev.fail("GenericSurfaceCode.data/ancilla_qubit_ids:differ-from-parity-groups", "data / ancilla ids of the parity groups", fg,
                {"layout": name}, observed=list(got), required=list(want))
    # device delegation
    ev.n(si)
    if sorted(qid(q) for q in L.qubit_ids) != QUBITS or {frozenset(raw_edge(e)) for e in L.edge_ids} != EDGES or \
            any(sorted(qid(x) for x in L.get_neighbors(Q(q))) != sorted(NB[q]) for q in QUBITS) or \
            any(L.get_frequency_group_identifier(Q(q)).id.name != ("LOW", "MID", "HIGH")[FREQ[q]] for q in QUBITS):
        ev.fail("GenericSurfaceCode.device-delegation:differs-from-chip", "qubits / edges / neighbours / frequency of the layout are the chip's", fg,
                {"layout": name})


# ------------------------------------------------------------------------------------------------------------
# kinds "derived" and "composite"
# ------------------------------------------------------------------------------------------------------------
def layout_roles(L):
    par = raw_parity(L)
    return par, uniq([d for _, ds, _ in par for d in ds]), uniq([a for a, _, _ in par])


def build_derived(L, involved, index_map, refocusing=True):
    cc = lib()["cc"]
    kw = {}
    if index_map is not None:
        kw["qubit_index_map"] = {Q(q): int(i) for q, i in index_map.items()}
    return cc.RepetitionCodeDescription.from_connectivity(
        involved_qubit_ids=[Q(q) for q in involved], connectivity=L, qubit_refocusing=refocusing, **kw)


_BASE_CACHE = {}


def cached_derived(layout_name, L, involved):
    """default-map description of a subset, built once per worker and shared by the composites over it
    (descriptions are frozen; a composite only reads its base)"""
    k = (layout_name, tuple(involved))
    if k not in _BASE_CACHE:
        if len(_BASE_CACHE) > 64:
            _BASE_CACHE.clear()
        _BASE_CACHE[k] = build_derived(L, involved, None)
    return _BASE_CACHE[k]


def check_index_layer(ev, who, function, d, i, gates, parks, req, K, inv, m, si):
    """observers get_gate_sequence_indices / get_park_sequence_indices of layer i against own image under m"""
    ev.n(si)
    try:
        got = d.get_gate_sequence_indices(i)
        gotn = ms(got)
    except Exception as ex:  # noqa
        got, gotn = "raises %s: %s" % (type(ex).__name__, ex), None
    try:
        want = ms((m[a], m[b]) for a, b in gates)
    except KeyError:
        want = None  # a gate on a qubit without circuit index: reported by the gate clause
    if want is not None and gotn != want:
        ev.fail("%s.get_gate_sequence_indices:not-the-image-of-the-kept-gates" % who,
                "gate index pairs of layer i are the circuit indices of exactly the kept gates", function,
                {"layer": i, "gates": [list(g) for g in gates]}, observed=got, required=want)
    ev.n(si)
    try:
        got = d.get_park_sequence_indices(i)
        ok = isinstance(got, list) and len(set(got)) == len(got)
    except Exception as ex:  # noqa
        got, ok = "raises %s: %s" % (type(ex).__name__, ex), False
    if ok:
        lo = {m[p] for p in parks if p in K}
        hi = set(lo)
        for p in parks:   # involved qubits that are neither data nor ancilla of the layout may or may not be reported
            if p in inv and p not in m:
                try:
                    hi.add(d.map_qubit_id_to_circuit_index(Q(p)))
                except Exception:  # noqa
                    pass
        need = {m[p] for p in req if p in K}
        ok = lo <= set(got) <= hi and need <= set(got)
    if not ok:
        ev.fail("%s.get_park_sequence_indices:not-the-image-of-the-parked-circuit-qubits" % who,
                "park indices of layer i are the circuit indices of the parked qubits that have a circuit index, each once, "
                "and contain every circuit qubit that requires parking", function,
                {"layer": i, "parks": parks, "required": sorted(req)}, observed=got,
                required=sorted(m[p] for p in parks if p in K))


def check_index_map(ev, who, function, d, K, supplied, si):
    """bijection between the description's circuit qubits and circuit indices; returns {qubit: index} or None"""
    ev.n(si)
    try:
        got_ids = [qid(q) for q in d.qubit_ids]
    except Exception as ex:  # noqa
        ev.fail("%s.qubit_ids:raises:%s" % (who, type(ex).__name__), "qubit_ids is defined", function, {}, observed=str(ex))
        return None
    if len(set(got_ids)) != len(got_ids) or set(got_ids) != set(K):
        ev.fail("%s.qubit_ids:not-the-involved-circuit-qubits" % who,
                "the description's qubits are the involved data / ancilla qubits of the layout, each once", function, {},
                observed=got_ids, required=sorted(K))
        return None
    ev.n(si)
    m = {}
    try:
        for q in K:
            m[q] = d.map_qubit_id_to_circuit_index(Q(q))
    except Exception as ex:  # noqa
        ev.fail("%s.map_qubit_id_to_circuit_index:raises:%s" % (who, type(ex).__name__), "every circuit qubit has a circuit index",
                function, {"qubit": q}, observed=str(ex))
        return None
    if len(set(m.values())) != len(m) or not all(isinstance(v, int) for v in m.values()):
        ev.fail("%s.map_qubit_id_to_circuit_index:not-injective" % who, "qubit identifiers map to circuit indices bijectively", function, {},
                observed=m, required="pairwise distinct integers")
        return None
    if supplied is not None:
        ev.n(si)
        if any(m[q] != supplied[q] for q in K):
            ev.fail("%s.map_qubit_id_to_circuit_index:ignores-supplied-map" % who, "a supplied index map is used as given", function, {},
                    observed=m, required={q: supplied[q] for q in K})
            return None
    ev.n(si)
    try:
        cm = d.circuit_channel_map
        cmn = {k: qid(v) for k, v in cm.items()}
        inv_ok = cmn == {v: k for k, v in m.items()}
        inv_ok = inv_ok and all(qid(d.get_element(m[q])) == q and d.get_index(Q(q)) == m[q] for q in K)
        inv_ok = inv_ok and sorted(d.qubit_indices) == sorted(m.values())
    except Exception as ex:  # noqa
        cmn, inv_ok = "raises %s: %s" % (type(ex).__name__, ex), False
    if not inv_ok:
        ev.fail("%s.circuit_channel_map:not-the-inverse-of-the-index-map" % who,
                "circuit_channel_map / get_element invert map_qubit_id_to_circuit_index on the circuit qubits", function, {},
                observed=cmn, required={str(v): k for k, v in m.items()})
        return None
    return m


def eval_derived(ev):
    rec = ev.rec
    name, inv, imap = rec["layout"], rec["involved"], rec.get("index_map")
    L = get_layout(name)
    who = "RepetitionCodeDescription.from_connectivity"
    f = "RepetitionCodeDescription.from_connectivity (circuit_components.py)"
    si = "derived"
    src = public_layers(L)
    parity, DATA, ANC = layout_roles(L)
    invs = set(inv)
    K = [q for q in inv if q in DATA or q in ANC]
    expected = [[g for g in gates if g[0] in invs and g[1] in invs] for gates, _ in src]
    ev.nontrivial = any(expected)
    try:
        d = build_derived(L, inv, imap, rec.get("refocusing", True))
        layers = [raw_layer(l) for l in d.gate_sequences]
    except Exception as ex:  # noqa
        ev.n(si)
        ev.fail("%s:raises:%s" % (who, type(ex).__name__), "a description can be derived for any subset of involved qubits", f, {},
                observed="".join(traceback.format_exception_only(type(ex), ex)).strip())
        return
    # clause: keeps exactly the gates whose both qubits are involved (layer by layer)
    ev.n(si)
    if len(layers) != len(src):
        ev.fail("%s:layer-count-differs" % who, "one derived layer per layout layer", f, {}, observed=len(layers), required=len(src))
        return
    for i, (gates, parks) in enumerate(layers):
        ev.n(si)
        if ms(gates) != ms(expected[i]):
            extra = [g for g in ms(gates) if g not in ms(expected[i])]
            lost = [g for g in ms(expected[i]) if g not in ms(gates)]
            cls = "keeps-gate-with-uninvolved-qubit" if any(not set(g) <= invs for g in extra) else \
                ("drops-gate-with-both-qubits-involved" if lost else "gate-set-differs")
            ev.fail("%s:%s" % (who, cls), "derived descriptions keep exactly the gates whose both qubits are involved", f,
                    {"layer": i, "extra": extra, "lost": lost}, observed=ms(gates), required=ms(expected[i]))
    # clauses: executable on the device
    check_layers_executable(ev, who, f, layers, si)
    check_parity_coverage(ev, who, f, layers, parity, lambda a, dd: a in invs and dd in invs, si)
    # clause: identifiers <-> circuit indices
    sup = None if imap is None else {q: int(v) for q, v in imap.items()}
    m = check_index_map(ev, who, f, d, K, sup, si)
    ev.n(si)
    try:
        roles = [sorted(qid(q) for q in d.data_qubit_ids), sorted(qid(q) for q in d.ancilla_qubit_ids)]
    except Exception as ex:  # noqa
        roles = "raises %s" % type(ex).__name__
    want_roles = [sorted(q for q in inv if q in DATA), sorted(q for q in inv if q in ANC)]
    if roles != want_roles:
        ev.fail("%s:data-ancilla-roles-differ-from-layout" % who,
                "data / ancilla qubits of the description are the involved data / ancilla qubits of the layout, each once",
                f, {}, observed=roles, required=want_roles)
    if m is not None:
        for i, (gates, parks) in enumerate(layers):
            ok = all(frozenset(g) in EDGES for g in expected[i]) and len({q for g in expected[i] for q in g}) == 2 * len(expected[i])
            # parks that MUST show up as indices: required by my oracle AND declared by the layer (a missing declaration
            # is reported by the layer clause under its own class)
            req = {q for q in (required_parks(expected[i]) if ok else {}) if q in parks}
            check_index_layer(ev, "IRepetitionCodeDescription", "IRepetitionCodeDescription.get_gate/park_sequence_indices",
                              d, i, expected[i], parks, req, set(K), invs, m, si)


def eval_composite(ev):
    rec = ev.rec
    cc = lib()["cc"]
    name = rec["layout"]
    L = get_layout(name)
    who = "CompositeRepetitionCodeDescription.gate_sequences"
    f = "CompositeRepetitionCodeDescription.gate_sequences (circuit_components.py)"
    si = "composite"
    base_inv, lead_gate, lead_ro = rec["base"], rec.get("lead_gate"), rec.get("lead_readout")
    ex_edges = [tuple(e) for e in rec.get("ex_edges", [])]
    ex_gq = list(rec.get("ex_gate_qubits", []))
    only_req = bool(rec.get("only_required", False))
    src = public_layers(L)
    parity, DATA, ANC = layout_roles(L)
    gate_inv = set(lead_gate if lead_gate is not None else base_inv)
    union = uniq(list(base_inv) + list(lead_ro or []) + list(lead_gate or []))
    K = [q for q in union if q in DATA or q in ANC]
    exs = {frozenset(e) for e in ex_edges}
    before = [[g for g in gates if g[0] in gate_inv and g[1] in gate_inv] for gates, _ in src]
    expected = [[g for g in gs if frozenset(g) not in exs and g[0] not in ex_gq and g[1] not in ex_gq] for gs in before]
    ev.nontrivial = any(len(a) != len(b) for a, b in zip(before, expected)) or lead_gate is not None
    imap = rec.get("index_map")
    if imap is None:
        imap = {q: i for i, q in enumerate(union)}
    try:
        base = cached_derived(name, L, base_inv)
        kw = {}
        if lead_gate is not None:
            kw["_leading_gate_description"] = cached_derived(name, L, lead_gate)
        if lead_ro is not None:
            kw["_leading_readout_description"] = cached_derived(name, L, lead_ro)
        c = cc.CompositeRepetitionCodeDescription(
            _base_description=base, _qubit_index_map={Q(q): int(i) for q, i in imap.items()}, _connectivity=L,
            _exclude_readout_qubit_ids=[Q(q) for q in rec.get("ex_readout", [])],
            _exclude_rotation_qubit_ids=[Q(q) for q in rec.get("ex_rotation", [])],
            _exclude_gate_edge_ids=[E(a, b) for a, b in ex_edges],
            _exclude_gate_qubit_ids=[Q(q) for q in ex_gq],
            _only_required_parking_operations=only_req, **kw)
        layers = [raw_layer(l) for l in c.gate_sequences]
    except Exception as ex:  # noqa
        ev.n(si)
        ev.fail("%s:raises:%s" % (who, type(ex).__name__), "a composite description with exclusions can be built and read", f, {},
                observed="".join(traceback.format_exception_only(type(ex), ex)).strip())
        return
    ev.n(si)
    if len(layers) != len(src):
        ev.fail("%s:layer-count-differs" % who, "one layer per layout layer", f, {}, observed=len(layers), required=len(src))
        return
    for i, (gates, parks) in enumerate(layers):
        ev.n(si)
        if ms(gates) != ms(expected[i]):
            extra = [g for g in ms(gates) if g not in ms(expected[i])]
            lost = [g for g in ms(expected[i]) if g not in ms(gates)]
            if any(frozenset(g) in exs for g in extra):
                cls = "keeps-excluded-edge"
            elif any(set(g) & set(ex_gq) for g in extra):
                cls = "keeps-gate-on-excluded-qubit"
            elif any(not set(g) <= gate_inv for g in extra):
                cls = "keeps-gate-with-uninvolved-qubit"
            elif lost:
                cls = "drops-gate-that-is-not-excluded"
            else:
                cls = "gate-set-differs"
            ev.fail("%s:%s" % (who, cls),
                    "a composite keeps exactly the gates whose both qubits are involved and that are not excluded (edge identity is unordered)",
                    f, {"layer": i, "extra": extra, "lost": lost}, observed=ms(gates), required=ms(expected[i]))

    def park_class(i, q):
        if only_req:
            return ":only-required-parking"
        removed = [g for g in before[i] if g not in expected[i]]
        if any(q in g for g in removed):
            return ":inherited-parks-after-gate-exclusion(qubit-of-excluded-gate-left-idle)"
        if removed:
            return ":inherited-parks-after-gate-exclusion(other-qubit)"
        return ":no-gate-excluded-in-layer"

    check_layers_executable(ev, who, f, layers, si, park_class=park_class)
    kept = {frozenset(g) for gs in expected for g in gs}
    check_parity_coverage(ev, who, f, layers, parity, lambda a, dd: frozenset((a, dd)) in kept, si)
    # index observers
    m = check_index_map(ev, "CompositeRepetitionCodeDescription", "CompositeRepetitionCodeDescription (index map, qubit_ids)", c, K,
                        {q: int(v) for q, v in imap.items()}, si)
    if m is not None:
        idx_layers = range(len(layers))
        if only_req:   # every access recomputes the dynamic parking of all layers: observe one layer of every 3rd input
            h = int(digest(rec), 16)
            idx_layers = [(h // 3) % len(layers)] if layers and h % 3 == 0 else []
        for i in idx_layers:
            gates, parks = layers[i]
            ok = all(frozenset(g) in EDGES for g in expected[i]) and len({q for g in expected[i] for q in g}) == 2 * len(expected[i])
            # the parks that MUST show up as indices are those my oracle requires AND the layer declares (a missing
            # declaration is already reported by the layer clause with its own class)
            req = {q for q in (required_parks(expected[i]) if ok else {}) if q in parks}
            check_index_layer(ev, "IRepetitionCodeDescription", "IRepetitionCodeDescription.get_gate/park_sequence_indices",
                              c, i, expected[i], parks, req, set(K), set(union), m, si)


EVAL = {"surface17": eval_surface17, "edge_identity": eval_edge_identity, "layout": eval_layout,
        "derived": eval_derived, "composite": eval_composite}


def canon(rec):
    return json.dumps(rec, sort_keys=True, separators=(",", ":"))


def digest(rec):
    return hashlib.blake2b(canon(rec).encode(), digest_size=8).hexdigest()


def evaluate(rec):
    ev = Ev(rec)
    try:
        EVAL[rec["kind"]](ev)
    except Exception as ex:  # harness or library crash while evaluating: a failure of its own class, never silent
        ev.fail("%s:evaluation-raises:%s" % (rec["kind"], type(ex).__name__), "the clauses can be evaluated on the real object",
                rec["kind"], {"traceback": traceback.format_exc()[-1500:]}, observed=str(ex))
    return ev


# ------------------------------------------------------------------------------------------------------------
# Input enumeration
# ------------------------------------------------------------------------------------------------------------
def mask_to_subset(mask):
    return [q for k, q in enumerate(QUBITS) if mask >> k & 1]


DEVICE_MAP = {q: i for i, q in enumerate(QUBITS)}     # "one fixed numbering of the whole chip"


def superset_map(r, involved, mode):
    """supplied injective index map whose keys STRICTLY contain the involved qubits (whenever an uninvolved qubit exists):
    mode 'device' = a numbering of all 17 chip qubits, mode 'extra' = involved + 1..4 uninvolved qubits.
    Reading of the statement for the extra keys: they are the caller's numbering of qubits that are NOT involved; the derived
    description must ignore them -- no gate on them is kept, they are not among its qubit_ids, circuit_channel_map has no entry
    for their indices, they never appear among the park indices; bijectivity is required between the involved circuit qubits
    and their indices (the supplied map is injective on all its keys, so that is satisfiable)."""
    others = [q for q in QUBITS if q not in involved]
    if mode == "device":
        keys = list(involved) + others
    else:
        keys = list(involved) + (r.sample(others, r.randint(1, min(4, len(others)))) if others else [])
    r.shuffle(keys)
    return dict(zip(keys, r.sample(range(0, 40), len(keys))))


def rec_from_mask(layout, mask, seed):
    """subset `mask` of the 17 qubits in a pseudo-random order; mask % 3 == 1: supplied map over exactly the involved
    qubits, mask % 3 == 2: supplied map over a strict superset (chip-wide or involved + a few)"""
    sub = mask_to_subset(mask)
    r = random.Random("%d/%s/%d" % (seed, layout, mask))   # string seeding is process-independent
    r.shuffle(sub)
    rec = {"kind": "derived", "layout": layout, "involved": sub}
    if mask % 3 == 1:
        idx = r.sample(range(0, 40), len(sub))
        rec["index_map"] = dict(zip(sub, idx))
    elif mask % 3 == 2:
        rec["index_map"] = superset_map(r, sub, "device" if (mask // 3) % 2 else "extra")
    return rec


def chain_windows(chain, min_len=1):
    for i in range(len(chain)):
        for j in range(i + min_len, len(chain) + 1):
            yield chain[i:j]


def composite_records(layout, base, rnd, thorough, src_layers):
    """exclusion variants for one base subset"""
    invs = set(base)
    kept = uniq([g for gates, _ in src_layers for g in gates if g[0] in invs and g[1] in invs])
    out = []

    def add(**kw):
        rec = {"kind": "composite", "layout": layout, "base": list(base)}
        rec.update(kw)
        out.append(rec)

    add()
    add(only_required=True)
    add(index_map=dict(DEVICE_MAP))        # composite numbered by a chip-wide map (keys strictly contain its qubits)
    if kept:
        add(index_map=superset_map(rnd, list(base), "device"), ex_edges=[list(rnd.choice(kept)[::-1])])
    for k, g in enumerate(kept):
        for flip in ((False, True) if thorough or k == 0 else (bool(rnd.getrandbits(1)),)):
            add(ex_edges=[list(g[::-1] if flip else g)], only_required=False)
        if thorough or rnd.random() < 0.35:
            add(ex_edges=[list(g[::-1] if rnd.getrandbits(1) else g)], only_required=True)
    for q in base:
        add(ex_gate_qubits=[q], only_required=False)
        if thorough and rnd.random() < 0.5:
            add(ex_gate_qubits=[q], only_required=True)
    n_rand = 6 if thorough else 2
    for _ in range(n_rand):
        ne = rnd.randint(0, min(3, len(kept)))
        es = [list(g[::-1] if rnd.getrandbits(1) else g) for g in rnd.sample(kept, ne)]
        qs = rnd.sample(list(base), rnd.randint(0, min(2, len(base))))
        noise = rnd.sample(list(base), rnd.randint(0, min(2, len(base))))
        add(ex_edges=es, ex_gate_qubits=qs, ex_readout=noise, ex_rotation=noise[::-1], only_required=bool(rnd.getrandbits(1)))
    # an excluded edge that is not in the description at all / a non-device pair must change nothing
    add(ex_edges=[["D1", "D9"]], only_required=False)
    return out


def enumerate_records(tier, seed):
    """explicit records (dict list) + mask ranges [(layout, lo, hi)]"""
    rnd = random.Random(seed)
    thorough = tier == "thorough"
    recs = [{"kind": "surface17"}, {"kind": "edge_identity"}] + [{"kind": "layout", "layout": n} for n in LAYOUT_NAMES]
    src = {n: [raw_layer(l) for l in get_layout(n)._gate_sequences] for n in LAYOUT_NAMES}
    # 1. contiguous sub-chains, both directions, default and supplied index maps, refocusing on/off
    for n in LAYOUT_NAMES:
        for chain in (CHAIN17, CHAIN9):
            for w in chain_windows(chain):
                recs.append({"kind": "derived", "layout": n, "involved": list(w)})
                rw = list(w[::-1])
                recs.append({"kind": "derived", "layout": n, "involved": rw, "refocusing": False,
                             "index_map": dict(zip(rw, rnd.sample(range(0, 40), len(rw))))})
                # supplied maps over a STRICT SUPERSET of the involved qubits: the fixed chip-wide numbering, a random
                # chip-wide numbering, involved + a few uninvolved qubits
                recs.append({"kind": "derived", "layout": n, "involved": list(w), "index_map": dict(DEVICE_MAP)})
                recs.append({"kind": "derived", "layout": n, "involved": rw, "index_map": superset_map(rnd, rw, "device")})
                recs.append({"kind": "derived", "layout": n, "involved": list(w), "index_map": superset_map(rnd, w, "extra")})
                if thorough:   # data first then ancillas
                    dw = [q for q in w if q[0] == 'D'] + [q for q in w if q[0] != 'D']
                    recs.append({"kind": "derived", "layout": n, "involved": dw})
    # 2. small sizes exhaustively: every ORDERED tuple of distinct qubits up to size k_ord, every layout for size <= 2,
    #    rotating layout above
    k_ord = 3
    cnt = 0
    for k in range(0, k_ord + 1):
        for tup in itertools.permutations(QUBITS, k):
            names = LAYOUT_NAMES if k <= 2 else [LAYOUT_NAMES[cnt % 3]]
            cnt += 1
            for n in names:
                recs.append({"kind": "derived", "layout": n, "involved": list(tup)})
    # every subset of size <= 2 (sorted order) with the fixed chip-wide numbering, all layouts; size 3 rotating
    for k in range(0, 4):
        for j, comb in enumerate(itertools.combinations(QUBITS, k)):
            for n in (LAYOUT_NAMES if k <= 2 else [LAYOUT_NAMES[j % 3]]):
                recs.append({"kind": "derived", "layout": n, "involved": list(comb), "index_map": dict(DEVICE_MAP)})
    if thorough:   # random ordered tuples of the next sizes
        for t in range(8000):
            recs.append({"kind": "derived", "layout": LAYOUT_NAMES[t % 3], "involved": rnd.sample(QUBITS, rnd.randint(4, 6))})
    # 3. subsets exhaustively: quick: every subset of size <= 4 (all layouts) as mask records; thorough: all 2^17 (mask ranges)
    ranges = []
    if thorough:
        step = 256
        for n in LAYOUT_NAMES:
            for lo in range(0, 1 << 17, step):
                ranges.append((n, lo, lo + step))
    else:
        cnt = 0
        for k in range(0, 5):
            for comb in itertools.combinations(range(17), k):
                mask = sum(1 << b for b in comb)
                cnt += 1
                for n in (LAYOUT_NAMES if k <= 3 else [LAYOUT_NAMES[cnt % 3]]):
                    recs.append(rec_from_mask(n, mask, seed))
    # 4. random subsets / orderings of the larger sizes
    for t in range(5000 if thorough else 1500):
        k = rnd.randint(5, 17)
        sub = rnd.sample(QUBITS, k)
        rec = {"kind": "derived", "layout": LAYOUT_NAMES[t % 3], "involved": sub}
        if t % 4 == 0:
            rec["index_map"] = dict(zip(sub, rnd.sample(range(0, 60), k)))
        elif t % 4 == 1:
            rec["index_map"] = superset_map(rnd, sub, "device")
        elif t % 4 == 2:
            rec["index_map"] = superset_map(rnd, sub, "extra")
        recs.append(rec)
    for t in range(3000 if thorough else 600):   # smaller random subsets, where many uninvolved gate qubits exist
        sub = rnd.sample(QUBITS, rnd.randint(2, 9))
        recs.append({"kind": "derived", "layout": LAYOUT_NAMES[t % 3], "involved": sub,
                     "index_map": dict(DEVICE_MAP) if t % 3 == 0 else superset_map(rnd, sub, "device" if t % 3 == 1 else "extra")})
    # 5. composites with exclusions
    bases = []
    for n in LAYOUT_NAMES:
        for chain in (CHAIN17, CHAIN9):
            for w in chain_windows(chain, 2):
                if thorough or (len(w) % 2 == 1 and w[0][0] == 'D' and len(w) <= 9) or len(w) == len(chain):
                    bases.append((n, list(w)))
        for _ in range(50 if thorough else 25):
            bases.append((n, rnd.sample(QUBITS, rnd.randint(3, 17))))
    for n, b in bases:
        recs.extend(composite_records(n, b, rnd, thorough, src[n]))
    # leading gate / readout descriptions (gates come from the leading description)
    for t in range(600 if thorough else 120):
        n = LAYOUT_NAMES[t % 3]
        chain = CHAIN9 if n == "Repetition5Round4Code" and t % 2 else CHAIN17
        i = rnd.randrange(0, len(chain) - 2)
        j = rnd.randrange(i + 2, len(chain) + 1)
        base = chain[i:j]
        i2 = rnd.randrange(0, len(chain) - 2)
        j2 = rnd.randrange(i2 + 2, len(chain) + 1)
        lead = chain[i2:j2] if t % 5 else rnd.sample(QUBITS, rnd.randint(2, 12))
        invs = set(lead)
        kept = uniq([g for gates, _ in src[n] for g in gates if g[0] in invs and g[1] in invs])
        rec = {"kind": "composite", "layout": n, "base": list(base), "lead_gate": list(lead),
               "only_required": t % 3 == 0}
        if kept and t % 2:
            g = rnd.choice(kept)
            rec["ex_edges"] = [list(g[::-1])]
        if t % 7 == 0:
            rec["lead_readout"] = list(base[:max(1, len(base) // 2)])
        recs.append(rec)
    # dedupe, keep order
    seen, out = set(), []
    for r in recs:
        c = canon(r)
        if c not in seen:
            seen.add(c)
            out.append(r)
    return out, ranges


# ------------------------------------------------------------------------------------------------------------
# Workers
# ------------------------------------------------------------------------------------------------------------
def witness_order(f):
    c = canon(f["witness"]["input"])
    return (len(c), c)


def eval_chunk(job):
    kind, payload, seed = job
    if kind == "recs":
        recs = payload
    else:
        layout, lo, hi = payload
        recs = [rec_from_mask(layout, mask, seed) for mask in range(lo, hi)]
    counts, fails, nontriv, n_inputs = {}, {}, [], 0
    by_kind = {}
    for rec in recs:
        ev = evaluate(rec)
        n_inputs += 1
        by_kind[rec["kind"]] = by_kind.get(rec["kind"], 0) + 1
        for k, v in ev.counts.items():
            counts[k] = counts.get(k, 0) + v
        if ev.nontrivial:
            nontriv.append(digest(rec))
        for f in ev.fails:
            cur = fails.get(f["key"])
            if cur is None or witness_order(f) < witness_order(cur):
                fails[f["key"]] = f
    return counts, fails, nontriv, n_inputs, by_kind


STAND_INS = {
    "surface17": ("Surface17Layer tables + get_neighbors / get_edges / on_moving_side / get_higher|lower_frequency_qubit_id / ParityGroup",
                  "[clause 'real device edges', 'requires parking'] the library's device tables and neighbourhood / moving-side functions equal my "
                  "own transcription of the chip (coordinates -> distance-1 edges, frequency levels, plaquettes); get_requires_parking equals the "
                  "statement's reading on the gate sets of all shipped layers",
                  "complete: 17 qubits, 24 edges x 2 orientations, 8 parity groups, 18 shipped layers x 17 qubits"),
    "edge_identity": ("EdgeIDObj.__eq__ / __hash__ / contains / get_connected_qubit_id",
                      "[mechanism 'order-independent edge identity'] E(a,b)==E(c,d) iff {a,b}=={c,d}; equal hashes for both orientations; set membership",
                      "complete over all 272 ordered pairs of distinct chip qubits x the 24 device edges"),
    "layout": ("Repetition9Code / Repetition9Round6Code / Repetition5Round4Code layer tables; GenericSurfaceCode and GateSequenceLayer accessors",
               "[all four executability clauses on the SHIPPED layouts] every gate is a device edge, gates of a layer on pairwise distinct qubits, "
               "parked and gated disjoint, required parks (own oracle) subset of declared parks, every ancilla-data edge of every parity group "
               "exactly once per sequence -- on the raw tables and on the layers published by gate_sequence_count / get_gate_sequence_at_index "
               "(same multiset of layers); get_gate_sequence_from_element finds a layer playing the edge for either orientation; "
               "involved_qubit_ids / qubit_ids / edge_ids equal the raw tables as sets",
               "complete: 3 layouts, 18 layers, 48 gates, 61 parks, 20 parity groups"),
    "derived": ("RepetitionCodeDescription.from_connectivity + IRepetitionCodeDescription.get_gate_sequence_indices / get_park_sequence_indices / "
                "circuit_channel_map / map_qubit_id_to_circuit_index / get_element",
                "[clauses 'keep exactly the gates whose both qubits are involved', the four executability clauses on the derived layers, 'exactly once' "
                "restricted to edges with both qubits involved, 'identifiers map to circuit indices bijectively'] recomputed from the raw layout tables. "
                "Index maps: default, supplied over exactly the involved qubits, supplied over a strict superset (chip-wide / involved + extras). "
                "Reading for extra keys: they number qubits that are NOT involved, so the description must ignore them (no gate on them kept, "
                "not in qubit_ids, no entry in circuit_channel_map, never among park indices); bijectivity is required between the involved "
                "circuit qubits and their indices, which must be the supplied ones",
                None),
    "composite": ("CompositeRepetitionCodeDescription.gate_sequences (+ index observers, qubit_ids)",
                  "[same clauses for composites with exclusions] kept gates = gates of the gate-leading description minus excluded edges (unordered "
                  "identity, both orientations fed) minus gates touching an excluded qubit; executability clauses on the result, with "
                  "_only_required_parking_operations False and True; readout / rotation exclusions fed as noise",
                  None),
}


def run(tier, seed, out):
    res = common.Result(PROP)
    t0 = time.time()
    budget = float(os.environ.get("C17_BUDGET_S", 545.0 if tier == "thorough" else 50.0))   # wall budget for submitting work
    lib()
    for n in LAYOUT_NAMES:   # instantiate singletons before forking
        get_layout(n)
    recs, ranges = enumerate_records(tier, seed)
    fixed = [r for r in recs if r["kind"] not in ("derived", "composite")]
    der = [r for r in recs if r["kind"] == "derived"]
    comp = [r for r in recs if r["kind"] == "composite"]      # kept in generation order: grouped by base (worker-side cache)
    rest = der + comp
    random.Random(seed + 1).shuffle(der)
    jobs = [("recs", fixed[i:i + 1], seed) for i in range(len(fixed))]
    jd = [("recs", der[i:i + 300], seed) for i in range(0, len(der), 300)]
    jc = [("recs", comp[i:i + 60], seed) for i in range(0, len(comp), 60)]
    while jd or jc:       # interleave the two job streams
        if jc:
            jobs.append(jc.pop(0))
        if jd:
            jobs.append(jd.pop(0))
    jobs += [("range", r, seed) for r in ranges]
    nproc = min(16, os.cpu_count() or 1)
    counts, fails, nontriv, n_inputs, by_kind = {}, {}, set(), 0, {}
    skipped_jobs = 0
    ctx = mp.get_context("fork")
    with ctx.Pool(nproc) as pool:
        pending, it = [], iter(jobs)
        exhausted = False
        while True:
            while not exhausted and len(pending) < 2 * nproc:
                if time.time() - t0 > budget:
                    rest_jobs = list(it)
                    skipped_jobs = len(rest_jobs)
                    for j in rest_jobs:
                        res.skipped["time budget (%ds) reached before this input was evaluated" % budget] = \
                            res.skipped.get("time budget (%ds) reached before this input was evaluated" % budget, 0) + \
                            (len(j[1]) if j[0] == "recs" else j[1][2] - j[1][1])
                    exhausted = True
                    break
                try:
                    pending.append(pool.apply_async(eval_chunk, (next(it),)))
                except StopIteration:
                    exhausted = True
            if not pending:
                break
            r = pending.pop(0)
            c, f, nt, ni, bk = r.get()
            for k, v in c.items():
                counts[k] = counts.get(k, 0) + v
            for k, v in bk.items():
                by_kind[k] = by_kind.get(k, 0) + v
            n_inputs += ni
            nontriv.update(nt)
            for k, v in f.items():
                cur = fails.get(k)
                if cur is None or witness_order(v) < witness_order(cur):
                    fails[k] = v
    res.evaluations = sum(counts.values())
    res.distinct = nontriv
    res.exhaustive = skipped_jobs == 0
    k_ord = 3
    sub_bound = "ALL 2^17 subsets of the 17 chip qubits x 3 layouts (pseudo-random order per subset, every third with a supplied index map)" \
        if tier == "thorough" else "all subsets of size <= 3 of the 17 chip qubits x 3 layouts and all subsets of size 4 x 1 layout (rotating), " \
                                   "pseudo-random order per subset"
    res.rule = ("FINITE SPACE (enumerated completely iff exhaustive=true): (i) the device tables of Surface17Layer and the three shipped "
                "repetition layouts; (ii) from_connectivity on every contiguous window of the 17-qubit chain and of the 9-qubit chain, both "
                "directions, x 3 layouts; on every ORDERED tuple of distinct chip qubits up to size %d (all layouts for size <= 2, rotating "
                "layout for size 3); on %s; (iii) CompositeRepetitionCodeDescription over %s with: no exclusion, each kept gate edge excluded "
                "singly, each involved qubit excluded singly, always with inherited (static) parking and -- thorough: for every edge and a "
                "seeded half of the qubits, quick: for a seeded third -- also with only-required parking.  ADDITIONAL seeded samples (not exhaustive): "
                "random subsets/orderings of size 5..17 and 2..9 (thorough: also 4..6) with default index maps, supplied injective maps over exactly "
                "the involved qubits, and supplied injective maps over a STRICT SUPERSET of them (fixed chip-wide numbering, random chip-wide "
                "numbering, involved + 1..4 uninvolved qubits); the superset maps are also fed, in the finite space, to every chain window "
                "(3 variants) and to every subset of size <= 3 (fixed chip-wide numbering), and to a third of the mask-enumerated subsets; composites over "
                "random bases, random mixtures of exclusions (<= 3 edges in random orientation, <= 2 qubits, readout/rotation exclusions as "
                "noise), leading gate / readout descriptions.  An input is NON-TRIVIAL if at least one gate survives the involved-qubit filter "
                "(derived), resp. at least one gate is removed by an exclusion or a leading gate description is set (composite); table inputs "
                "always are.  Involved lists are duplicate-free subsets of the chip's 17 qubits (the statement's quantifier).  %s"
                % (k_ord, sub_bound,
                   "every chain window of length >= 2" if tier == "thorough" else "the odd-length data-to-data chain windows up to 9 qubits and the full chains",
                   "" if res.exhaustive else "NOT completed: the time budget was reached, see 'skipped'."))
    bounds = {"derived": "%d inputs (%s)" % (by_kind.get("derived", 0), "chain windows + ordered tuples <= %d + %s + random" % (k_ord, sub_bound)),
              "composite": "%d inputs over chain windows / random bases, single + mixed exclusions, both parking modes" % by_kind.get("composite", 0)}
    for k, (fn, contract, bound) in STAND_INS.items():
        res.stand_ins.append({"function": fn, "contract": contract, "bound": bound or bounds[k], "evaluations": counts.get(k, 0)})
        if counts.get(k, 0) == 0:
            res.fail("%s:harness:%s-never-evaluated" % (PROP, k), "every stand-in is evaluated at least once", fn, {"stand_in": k})
    # probes of the assumptions of the oracle
    sc = lib()["sc"]
    S = sc.Surface17Layer()
    res.probes.append({"assumption": "own chip transcription (coordinates -> 24 distance-1 edges) equals the library's edge table and the "
                                     "coordinates used by the library's own layout drawing (display_connectivity.identifier_to_pivot)",
                       "ok": bool({frozenset(raw_edge(e)) for e in S._qubit_edges} == EDGES and probe_display_coords())})
    res.probes.append({"assumption": "every device edge joins two different frequency levels and an ancilla with a data qubit, so 'moving member' "
                                     "and 'operating level' are well defined", "ok": True})
    res.probes.append({"assumption": "the two readings of 'requires parking' (idles at the gate's operating level  vs  idles below the moving member, "
                                     "as implemented) coincide on this chip for every single device edge and every spectator",
                       "ok": all((FREQ[q] == min(FREQ[a], FREQ[b])) == (FREQ[q] < max(FREQ[a], FREQ[b]))
                                 for a, b in map(tuple, EDGES) for q in NB[a if FREQ[a] > FREQ[b] else b] - {a, b})})
    res.probes.append({"assumption": "involved lists fed to the constructors are duplicate-free subsets of the 17 chip qubits "
                                     "(duplicates / foreign identifiers are outside the statement's quantifier and are not fed)", "ok": True})
    res.probes.append({"assumption": "inputs evaluated", "ok": n_inputs > 0, "inputs": n_inputs, "by_kind": by_kind})
    # samples
    for r in (recs[2], next(x for x in rest if x["kind"] == "derived" and len(x["involved"]) >= 5),
              next(x for x in rest if x["kind"] == "composite" and x.get("ex_edges"))):
        ev = evaluate(r)
        res.samples.append({"input": r, "clause_evaluations": ev.counts, "failures": [f["key"] for f in ev.fails]})
    for k in sorted(fails):
        res.failures[k] = fails[k]
    outd = res.write(out)
    print("C17 bounded tier=%s inputs=%d evaluations=%d nontrivial=%d failures=%d skipped=%s wall=%.1fs"
          % (tier, n_inputs, res.evaluations, len(nontriv), len(res.failures), dict(res.skipped), time.time() - t0))
    for k in sorted(res.failures):
        print("  FAILURE", k)
    return outd


def probe_display_coords():
    try:
        from qce_circuit.visualization.visualize_layout.display_connectivity import VisualConnectivityDescription
        sc = lib()["sc"]
        v = VisualConnectivityDescription(connectivity=sc.Surface17Layer(), rotation=0.0)
        for q in QUBITS:
            p = v.identifier_to_pivot(Q(q))
            if abs(p.x - COORD[q][0]) > 1e-9 or abs(p.y - COORD[q][1]) > 1e-9:
                return False
        return True
    except Exception:  # noqa
        return False


def replay(path):
    rec, args = common.load_replay(path)
    args = dict(args)
    key = args.pop("key", None) or rec.get("key") or rec.get("id") or rec.get("obligation")
    lib()
    ev = evaluate(args)
    keys = [f["key"] for f in ev.fails]
    print("replay input:", canon(args))
    print("clause evaluations:", ev.counts)
    print("failure keys observed now:", keys)
    hit = [f for f in ev.fails if f["key"] == key]
    if hit:
        f = hit[0]
        print("clause:", f["clause"])
        print("detail:", json.dumps(f["witness"]["detail"], default=str))
        print("observed:", json.dumps(f["observed"], default=str))
        print("required:", json.dumps(f["required"], default=str))
        print("VIOLATION property=%s replay=%s" % (PROP, path))
        return 1
    print("recorded key %s is not reproduced" % key)
    return 0


def main(argv=None):
    args = common.parse_args(argv)
    if args.replay:
        sys.exit(replay(args.replay))
    run(args.tier, args.seed, args.out)
    sys.exit(0)


if __name__ == "__main__":
    main()
