"""Bounded stand-in (tier B) for property C15 -- OpenQL export is the in-order image of the circuit.

What is observed
----------------
`to_openql` / `OpenQLFactoryManager().construct` run UNCHANGED on the library's own (real, offline) OpenQL
platform.  Every call they make on `openql.Kernel` / `openql.Program` objects is recorded

* "real" recording: the methods of the real SWIG classes `openql.Kernel` / `openql.Program` are wrapped in
  this process (the wrapper logs the call, then calls the real method).  Used for all dedicated inputs and a
  fixed fraction of the enumerated / random ones; these programs are also compiled to cQASM.
* "hybrid" recording (the bulk; the real `Program.add_program` costs ~7 ms per call): real wrapped
  `openql.Kernel` (so every gate is still validated by the real platform) + a recording stand-in put in place of
  the module attribute `openql.Program`, which applies OpenQL's `duplicate kernel name` rule.  On every "real"
  input the outcome of the hybrid recording is compared with the real one.
* "fake" recording (fallback only): after OpenQL (or the rule above) raised, the export is repeated with plain
  recording stand-ins for both classes so that the order / repetition clauses can still be evaluated.

From the recorded calls the *executed gate sequence* of the returned program is derived with a small model of
`openql.Program` (add_kernel appends a kernel by reference, add_program appends the kernels the other program
holds at that moment; a program executes its kernels in order).  The model is probed on the real library and,
on every "real" input, cross-checked against the cQASM that the real `Program.compile()` writes.

Oracle (independent of the code under test)
-------------------------------------------
`listing(c)`: own breadth-first walk over `_outgoing_pointers` from the entry node of the circuit graph
(never the cached iterator the factory uses).  `image(c)`: concatenation over the listing of
  leaf  -> the instruction(s) of the table written down from the property statement (13 kinds),
           nothing for every other kind;
  sub-circuit -> repetition-count copies of `image(sub)`, at the position of the sub-circuit.
Post-condition: executed gate sequence == image(circuit).
"""
import collections
import contextlib
import hashlib
import inspect
import json
import multiprocessing as mp
import multiprocessing.connection
import os
import random
import re
import shutil
import signal
import subprocess
import sys
import time
import traceback
import types
import weakref

sys.path.insert(0, os.path.abspath(os.path.join(os.path.dirname(os.path.abspath(__file__)), "..")))
from bounded import common  # noqa: E402

PROP = "C15"
HERE = os.path.dirname(os.path.abspath(__file__))
# private to this run; forked workers inherit it, child interpreters get a sub-directory of it through the environment
BUILD_DIR = os.environ.get("C15_BUILD_DIR") or os.path.abspath(os.path.join(HERE, "..", "build", "c15_openql_%d" % os.getpid()))
NPROC = 16

# --------------------------------------------------------------------------------------------------
# oracle table, written from the property statement / the documented instruction names
# --------------------------------------------------------------------------------------------------
SUPPORTED_1Q = {
    "Reset": "prepz", "Hadamard": "h", "Identity": "i", "DispersiveMeasure": "measure",
    "Rx180": "x180", "Rx90": "x90", "Rxm90": "mx90", "Ry180": "y180", "Ry90": "y90", "Rym90": "my90",
}
SUPPORTED = sorted(list(SUPPORTED_1Q) + ["CPhase", "Barrier", "Wait"])  # the 13 supported kinds
UNSUPPORTED_1Q = ["Rx180ef", "VirtualPhase", "VirtualPark", "Rphi90", "VirtualVacant", "VirtualEmpty",
                  "SingleQubitOperation", "DetectorOperation", "LogicalObservableOperation"]
UNSUPPORTED_2Q = ["TwoQubitVirtualPhase", "VirtualTwoQubitVacant", "TwoQubitOperation"]
UNSUPPORTED_NQ = ["CoordinateShiftOperation"]
UNSUPPORTED = UNSUPPORTED_1Q + UNSUPPORTED_2Q + UNSUPPORTED_NQ
ONE_Q = list(SUPPORTED_1Q) + UNSUPPORTED_1Q
TWO_Q = ["CPhase"] + UNSUPPORTED_2Q
N_Q = ["Barrier"] + UNSUPPORTED_NQ
NO_RELATION_KW = {"Barrier", "CoordinateShiftOperation"}  # constructors without a `relation` argument
NATIVE = sorted(set(SUPPORTED_1Q.values()) - {"prepz"} | {"cz", "update_ph"})

_LIB = {}


def lib():
    """library symbols (imported lazily, once per process)"""
    if _LIB:
        return _LIB
    from qce_circuit.language.declarative_circuit import DeclarativeCircuit
    from qce_circuit.structure import circuit_operations as co
    from qce_circuit.addon_stim import circuit_operations as so
    from qce_circuit.structure.intrf_circuit_operation import RelationLink, RelationType, QubitChannel
    from qce_circuit.structure.intrf_circuit_operation_composite import ICircuitCompositeOperation
    from qce_circuit.structure.registry_repetition import FixedRepetitionStrategy
    from qce_circuit.structure.registry_duration import (FixedDurationStrategy, DynamicDurationStrategy, RegistryDurationStrategy,
                                                         GlobalDurationStrategy, GlobalRegistryKey, DurationRegistry)
    from qce_circuit.structure.registry_repetition import DynamicRepetitionStrategy, RegistryRepetitionStrategy, RepetitionRegistry
    from qce_circuit.addon_openql.factory_manager import to_openql, OpenQLFactoryManager
    from qce_circuit.addon_openql.platform_manager import PlatformManager
    import openql
    kinds = {}
    for name in SUPPORTED + UNSUPPORTED:
        kinds[name] = getattr(co, name, None) or getattr(so, name)
    _LIB.update(DeclarativeCircuit=DeclarativeCircuit, kinds=kinds, RelationLink=RelationLink, RelationType=RelationType,
                QubitChannel=QubitChannel, Composite=ICircuitCompositeOperation, FixedRepetitionStrategy=FixedRepetitionStrategy,
                FixedDurationStrategy=FixedDurationStrategy, to_openql=to_openql, Manager=OpenQLFactoryManager,
                PlatformManager=PlatformManager, ql=openql, DynamicDurationStrategy=DynamicDurationStrategy,
                RegistryDurationStrategy=RegistryDurationStrategy, GlobalDurationStrategy=GlobalDurationStrategy,
                GlobalRegistryKey=GlobalRegistryKey, DurationRegistry=DurationRegistry, DynamicRepetitionStrategy=DynamicRepetitionStrategy,
                RegistryRepetitionStrategy=RegistryRepetitionStrategy, RepetitionRegistry=RepetitionRegistry)
    return _LIB


# --------------------------------------------------------------------------------------------------
# build programs  (JSON)  ->  real circuits through the public API
#   leaf: {"op": kind, "q": [..], "dur": d?, "chan": name?, "rel": {"ref": i, "type": name}?,
#          "dstrat": "dynamic"|"registry"|"global:<KEY>"?}   duration strategy other than FixedDurationStrategy: a fresh lambda /
#          a fresh DurationRegistry per build (value "dur"), or the global registry; passed to the constructor of Wait, assigned to
#          the public dataclass field `duration_strategy` of any other kind
#   sub : {"sub": [items], "reps": r, "rstrat": "dynamic"|"registry"?}   repetition strategy other than FixedRepetitionStrategy
#   program: {"items": [...], "circuit_id": str|None, "as_structure": bool, "check": "general"|"table"|...}
# --------------------------------------------------------------------------------------------------
def duration_strategy(it):
    """a NEW strategy object per call (fresh lambda / fresh registry), as a user's build routine would create it"""
    L = lib()
    d = it.get("dur", 0)
    how = it.get("dstrat")
    if how is None:
        return L["FixedDurationStrategy"](d)
    if how == "dynamic":
        return L["DynamicDurationStrategy"](duration_call=lambda: d)
    if how == "registry":
        reg = L["DurationRegistry"]()
        reg.set_registry_at("c15_key_%s" % d, d)
        return L["RegistryDurationStrategy"](registry=reg, registry_key="c15_key_%s" % d)
    if how.startswith("global:"):
        return L["GlobalDurationStrategy"](L["GlobalRegistryKey"][how.split(":")[1]])
    raise ValueError(how)


def repetition_strategy(it):
    L = lib()
    r = it["reps"]
    how = it.get("rstrat")
    if how is None:
        return L["FixedRepetitionStrategy"](r)
    if how == "dynamic":
        return L["DynamicRepetitionStrategy"](repetitions_call=lambda: r)
    if how == "registry":
        reg = L["RepetitionRegistry"]()
        reg.set_registry_at("c15_rep_%d" % r, r)
        return L["RegistryRepetitionStrategy"](registry=reg, registry_key="c15_rep_%d" % r)
    raise ValueError(how)


def make_leaf(it, circ, rel):
    op = _make_leaf(it, circ, rel)
    if it.get("dstrat") and it["op"] != "Wait":
        op.duration_strategy = duration_strategy(it)
    return op


def _make_leaf(it, circ, rel):
    L = lib()
    kind, q = it["op"], it["q"]
    cls = L["kinds"][kind]
    kw = {}
    if rel is not None:
        kw["relation"] = rel
    if kind == "DispersiveMeasure":
        return cls(q[0], acquisition_strategy=circ.get_acquisition_strategy(), **kw)
    if kind == "Wait":
        if "chan" in it:
            kw["qubit_channel"] = L["QubitChannel"][it["chan"]]
        return cls(q[0], duration_strategy=duration_strategy(it), **kw)
    if kind in ("VirtualVacant", "VirtualEmpty") and "chan" in it:
        kw["qubit_channel"] = L["QubitChannel"][it["chan"]]
    if kind in TWO_Q:
        return cls(q[0], q[1], **kw)
    if kind in N_Q:
        return cls(list(q))
    return cls(q[0], **kw)


def fill(circ, items):
    L = lib()
    added = []
    for it in items:
        if "sub" in it:
            sub = L["DeclarativeCircuit"](repetition_strategy=repetition_strategy(it))
            fill(sub, it["sub"])
            added.append(circ.add(sub))
            continue
        rel = None
        if it.get("rel") and it["op"] not in NO_RELATION_KW:
            rel = L["RelationLink"](added[it["rel"]["ref"]], L["RelationType"][it["rel"]["type"]])
        added.append(circ.add(make_leaf(it, circ, rel)))
    return added


def build(program):
    circ = lib()["DeclarativeCircuit"]()
    fill(circ, program["items"])
    if program.get("apply_modifiers"):
        circ = circ.apply_modifiers()   # unrolled repetitions: graphs with MultiRelationLink nodes, all counts 1
    return circ


# --------------------------------------------------------------------------------------------------
# own walker and image
# --------------------------------------------------------------------------------------------------
def listing(comp):
    """operations of one composite, breadth first over the real pointers, layer by layer, in order"""
    g = comp._circuit_graph
    root, end = g._entrypoint_node, g._endpoint_node
    out, layer, seen = [], [root], {id(root)}
    while layer:
        nxt = []
        for n in layer:
            for m in n._outgoing_pointers:
                if m is end or id(m) in seen:
                    continue
                seen.add(id(m))
                nxt.append(m)
        out.extend(nxt)
        layer = nxt
    return [n.operation for n in out]


def leaf_image(op):
    kind = type(op).__name__
    if kind in SUPPORTED_1Q:
        return [("g", SUPPORTED_1Q[kind], (int(op.qubit_index),))]
    if kind == "CPhase":
        c, t = int(op.control_qubit_index), int(op.target_qubit_index)
        return [("g", "cz", (c, t)), ("barrier", tuple(sorted({c, t}))), ("g", "update_ph", (c,)), ("g", "update_ph", (t,))]
    if kind == "Barrier":
        return [("barrier", tuple(sorted({int(q) for q in op.qubit_indices})))]
    if kind == "Wait":
        d = op.duration
        return [("wait", (int(op.qubit_index),), int(d) if float(d).is_integer() else float(d))]
    return []


def image(comp, rep=lambda r: r, subs_first=False):
    """in-order image.  `rep` / `subs_first` only serve to NAME a deviation (alternative readings)."""
    Composite = lib()["Composite"]
    head, own = [], []
    for op in listing(comp):
        if isinstance(op, Composite):
            part = image(op, rep, subs_first) * max(0, rep(int(op.nr_of_repetitions)))
            (head if subs_first else own).extend(part)
        else:
            own.extend(leaf_image(op))
    return head + own


def kinds_of(comp):
    Composite = lib()["Composite"]
    out = []
    for op in listing(comp):
        out.extend(kinds_of(op) if isinstance(op, Composite) else [type(op).__name__])
    return out


def image_stale(comp, cache, depth=0, subs_first=True):
    """alternative reading, only to NAME a deviation: a sub-circuit whose sequence of operation kinds equals that of an
    earlier sub-circuit at the same nesting depth is emitted as a copy of that earlier one"""
    Composite = lib()["Composite"]
    head, own = [], []
    for op in listing(comp):
        if isinstance(op, Composite):
            key = (depth, tuple(kinds_of(op)))
            if key not in cache:
                cache[key] = image_stale(op, cache, depth + 1, subs_first)
            (head if subs_first else own).extend(cache[key] * int(op.nr_of_repetitions))
        else:
            own.extend(leaf_image(op))
    return head + own


def shape(comp):
    """(number of listed nodes per level, recursively) -- build sanity"""
    Composite = lib()["Composite"]
    return [shape(op) if isinstance(op, Composite) else type(op).__name__ for op in listing(comp)]


def spec_shape(items):
    return [spec_shape(it["sub"]) if "sub" in it else it["op"] for it in items]


def flat_sorted(s):
    """canonical form of a nested shape, order-insensitive at every level"""
    return sorted(json.dumps(flat_sorted(x)) if isinstance(x, list) else x for x in s)


# --------------------------------------------------------------------------------------------------
# recording
# --------------------------------------------------------------------------------------------------
_REC = None            # active Recorder or None
_ORIG = {}             # (class name, method) -> original function
_READ_ONLY = {"get_custom_instructions", "print_custom_instructions", "dump_custom_instructions",
              "print_interaction_matrix", "write_interaction_matrix", "get_compiler", "has_compiler", "compile"}


_ALL = {}              # id(obj) -> (weakref, "K"|"P", record): every live Kernel/Program object constructed under recording
_CURRENT = {"spec": None}  # build program whose export is running (origin of the objects constructed now)


def _register(what, obj, rec):
    key = id(obj)

    def gone(_ref, key=key):
        _ALL.pop(key, None)
    try:
        _ALL[key] = (weakref.ref(obj, gone), what, rec)
    except TypeError:  # not weak-referenceable: keep it alive instead (ids stay unique)
        _ALL[key] = (lambda o=obj: o, what, rec)


class Recorder:
    def __init__(self, strict=False):
        self.strict = strict  # model the duplicate-kernel-name check of the real openql.Program (fake Program only)
        self.kernels = {}     # id -> {"name", "calls": [(meth, args, kwargs)], "origin"}
        self.programs = {}    # id -> {"name", "kernels": [kernel rec], "unmodelled": [], "origin"}
        self.keep = []        # the objects themselves (alive as long as this recorder)
        self.order = []       # creation order: ("K"|"P", name)
        self.events = []      # readable trace
        self.raised = None    # (what, meth, message)
        self.collision = None  # first kernel-name collision inside one program: "same-kernel-object" | "distinct-kernel-objects"
        self.foreign = []     # objects used in this export that were constructed in an EARLIER export: (what, name, origin spec)

    def init(self, what, obj, args, kwargs):
        name = args[0] if args else kwargs.get("name")
        rec = {"name": name, "calls": [], "kernels": [], "unmodelled": [], "origin": _CURRENT["spec"]}
        (self.kernels if what == "K" else self.programs)[id(obj)] = rec
        self.keep.append(obj)
        _register(what, obj, rec)
        self.order.append((what, name))
        self.events.append([what + ".init", name])

    def _find(self, what, obj):
        own = (self.kernels if what == "K" else self.programs).get(id(obj))
        if own is not None:
            return own
        ent = _ALL.get(id(obj))
        if ent is not None and ent[1] == what and ent[0]() is obj:
            if not any(f[2] is ent[2] for f in self.foreign):
                self.foreign.append((what, ent[2]["name"], ent[2]["origin"], ent[2]))
            return ent[2]
        return None

    def call(self, what, obj, meth, args, kwargs):
        if what == "K":
            rec = self._find("K", obj)
            if rec is None:
                return
            rec["calls"].append((meth, args, kwargs))
            self.events.append(["K." + meth, rec["name"], _js(args), _js(kwargs)])
            return
        rec = self._find("P", obj)
        if rec is None:
            return
        arg = args[0] if args else None
        krec, prec = self._find("K", arg), self._find("P", arg)
        self.events.append(["P." + meth, rec["name"], (krec or prec or {}).get("name")])
        if meth == "add_kernel" and krec is not None:
            self._add(rec, [krec], meth)
        elif meth == "add_program" and prec is not None:
            self._add(rec, list(prec["kernels"]), meth)
        elif meth == "add_for" and len(args) >= 2 and isinstance(args[1], int) and (krec or prec) is not None:
            rec["kernels"].extend(([krec] if krec is not None else list(prec["kernels"])) * args[1])
        else:
            rec["unmodelled"].append(meth)

    def _add(self, rec, incoming, meth):
        have = {k["name"]: k for k in rec["kernels"]}
        for k in incoming:
            if k["name"] in have:
                if self.collision is None:
                    self.collision = "same-kernel-object" if have[k["name"]] is k else "distinct-kernel-objects"
                if self.strict:
                    msg = "Unknown error: duplicate kernel name: %s" % k["name"]
                    if self.raised is None:
                        self.raised = ("P", meth, msg)
                    raise RuntimeError(msg)
            have.setdefault(k["name"], k)
        rec["kernels"].extend(incoming)

    def executed(self, prog_obj):
        rec = self.programs[id(prog_obj)]
        return [normalise(c) for k in rec["kernels"] for c in k["calls"]], rec

    def names(self):
        return [list(x) for x in self.order]


def _js(x):
    try:
        json.dumps(x)
        return x
    except TypeError:
        return repr(x)


def normalise(call):
    meth, args, kw = call
    try:
        if meth == "gate":
            name = args[0] if args else kw["name"]
            rest = list(args[1:])
            qs = rest.pop(0) if rest else kw.get("qubits", kw.get("q0"))
            qs = (int(qs),) if isinstance(qs, int) else tuple(int(q) for q in qs)
            extra = [x for x in rest if x not in (0, 0.0, [], (), "COND_ALWAYS")] + \
                    [(k, v) for k, v in sorted(kw.items()) if k not in ("name", "qubits", "q0") and v not in (0, 0.0, [], (), "COND_ALWAYS")]
            return ("g", name, qs) if not extra else ("g", name, qs, repr(extra))
        if meth == "cz" and len(args) + len(kw) == 2:
            a = list(args) + [kw[k] for k in ("q0", "q1") if k in kw]
            return ("g", "cz", (int(a[0]), int(a[1])))
        if meth == "barrier" and len(args) + len(kw) == 1:
            qs = args[0] if args else list(kw.values())[0]
            return ("barrier", tuple(sorted({int(q) for q in qs})))
        if meth == "wait" and len(args) + len(kw) == 2:
            a = list(args)
            qs = a.pop(0) if a else kw["qubits"]
            d = a.pop(0) if a else kw["duration"]
            return ("wait", tuple(sorted({int(q) for q in qs})), d)
    except Exception:  # malformed call: keep it verbatim, it will not match anything required
        pass
    return ("call", meth, repr(args), repr(kw))


def _wrap(cls, what, name):
    orig = inspect.getattr_static(cls, name)
    _ORIG[(what, name)] = orig

    if name == "__init__":
        def wrapper(self, *a, **k):
            orig(self, *a, **k)
            if _REC is not None:
                _REC.init(what, self, a, k)
    else:
        def wrapper(self, *a, **k):
            rec = _REC
            if rec is not None:
                rec.call(what, self, name, a, k)
            try:
                return orig(self, *a, **k)
            except Exception as exc:
                if rec is not None and rec.raised is None:
                    rec.raised = (what, name, str(exc).split("\n")[0])
                raise
    wrapper.__name__ = name
    setattr(cls, name, wrapper)


def install_real_wrappers():
    ql = lib()["ql"]
    if getattr(ql, "_c15_wrapped", False):
        return
    for cls, what in ((ql.Kernel, "K"), (ql.Program, "P")):
        for name in dir(cls):
            if name.startswith("_") and name != "__init__":
                continue
            if name in _READ_ONLY:
                continue
            if isinstance(inspect.getattr_static(cls, name), types.FunctionType):
                _wrap(cls, what, name)
    ql._c15_wrapped = True


class _Fake:
    _what = "?"

    def __init__(self, *a, **k):
        self.name = a[0] if a else k.get("name")
        if _REC is not None:
            _REC.init(self._what, self, a, k)

    def __getattr__(self, meth):
        if meth.startswith("_") or meth in ("this", "thisown"):   # never pretend to be a SWIG proxy
            raise AttributeError(meth)

        def f(*a, **k):
            if _REC is not None:
                _REC.call(self._what, self, meth, a, k)
            return None
        return f


class FakeKernel(_Fake):
    _what = "K"


class FakeProgram(_Fake):
    _what = "P"


@contextlib.contextmanager
def recording(mode):
    global _REC
    ql = lib()["ql"]
    rec = Recorder(strict=(mode == "hybrid"))
    saved = (ql.Kernel, ql.Program)
    if mode == "fake":
        ql.Kernel, ql.Program = FakeKernel, FakeProgram
    elif mode == "hybrid":
        ql.Program = FakeProgram
    _REC = rec
    try:
        yield rec
    finally:
        _REC = None
        ql.Kernel, ql.Program = saved


def export(circ, program, mode):
    """run the real factory code; returns (recorder, program object or None, exception or None).
    program["before"]: items of another build program that is exported first through the same default factory (same mode,
    same calling convention) -- successive exports must not influence each other."""
    L = lib()
    if program.get("before"):
        first = {"items": program["before"], "circuit_id": program.get("circuit_id"), "as_structure": program.get("as_structure"),
                 "check": "history"}
        export(build(first), first, mode)
    _CURRENT["spec"] = program
    with recording(mode) as rec:
        try:
            if program.get("as_structure"):
                out = L["Manager"]().construct(circuit=circ.circuit_structure, circuit_id=program.get("circuit_id"))
            else:
                out = L["to_openql"](circ, circuit_id=program.get("circuit_id"))
            return rec, out, None
        except Exception as exc:  # noqa
            return rec, None, exc


# --------------------------------------------------------------------------------------------------
# process set-up (real platform, quiet, private output directory under build/)
# --------------------------------------------------------------------------------------------------
_STATE = {"ready": False, "outdir": None, "translate": {}}


@contextlib.contextmanager
def quiet_fds():
    sys.stdout.flush(); sys.stderr.flush()
    devnull = os.open(os.devnull, os.O_WRONLY)
    s1, s2 = os.dup(1), os.dup(2)
    os.dup2(devnull, 1); os.dup2(devnull, 2)
    try:
        yield
    finally:
        os.dup2(s1, 1); os.dup2(s2, 2)
        for fd in (devnull, s1, s2):
            os.close(fd)


def setup_process():
    if _STATE["ready"]:
        return
    import warnings
    L = lib()
    warnings.simplefilter("ignore")   # after the library import (it installs its own filter): OperationNotFoundWarning etc. while unrolling are irrelevant here
    with quiet_fds():
        L["PlatformManager"].openql_platform()          # the library's own platform singleton (real OpenQL)
    outdir = os.path.join(BUILD_DIR, "w%d" % os.getpid())
    os.makedirs(outdir, exist_ok=True)
    L["ql"].set_option("output_dir", outdir)             # never write below /repo
    L["ql"].set_option("log_level", "LOG_NOTHING")
    install_real_wrappers()
    _STATE.update(ready=True, outdir=outdir)


# --------------------------------------------------------------------------------------------------
# cQASM cross-check of the recording model (real mode only)
# --------------------------------------------------------------------------------------------------
def parse_qasm(path):
    kernels = []
    with open(path) as fh:
        for line in fh:
            s = line.strip()
            if not s or s.startswith("#") or s.startswith("version") or s.startswith("pragma") or s.startswith("qubits"):
                continue
            if s.startswith("."):
                kernels.append([s[1:], []])
            elif kernels:
                kernels[-1][1].append(s)
    return kernels


def compile_and_parse(prog_obj, name):
    path = os.path.join(_STATE["outdir"], name + ".qasm")
    for p in (path, path[:-5] + "_scheduled.qasm"):
        if os.path.exists(p):
            os.remove(p)
    prog_obj.compile()
    out = parse_qasm(path)
    for p in (path, path[:-5] + "_scheduled.qasm"):
        if os.path.exists(p):
            os.remove(p)
    return out


def translate(call):
    """what the real OpenQL writes for ONE recorded kernel call (reference compilation, memoised)"""
    key = repr(call)
    memo = _STATE["translate"]
    if key not in memo:
        L = lib()
        pl = L["PlatformManager"].openql_platform()
        n = pl.get_qubit_number()
        k = L["ql"].Kernel("c15ref_k", pl, n)
        p = L["ql"].Program("c15ref_p", pl, n)
        getattr(k, call[0])(*call[1], **call[2])
        p.add_kernel(k)
        memo[key] = compile_and_parse(p, "c15ref_p")[0][1]
    return memo[key]


def cqasm_check(rec, prog_obj):
    """-> None if the real compile agrees with the recorded-call model, else a description"""
    prec = rec.programs[id(prog_obj)]
    required = [[k["name"], [ln for c in k["calls"] for ln in translate(c)]] for k in prec["kernels"]]
    observed = compile_and_parse(prog_obj, prec["name"])
    if observed != required:
        return {"cqasm": observed, "recorded_calls_translated": required}
    return None


# --------------------------------------------------------------------------------------------------
# evaluation of one build program
# --------------------------------------------------------------------------------------------------
def instr_name(i):
    return i[1] if i[0] == "g" else ("call." + i[1] if i[0] == "call" else i[0])


def has_sub(items):
    return any("sub" in it for it in items)


def max_reps(items):
    return max([1] + [max(it["reps"], max_reps(it["sub"])) for it in items if "sub" in it])


def nontrivial(program):
    def count(items):
        return sum(count(it["sub"]) if "sub" in it else (it["op"] in SUPPORTED) for it in items)
    return has_sub(program["items"]) or count(program["items"]) >= 2


def classify_sequence(program, circ, required, observed):
    """stable key for required != observed"""
    root = circ.circuit_structure
    nested = has_sub(program["items"])
    check = program.get("check", "general")
    if check == "unsupported" and collections.Counter(observed) - collections.Counter(required):
        return "C15:unsupported:%s:not-omitted" % program["focus"]
    if check in ("table", "wait-fractional"):
        kind = program["focus"]
        if kind == "Wait" and len(required) == 1 and len(observed) == 1 and observed[0][:2] == required[0][:2]:
            if not float(required[0][2]).is_integer():
                return "C15:wait:duration:non-integer-duration-not-kept"
            return "C15:wait:duration:not-kept"
        return "C15:table:%s:wrong-instruction" % kind
    if collections.Counter(required) == collections.Counter(observed):
        if nested and observed == image(root, subs_first=True):
            return "C15:construct:order:sub-circuit-executed-before-operations-listed-ahead-of-it"
        return "C15:construct:order:%s:other-permutation" % ("nested" if nested else "flat")
    if nested:
        for sf in (True, False):
            if observed == image_stale(root, {}, subs_first=sf):
                return "C15:construct:stale-sub-program:sub-circuit-exported-as-copy-of-an-earlier-one-with-equal-kind-sequence"
        for label, f in (("once-regardless-of-count", lambda r: 1), ("count-minus-one", lambda r: r - 1),
                         ("count-plus-one", lambda r: r + 1), ("never", lambda r: 0)):
            for sf in (False, True):
                if observed == image(root, rep=f, subs_first=sf):
                    return "C15:repetition:sub-circuit-emitted-%s" % label
    miss = collections.Counter(required) - collections.Counter(observed)
    extra = collections.Counter(observed) - collections.Counter(required)
    return "C15:image:%s:missing[%s]:extra[%s]" % ("nested" if nested else "flat",
                                                     ",".join(sorted({instr_name(i) for i in miss})),
                                                     ",".join(sorted({instr_name(i) for i in extra})))


def classify_raise(program, rec, exc):
    msg = str(exc).split("\n")[0]
    check = program.get("check", "general")
    if "duplicate kernel name" in msg:
        # the kernel that collides is either the very same kernel (its sub-program is added once per repetition)
        # or another kernel whose name was derived from an equal sequence of class names
        if rec.collision == "same-kernel-object":
            return "C15:construct:raises:duplicate-kernel-name:same-sub-program-added-again(repetition>=2)"
        if rec.collision == "distinct-kernel-objects":
            return "C15:construct:raises:duplicate-kernel-name:distinct-circuits-with-equal-kind-sequence"
        return "C15:construct:raises:duplicate-kernel-name:unexplained"
    if check == "unsupported":
        return "C15:unsupported:%s:raises" % program["focus"]
    if check in ("table", "wait-fractional"):
        return "C15:table:%s:raises" % program["focus"]
    return "C15:construct:raises:%s:%s" % (type(exc).__name__, re.sub(r"\d+", "#", msg)[:70])


MODE_NAME = {"real": "real openql.Kernel and openql.Program (wrapped)",
             "hybrid": "real openql.Kernel (wrapped) + recording Program with the duplicate-kernel-name rule of openql",
             "fake": "recording Kernel and Program (fallback after openql raised)"}


def outcome(rec, out, exc):
    """comparable summary of one export"""
    if exc is not None:
        return {"raised": re.sub(r"^Unknown error: ", "", str(exc).split("\n")[0]), "names": rec.names()}
    if id(out) not in rec.programs:
        return {"returned": repr(out)}
    seq, prec = rec.executed(out)
    return {"executed": seq, "kernels": [k["name"] for k in prec["kernels"]], "names": rec.names()}


def features(items):
    out = set()
    for it in items:
        if "sub" in it:
            if it.get("rstrat"):
                out.add("%s-repetition" % it["rstrat"])
            out |= features(it["sub"])
        elif it.get("dstrat"):
            out.add("%s-duration" % it["dstrat"].split(":")[0])
    return out


def names_key(situation, program, a, b):
    """C15:names:not-deterministic:<situation>:<what differs>:<strategy class of the program>"""
    if len(a) != len(b) or [x[0] for x in a] != [x[0] for x in b]:
        what = "sequence-of-constructions"
    else:
        what = "+".join(sorted({"program-names" if x[0] == "P" else "kernel-names" for x, y in zip(a, b) if x != y}))
    # ONE class per program: the most identity-laden strategy kind it contains (fresh callable > fresh registry object > global registry)
    have = features(program["items"])
    feat = next((f for f in ("dynamic-duration", "dynamic-repetition", "registry-duration", "registry-repetition", "global-duration") if f in have),
                "fixed-strategies-only")
    return "C15:names:not-deterministic:%s:%s:%s" % (situation, what, feat)


def evaluate(program, primary="real", do_names=True, do_cqasm=True, do_cross=True):
    """-> dict(evals={clause: n}, failures=[...], skipped=reason|None, sample=...)
    primary "real": everything on the real openql (+ cQASM cross-check, + comparison with the hybrid recording);
    primary "hybrid": real kernels, modelled Program (used for the bulk: real Program.add_program costs ~7 ms)."""
    res = {"evals": collections.Counter(), "failures": [], "skipped": None, "sample": None, "probe_bad": []}

    def fail(key, clause, function, observed, required, extra=None):
        w = {"program": program}
        if extra:
            w.update(extra)
        res["failures"].append({"key": key, "clause": clause, "function": function, "witness": w, "observed": observed,
                                "required": required, "replay_args": {"program": program, "key": key}})

    common.clear_caches()
    try:
        circ = build(program)
    except Exception as exc:  # noqa
        res["skipped"] = "build raised %s" % type(exc).__name__
        return res
    root = circ.circuit_structure
    if not program.get("apply_modifiers") and flat_sorted(shape(root)) != flat_sorted(spec_shape(program["items"])):
        res["probe_bad"].append("own walker does not list every added item exactly once at its level")
    required = image(root)

    ctx = {"observed": "(the export raised)", "mode": primary}

    def carried_over(*recs):
        """an openql object constructed in an EARLIER export takes part in this one: report that (once), not its symptoms"""
        for r_ in recs:
            if r_.foreign:
                what, oname, origin, _ = r_.foreign[0]
                if not any(f["key"].startswith("C15:construct:state-carried-over") for f in res["failures"]):
                    # the ORDER of a nested export is a separate matter (sub-programs first); here: are these the gates of THIS circuit at all?
                    same = isinstance(ctx["observed"], list) and collections.Counter(ctx["observed"]) == collections.Counter(required)
                    effect = "exported-gates-happen-to-be-those-of-this-circuit" if same else "exported-gates-are-not-those-of-this-circuit"
                    fail("C15:construct:state-carried-over:openql-object-built-in-an-earlier-export-reused:" + effect,
                         "successive exports through the default factory are independent: every Program / Kernel of the exported program is constructed during "
                         "this export, and the executed sequence is the image of THIS circuit",
                         "OpenQLCircuitFactoryManager.construct",
                         {"reused": "%s %r, constructed while exporting %s" % ("Program" if what == "P" else "Kernel", oname, json.dumps(origin)), "executed": ctx["observed"]},
                         {"reused": "nothing", "executed": required}, {"listing": shape(root), "recording": MODE_NAME[ctx["mode"]]})
                return True
        return False

    # ---- export, recorded
    mode = primary
    rec, out, exc = export(circ, program, primary)
    first = (rec, out, exc)
    res["evals"]["raises"] += 1
    if exc is not None and rec.foreign:
        ctx["observed"] = "%s: %s" % (type(exc).__name__, str(exc).split("\n")[0])
        carried_over(rec)
        return res
    if exc is not None:
        key = classify_raise(program, rec, exc)
        fail(key, "the export yields a program (for every build program, flat and nested, repetition counts >= 1)",
             "OpenQLCircuitFactoryManager.construct", "%s: %s" % (type(exc).__name__, str(exc).split("\n")[0]),
             "a program executing " + json.dumps(required), {"calls_until_raise": rec.events[-12:], "recording": MODE_NAME[primary]})
        mode = "fake"
        rec, out, exc2 = export(circ, program, "fake")
        if exc2 is not None and rec.foreign:
            ctx["observed"] = "%s: %s" % (type(exc2).__name__, str(exc2).split("\n")[0])
            carried_over(rec)
            return res
        if exc2 is not None:
            key2 = classify_raise(program, rec, exc2)
            if key2 != key:
                fail(key2, "the export yields a program", "OpenQLCircuitFactoryManager.construct",
                     "%s: %s" % (type(exc2).__name__, str(exc2).split("\n")[0]), "no exception", {"recording": MODE_NAME["fake"]})
            return res

    # ---- clause: executed sequence == in-order image
    if id(out) not in rec.programs:
        fail("C15:construct:returns-no-program", "the export returns the constructed program", "OpenQLCircuitFactoryManager.construct",
             repr(out), "the openql.Program that was filled")
        return res
    observed, prec = rec.executed(out)
    ctx.update(observed=observed, mode=mode)
    res["evals"]["image"] += 1
    if prec["unmodelled"]:
        fail("C15:recording-model:unmodelled-program-call", "only add_kernel/add_program/add_for are modelled", "OpenQLCircuitFactoryManager.construct",
             prec["unmodelled"], [], {"recording": MODE_NAME[mode]})
    if carried_over(first[0], rec):
        pass
    elif observed != required:
        fail(classify_sequence(program, circ, required, observed),
             "executed gate sequence of the exported program == in-order image of the listing "
             "(table instruction per supported operation, nothing for unsupported ones, repetition-count copies of a sub-circuit at its position)",
             "OpenQLCircuitFactoryManager.construct", observed, required,
             {"listing": shape(root), "recording": MODE_NAME[mode], "calls": rec.events if len(rec.events) <= 40 else rec.events[:40] + ["..."]})
    res["sample"] = {"program": program, "listing": shape(root), "required_image": required, "executed": observed,
                     "names": rec.names(), "recording": MODE_NAME[mode],
                     "checked": "executed == image; export does not raise" + ("; names stable" if do_names else "") +
                                ("; cQASM == recorded calls; hybrid == real" if primary == "real" else "")}

    # ---- clause: the same circuit always yields the same program and kernel names
    if do_names:
        res["evals"]["names"] += 1
        rec2, _, _ = export(circ, program, "fake")                    # same object again
        rec3, _, _ = export(build(program), program, "fake")          # same build program, fresh objects
        n1, n2, n3 = rec.names(), rec2.names(), rec3.names()
        if carried_over(rec2, rec3):
            pass
        elif n1 != n2:
            fail(names_key("same-object-exported-twice", program, n1, n2), "same circuit -> same program and kernel names",
                 "OpenQLCircuitFactoryManager.construct_uuid / construct", n2, n1)
        elif n1 != n3:
            fail(names_key("rebuilt-program", program, n1, n3), "same circuit (same build program, built again by the same routine) -> same program and kernel names",
                 "OpenQLCircuitFactoryManager.construct_uuid / construct", n3, n1)

    if primary != "real":
        return res
    # ---- cross-checks of the recording model against the real openql
    if do_cqasm and first[2] is None:
        res["evals"]["cqasm"] += 1
        try:
            diff = cqasm_check(first[0], first[1])
        except Exception as exc3:  # noqa
            diff = {"compile raised": "%s: %s" % (type(exc3).__name__, str(exc3).split("\n")[0])}
        if diff is not None:
            fail("C15:recording-model:cqasm-differs-from-recorded-calls",
                 "cQASM written by the real Program.compile() == kernels/instructions derived from the recorded calls",
                 "OpenQLCircuitFactoryManager.construct", diff.get("cqasm", diff), diff.get("recorded_calls_translated"))
    if do_cross:
        res["evals"]["hybrid"] += 1
        hyb = export(circ, program, "hybrid")
        o_real, o_hyb = outcome(*first), outcome(*hyb)
        if carried_over(hyb[0]):
            pass
        elif o_real != o_hyb:
            fail("C15:recording-model:hybrid-recording-differs-from-real-openql",
                 "export against the modelled Program (duplicate-name rule) has the same outcome (raise / names / executed sequence) as against the real openql.Program",
                 "OpenQLCircuitFactoryManager.construct", o_hyb, o_real)
    return res


# --------------------------------------------------------------------------------------------------
# input spaces
# --------------------------------------------------------------------------------------------------
def L1(op, *q, **kw):
    d = {"op": op, "q": list(q)}
    d.update(kw)
    return d


def e_alphabet(tier):
    """alphabet of the exhaustively enumerated space E: leaf items + sub-circuit items (body x repetition count)"""
    if tier == "quick":
        top = [L1("Rx180", 0), L1("Ry90", 1), L1("Rx90", 2), L1("CPhase", 0, 1), L1("Wait", 1, dur=5), L1("VirtualPhase", 0)]
        lb = [L1("Rym90", 0), L1("Hadamard", 1), L1("Rx180ef", 0)]
        reps = (1, 2)
    else:
        top = [L1("Rx180", 0), L1("Ry90", 1), L1("Rx90", 2), L1("CPhase", 0, 1), L1("Barrier", 0, 1), L1("Wait", 1, dur=5),
               L1("VirtualPhase", 0), L1("DispersiveMeasure", 0)]
        lb = [L1("Rym90", 0), L1("Hadamard", 1), L1("Rx180ef", 0), L1("Reset", 2)]
        reps = (1, 2, 3)
    bodies = [[a] for a in lb] + [[a, b] for a in lb for b in lb]
    bodies += [[{"sub": [lb[0]], "reps": 2}], [lb[1], {"sub": [lb[-1]], "reps": 2}], [{"sub": [lb[1]], "reps": 1}, lb[0]]]
    return top + [{"sub": b, "reps": r} for b in bodies for r in reps]


def e_space_size(n, maxlen):
    return sum(n ** k for k in range(1, maxlen + 1))


def e_decode(index, alphabet, maxlen):
    n = len(alphabet)
    for k in range(1, maxlen + 1):
        if index < n ** k:
            digits = []
            for _ in range(k):
                index, d = divmod(index, n)
                digits.append(d)
            return {"items": [alphabet[d] for d in reversed(digits)], "circuit_id": None, "as_structure": False, "check": "general"}
        index -= n ** k
    raise IndexError


REL_TYPES = ["FOLLOWED_BY", "JOINED_START", "JOINED_END"]
ALL_KINDS = SUPPORTED + UNSUPPORTED


def rand_leaf(rng, nq):
    kind = rng.choice(ALL_KINDS) if rng.random() < 0.75 else rng.choice(SUPPORTED)
    if kind in TWO_Q:
        a, b = rng.sample(range(nq), 2)
        return L1(kind, a, b)
    if kind in N_Q:
        return L1(kind, *rng.sample(range(nq), rng.randint(1, nq)))
    it = L1(kind, rng.randrange(nq))
    if kind == "Wait":
        it["dur"] = rng.choice([0, 1, 2, 5, 20, 100, 1000])
        if rng.random() < 0.3:
            it["chan"] = rng.choice(["READOUT", "MICROWAVE", "FLUX"])
    return it


def rand_items(rng, depth, nq, maxdepth):
    n = rng.randint(1, 8 if depth == 0 else 4)
    items = []
    for i in range(n):
        if depth < maxdepth and rng.random() < 0.28:
            items.append({"sub": rand_items(rng, depth + 1, nq, maxdepth), "reps": rng.choice([1, 1, 2, 3, 4])})
            continue
        it = rand_leaf(rng, nq)
        if i > 0 and rng.random() < 0.3:
            it["rel"] = {"ref": rng.randrange(i), "type": rng.choice(REL_TYPES)}
        items.append(it)
    return items


def decorate(rng, items):
    """give some operations / sub-circuits a non-fixed duration / repetition strategy"""
    for it in items:
        if "sub" in it:
            if rng.random() < 0.5:
                it["rstrat"] = rng.choice(["dynamic", "registry"])
            decorate(rng, it["sub"])
        elif rng.random() < 0.5:
            it["dstrat"] = rng.choice(["dynamic", "dynamic", "registry", "global:MICROWAVE", "global:FLUX"])
            if it["op"] != "Wait" and not it["dstrat"].startswith("global"):
                it["dur"] = rng.choice([0, 1, 2, 5])


def r_program(seed, index):
    rng = random.Random("c15/%d/%d" % (seed, index))
    nq = rng.choice([2, 3, 5])
    prog = {"items": rand_items(rng, 0, nq, rng.choice([1, 2, 3])), "circuit_id": None, "as_structure": rng.random() < 0.3, "check": "general"}
    if rng.random() < 0.3:
        prog["circuit_id"] = "cid_%d" % rng.randrange(1000)
    if rng.random() < 0.1:
        prog["apply_modifiers"] = True
    if rng.random() < 0.15:
        decorate(rng, prog["items"])
    return prog


def t_space():
    """dedicated inputs for the table / wait / barrier / unsupported clauses"""
    out = []

    def P(items, check, focus):
        out.append({"items": items, "circuit_id": None, "as_structure": False, "check": check, "focus": focus})
    qs = [0, 1, 2, 5, 16]
    for kind in SUPPORTED_1Q:
        for q in qs:
            P([L1(kind, q)], "table", kind)
    pairs = [(a, b) for a in (0, 1, 2, 16) for b in (0, 1, 2, 16) if a != b]
    for a, b in pairs:
        P([L1("CPhase", a, b)], "table", "CPhase")
    for ql_ in ([0], [1], [0, 1], [1, 0], [2, 0, 1], [5, 16], list(range(17)), [3, 1, 4, 15, 9, 2, 6]):
        P([L1("Barrier", *ql_)], "table", "Barrier")
    for q in (0, 3):
        for d in (0, 1, 2, 5, 19, 20, 21, 37, 40, 1000, 100000):
            P([L1("Wait", q, dur=d)], "table", "Wait")
        for ch in ("READOUT", "MICROWAVE", "FLUX"):
            P([L1("Wait", q, dur=7, chan=ch)], "table", "Wait")
        for d in (0.5, 2.5, 37.9):
            P([L1("Wait", q, dur=d)], "wait-fractional", "Wait")
    for kind in UNSUPPORTED:
        for q in (0, 2):
            if kind in UNSUPPORTED_2Q:
                u = L1(kind, q, q + 1)
            elif kind in UNSUPPORTED_NQ:
                u = L1(kind, q, q + 1, q + 2)
            else:
                u = L1(kind, q)
            P([u], "unsupported", kind)
            P([L1("Rx180", q), u, L1("Ry90", q)], "unsupported", kind)
            P([L1("Rx180", q), u, L1("Ry90", q), L1("CPhase", q, q + 1)], "unsupported", kind)

    # ---- non-fixed duration / repetition strategies (a fresh lambda / registry object per build): name determinism
    def N(items, **kw):
        d = {"items": items, "circuit_id": None, "as_structure": False, "check": "names"}
        d.update(kw)
        out.append(d)
    wd = L1("Wait", 0, dur=5, dstrat="dynamic")
    N([wd])
    N([L1("Rx180", 0), L1("Wait", 0, dur=20, dstrat="dynamic"), L1("Ry90", 0)])
    N([L1("Rx180", 0), L1("Wait", 0, dur=20, dstrat="dynamic"), L1("Ry90", 0)], as_structure=True, circuit_id="cid_dyn")
    N([L1("Wait", 1, dur=7, dstrat="registry")])
    N([L1("Hadamard", 1), L1("Wait", 1, dur=7, dstrat="registry"), L1("Wait", 2, dur=3, dstrat="dynamic")])
    for gk in ("MICROWAVE", "FLUX", "READOUT", "RESET"):
        N([L1("Wait", 0, dstrat="global:" + gk), L1("Rx90", 0)])
    N([L1("Rx180", 0, dur=4, dstrat="dynamic"), L1("CPhase", 0, 1, dur=6, dstrat="dynamic"), L1("Barrier", 0, 1, dur=1, dstrat="dynamic")])
    N([L1("Ry180", 2, dur=4, dstrat="registry"), L1("DispersiveMeasure", 2, dur=9, dstrat="registry")])
    N([L1("SingleQubitOperation", 0, dur=4, dstrat="dynamic"), L1("Rx90", 0)])
    N([L1("VirtualPhase", 1, dur=4, dstrat="dynamic"), L1("TwoQubitOperation", 0, 1, dur=2, dstrat="registry")])
    # ---- same-shaped sub-circuits with different content: siblings in one circuit, and successive exports ("before")
    def S(items, **kw):
        d = {"items": items, "circuit_id": None, "as_structure": False, "check": "siblings"}
        d.update(kw)
        out.append(d)

    def sub(items, reps=1):
        return {"sub": items, "reps": reps}
    for r in (1, 2):
        S([sub([L1("Rym90", 0)], r), sub([L1("Rym90", 1)], r)])
        S([L1("Rx180", 0), sub([L1("Rym90", 0), L1("Hadamard", 0)], r), sub([L1("Rym90", 2), L1("Hadamard", 2)], r), L1("Ry90", 1)])
        S([sub([L1("Wait", 0, dur=60)], r), sub([L1("Wait", 0, dur=100)], r)])
        S([sub([L1("CPhase", 0, 1)], r), L1("Rx90", 4), sub([L1("CPhase", 2, 3)], r)])
        S([sub([sub([L1("Rx90", 0)], 2)], r), sub([sub([L1("Rx90", 0)], 3)], r)])
        S([sub([L1("Ry90", 1), sub([L1("Rx90", 0)], 1)], r), sub([L1("Ry90", 2), sub([L1("Rx90", 3)], 1)], r), L1("Hadamard", 5)])
        for kw in ({}, {"circuit_id": "cid_same"}, {"as_structure": True}):
            S([L1("Rx180", 3), sub([L1("Rym90", 4), L1("Wait", 4, dur=100)], r)], before=[L1("Rx180", 1), sub([L1("Rym90", 1), L1("Wait", 1, dur=60)], r)], **kw)
            S([sub([sub([L1("Rx90", 0)], 3)], r), L1("Ry90", 1)], before=[sub([sub([L1("Rx90", 0)], 2)], r), L1("Ry90", 1)], **kw)
    for rs in ("dynamic", "registry"):
        N([{"sub": [L1("Rym90", 0)], "reps": 1, "rstrat": rs}, L1("Rx90", 0)])
        N([L1("Rx180", 0), {"sub": [wd, L1("Hadamard", 1)], "reps": 1, "rstrat": rs}])
        N([{"sub": [L1("Rym90", 0), L1("Wait", 0, dur=7, dstrat="registry")], "reps": 2, "rstrat": rs}, L1("Rx90", 2)])
        N([{"sub": [{"sub": [wd], "reps": 2, "rstrat": rs}, L1("Reset", 1)], "reps": 3, "rstrat": "dynamic"}, L1("Ry90", 1)])
        N([L1("Rx90", 2), {"sub": [L1("Rym90", 0), wd], "reps": 2, "rstrat": rs}], apply_modifiers=True)
    return out


# --------------------------------------------------------------------------------------------------
# workers
# --------------------------------------------------------------------------------------------------
def qubits_of(items):
    out = set()
    for it in items:
        out |= qubits_of(it["sub"]) if "sub" in it else set(it["q"])
    return out


def wsize(f):
    """smaller = better witness: low repetition counts, few items, few qubits, observed on the real openql, plain calling convention"""
    p = f["witness"]["program"]
    return (max_reps(p["items"]), len(json.dumps(p["items"])), len(qubits_of(p["items"])),
            f["witness"].get("recording", MODE_NAME["real"]) != MODE_NAME["real"], bool(p.get("as_structure")), p.get("circuit_id") is not None,
            json.dumps(p, sort_keys=True))  # total order -> the chosen witness does not depend on worker scheduling


def phash(program):
    return hashlib.md5(json.dumps(program, sort_keys=True).encode()).hexdigest()[:16]


_PROGRESS = None   # shared integer: index of the input under evaluation (lets the parent name the culprit of a dead / stuck worker)


def task_program(task, idx):
    """the idx-th input of the space the task belongs to, with its recording mode and names flag"""
    kind = task["kind"]
    if kind == "E":
        prog = e_decode(idx, e_alphabet(task["tier"]), task["maxlen"])
        return prog, ("real" if (len(prog["items"]) <= 2 or idx % task["real_every"] == 0) else "hybrid"), idx % task["names_every"] == 0
    if kind == "R":
        return r_program(task["seed"], idx), ("real" if idx % task["real_every"] == 0 else "hybrid"), True
    return t_space()[idx], "real", True


def run_chunk(task):
    setup_process()
    kind = task["kind"]
    if kind == "P":
        probes = []
        platform_probes(probes)
        return {"kind": "P", "probes": probes}
    if kind == "E":
        alphabet = e_alphabet(task["tier"])
        progs = (e_decode(i, alphabet, task["maxlen"]) for i in range(task["lo"], task["hi"]))
    elif kind == "R":
        progs = (r_program(task["seed"], i) for i in range(task["lo"], task["hi"]))
    else:
        progs = iter(t_space()[task["lo"]:task["hi"]])
    agg = {"kind": kind, "lo": task["lo"], "evals": collections.Counter(), "failures": {}, "skipped": collections.Counter(), "samples": [],
           "nontrivial": set(), "probe_bad": collections.Counter(), "inputs": 0, "real": 0}
    for n, prog in enumerate(progs):
        idx = task["lo"] + n
        if _PROGRESS is not None:
            _PROGRESS.value = idx
        if kind == "E":
            names = idx % task["names_every"] == 0
            primary = "real" if (len(prog["items"]) <= 2 or idx % task["real_every"] == 0) else "hybrid"
        elif kind == "R":
            names, primary = True, ("real" if idx % task["real_every"] == 0 else "hybrid")
        else:
            names, primary = True, "real"
        r = evaluate(prog, primary=primary, do_names=names)
        agg["real"] += primary == "real"
        agg["inputs"] += 1
        if r["skipped"]:
            agg["skipped"][r["skipped"]] += 1
            continue
        agg["evals"].update(r["evals"])
        for b in r["probe_bad"]:
            agg["probe_bad"][b] += 1
        if nontrivial(prog):
            agg["nontrivial"].add(phash(prog))
        for f in r["failures"]:
            old = agg["failures"].get(f["key"])
            if old is None or wsize(f) < wsize(old):
                agg["failures"][f["key"]] = f
        if r["sample"] is not None and len(agg["samples"]) < 1 and (n % 97 == 5 or kind == "T"):
            agg["samples"].append(r["sample"])
    agg["evals"] = dict(agg["evals"]); agg["skipped"] = dict(agg["skipped"]); agg["probe_bad"] = dict(agg["probe_bad"])
    return agg


# --------------------------------------------------------------------------------------------------
# cross-process determinism of names (different PYTHONHASHSEED)
# --------------------------------------------------------------------------------------------------
def names_child(path):
    setup_process()
    with open(path) as fh:
        progs = json.load(fh)
    out = []
    for i, prog in enumerate(progs):
        sys.stdout.write("C15PROGRESS %d\n" % i)
        sys.stdout.flush()
        rec, _, _ = export(build(prog), prog, "fake")
        out.append(rec.names())
    shutil.rmtree(BUILD_DIR, ignore_errors=True)
    sys.stdout.write("C15NAMES " + json.dumps(out) + "\n")


def xproc_programs(seed):
    progs = [p for p in t_space() if p["check"] == "table"][::9] + [p for p in t_space() if p["check"] == "names"]
    progs += [r_program(seed, i) for i in range(60)]
    progs += [e_decode(i, e_alphabet("thorough"), 3) for i in range(0, 6000, 121)]
    return progs


def xproc_start(seed):
    """two fresh interpreters (PYTHONHASHSEED 1 and 2) export the same build programs; started early, collected late"""
    progs = xproc_programs(seed)
    os.makedirs(BUILD_DIR, exist_ok=True)
    path = os.path.join(BUILD_DIR, "names_programs_%d.json" % os.getpid())
    with open(path, "w") as fh:
        json.dump(progs, fh)
    procs = []
    for hs in ("1", "2"):
        env = dict(os.environ, PYTHONHASHSEED=hs, C15_NAMES_CHILD=path, C15_BUILD_DIR=os.path.join(BUILD_DIR, "names_%s" % hs))
        procs.append((hs, subprocess.Popen([sys.executable, os.path.abspath(__file__)], env=env, stdout=subprocess.PIPE,
                                           stderr=subprocess.PIPE, text=True)))
    return progs, procs


def xproc_finish(started, res, timeout=60.0):
    progs, procs = started
    runs = []
    t_end = time.time() + timeout
    for hs, proc in procs:
        try:
            so, se = proc.communicate(timeout=max(1.0, t_end - time.time()))
            how = how_died(proc.returncode)
        except subprocess.TimeoutExpired:
            proc.kill()
            so, se = proc.communicate()
            how = "timeout"
        line = [ln for ln in so.splitlines() if ln.startswith("C15NAMES ")]
        if how != "exit-0" or not line:
            for _, p in procs:
                if p.poll() is None:
                    p.kill()
            at = [int(ln.split()[1]) for ln in so.splitlines() if ln.startswith("C15PROGRESS ")]
            culprit = progs[at[-1]] if at else progs[0]
            key = "C15:construct:%s:names-child-interpreter" % ("timeout" if how == "timeout" else "worker-died:%s" % how)
            res.fail(key, "a fresh interpreter (PYTHONHASHSEED=%s) exports %d build programs one after the other and terminates" % (hs, len(progs)),
                     "OpenQLCircuitFactoryManager.construct", {"program": culprit, "index": at[-1] if at else None, "programs": len(progs)},
                     "%s while exporting program %s of %d %s" % (how, at[-1] if at else "?", len(progs), se[-200:]), "exit 0",
                     {"program": culprit, "key": key, "primary": "fake"})
            return 0
        runs.append(json.loads(line[0][len("C15NAMES "):]))
    n = 0
    for prog, a, b in zip(progs, runs[0], runs[1]):
        n += 1
        if a != b:
            key = names_key("between-interpreter-runs", prog, a, b)
            res.fail(key, "same circuit -> same program and kernel names (two interpreter runs, PYTHONHASHSEED 1 / 2)",
                     "OpenQLCircuitFactoryManager.construct_uuid", {"program": prog}, b, a, {"program": prog, "key": key})
    return n


# --------------------------------------------------------------------------------------------------
# main / replay
# --------------------------------------------------------------------------------------------------
def platform_probes(out):
    """out: list to which the probe records are appended (runs inside a worker: the parent never touches openql)"""
    class _R:  # noqa
        probes = out
    res = _R
    setup_process()
    L = lib()
    try:
        with quiet_fds():
            ins = L["PlatformManager"].read_platform_config()["instructions"]
        missing = [n for n in NATIVE if n not in ins]
        res.probes.append({"assumption": "every instruction name of the oracle table except the built-in 'prepz' is a native instruction of the platform configuration the library uses: %s" % NATIVE,
                           "ok": not missing, "missing": missing})
    except Exception as exc:  # noqa
        res.probes.append({"assumption": "platform configuration readable", "ok": False, "error": repr(exc)})
    # semantics of the real openql.Program that the recording model relies on
    try:
        pl = L["PlatformManager"].openql_platform(); n = pl.get_qubit_number(); ql = L["ql"]
        p = ql.Program("c15probe_a", pl, n); k = ql.Kernel("c15probe_ka", pl, n)
        k.gate("x90", [0]); p.add_kernel(k); k.gate("y90", [0])
        sp = ql.Program("c15probe_b", pl, n); k2 = ql.Kernel("c15probe_kb", pl, n); k2.gate("x180", [1]); sp.add_kernel(k2)
        p.add_program(sp)
        k3 = ql.Kernel("c15probe_kc", pl, n); k3.gate("h", [2]); sp.add_kernel(k3)
        got = compile_and_parse(p, "c15probe_a")
        want = [["c15probe_ka", ["x90 q[0]", "y90 q[0]"]], ["c15probe_kb", ["x180 q[1]"]]]
        res.probes.append({"assumption": "real openql: add_kernel keeps a reference (later gates are executed), add_program copies the kernel list held at that moment, kernels execute in the order added",
                           "ok": got == want, "observed": got})
        try:
            p.add_program(sp)
            dup = False
        except Exception as exc:  # noqa
            dup = "duplicate kernel name" in str(exc)
        res.probes.append({"assumption": "real openql rejects a second kernel of the same name in one program ('duplicate kernel name')", "ok": dup})
    except Exception as exc:  # noqa
        res.probes.append({"assumption": "real openql platform can be instantiated offline and compiled", "ok": False, "error": repr(exc)})


# --------------------------------------------------------------------------------------------------
# robust scheduling: a dead or stuck worker never hangs the check
# --------------------------------------------------------------------------------------------------
def how_died(exitcode):
    if exitcode is None:
        return "unknown"
    if exitcode < 0:
        try:
            return signal.Signals(-exitcode).name
        except ValueError:
            return "signal-%d" % -exitcode
    return "exit-%d" % exitcode


def _worker_loop(conn, progress):
    global _PROGRESS
    _PROGRESS = progress
    try:
        setup_process()
        while True:
            try:
                task = conn.recv()
            except EOFError:
                break
            if task is None:
                break
            progress.value = -1
            try:
                out = run_chunk(task)
            except BaseException:  # noqa -- a bug of the harness, or an exception type the evaluation does not expect
                out = {"harness_error": traceback.format_exc()}
            conn.send(out)
    except BaseException:  # noqa
        traceback.print_exc()
        os._exit(3)
    os._exit(0)


class _Worker:
    def __init__(self, ctx):
        self.conn, child = ctx.Pipe()
        self.progress = ctx.RawValue("q", -1)
        self.proc = ctx.Process(target=_worker_loop, args=(child, self.progress), daemon=True)
        self.proc.start()
        child.close()
        self.task = None
        self.seen = (-2, time.time())

    def give(self, task):
        self.task = task
        self.progress.value = -1
        self.seen = (-2, time.time())
        self.conn.send(task)

    def kill(self):
        try:
            self.proc.kill()
            self.proc.join(5)
        except Exception:  # noqa
            pass
        try:
            self.conn.close()
        except Exception:  # noqa
            pass


def cpu_seconds(pid):
    """user + system CPU time of a process (Linux /proc); None if unknown"""
    try:
        with open("/proc/%d/stat" % pid) as fh:
            f = fh.read().rsplit(")", 1)[1].split()
        return (int(f[11]) + int(f[12])) / float(os.sysconf("SC_CLK_TCK"))
    except Exception:  # noqa
        return None


def run_tasks(tasks, nproc, stall_s, cpu_budget, deadline, max_deaths, on_result, on_death):
    """Every task ends in exactly one of: on_result(task, output) / on_death(task, idx, how) -> [new tasks] / returned as unfinished.
    how: signal name or exit code of a dead worker, "timeout" when one input made no progress for stall_s seconds.
    The phase ends early (-> unfinished tasks, reason) when the workers have used cpu_budget CPU seconds (so a slow machine does
    not cut the enumeration short, code under test that burns CPU does), at the wall-clock deadline, or after max_deaths deaths."""
    ctx = mp.get_context("fork")
    pending = collections.deque(tasks)
    workers = []
    used, reason, deaths = {}, None, 0
    try:
        workers = [_Worker(ctx) for _ in range(max(1, min(nproc, len(pending))))]
        while pending or any(w.task is not None for w in workers):
            now = time.time()
            for w in workers:
                c = cpu_seconds(w.proc.pid)
                if c is not None:
                    used[w.proc.pid] = c
            if now > deadline:
                reason = "wall-clock limit of the run reached"
                break
            if sum(used.values()) > cpu_budget:
                reason = "CPU budget of the run used up (%.0f CPU s)" % cpu_budget
                break
            if deaths > max_deaths:
                reason = "more than %d workers died or got stuck" % max_deaths
                break
            for w in workers:
                if w.task is None and pending:
                    w.give(pending.popleft())
            busy = [w for w in workers if w.task is not None]
            mp.connection.wait([w.conn for w in busy] + [w.proc.sentinel for w in busy], timeout=0.5)
            for i, w in enumerate(workers):
                if w.task is None:
                    continue
                out, dead = None, None
                try:
                    if w.conn.poll():
                        out = w.conn.recv()
                except (EOFError, OSError):
                    dead = "closed"
                if out is not None:
                    task, w.task = w.task, None
                    if "harness_error" in out:
                        raise RuntimeError("C15 harness error in worker:\n" + out["harness_error"])
                    on_result(task, out)
                    continue
                if dead is None and not w.proc.is_alive():
                    dead = "exited"
                if dead is None:
                    cur = w.progress.value
                    if cur != w.seen[0]:
                        w.seen = (cur, time.time())
                    elif time.time() - w.seen[1] > stall_s:
                        dead = "timeout"
                if dead is not None:
                    idx = w.progress.value
                    w.kill()
                    how = "timeout" if dead == "timeout" else how_died(w.proc.exitcode)
                    deaths += 1
                    pending.extendleft(reversed(on_death(w.task, idx, how) or []))   # re-submitted parts first: a second culprit shows up early
                    workers[i] = _Worker(ctx)
        unfinished = [w.task for w in workers if w.task is not None] + list(pending)
        return unfinished, reason
    finally:
        for w in workers:
            w.kill()


def run_child(job, timeout):
    """one job in a fresh interpreter: {"mode": "single", "program", "primary"} | {"mode": "chunk", "task"} -> (status, payload)"""
    os.makedirs(BUILD_DIR, exist_ok=True)
    path = os.path.join(BUILD_DIR, "job_%d_%d.json" % (os.getpid(), run_child.n))
    run_child.n += 1
    with open(path, "w") as fh:
        json.dump(job, fh)
    env = dict(os.environ, C15_CHILD=path, C15_BUILD_DIR=os.path.join(BUILD_DIR, "child_%d" % run_child.n))
    proc = subprocess.Popen([sys.executable, os.path.abspath(__file__)], env=env, stdout=subprocess.PIPE, stderr=subprocess.DEVNULL, text=True)
    return proc, time.time() + timeout


run_child.n = 0


def child_result(started, not_after=None):
    proc, t_end = started
    if not_after is not None:
        t_end = min(t_end, not_after)
    try:
        so, _ = proc.communicate(timeout=max(1.0, t_end - time.time()))
    except subprocess.TimeoutExpired:
        proc.kill()
        proc.communicate()
        return "timeout", None
    line = [ln for ln in so.splitlines() if ln.startswith("C15CHILD ")]
    if proc.returncode != 0 or not line:
        return how_died(proc.returncode), None
    return "ok", json.loads(line[-1][len("C15CHILD "):])


def child_main(path):
    with open(path) as fh:
        job = json.load(fh)
    if job["mode"] == "single":
        setup_process()
        r = evaluate(job["program"], primary=job.get("primary", "real") if job.get("primary") in ("real", "hybrid") else "real")
        out = {"skipped": r["skipped"], "failures": r["failures"], "sample": r["sample"]}
    else:
        agg = run_chunk(job["task"])
        out = {"failures": list(agg["failures"].values()), "inputs": agg["inputs"]}
    shutil.rmtree(BUILD_DIR, ignore_errors=True)
    sys.stdout.write("C15CHILD " + json.dumps(out, default=str) + "\n")
    sys.stdout.flush()
    os._exit(0)


DEATH_CAP = 4   # after this many dead / stuck workers the remainders of their chunks are no longer re-submitted (reported as skipped)


def main():
    if os.environ.get("C15_NAMES_CHILD"):
        names_child(os.environ["C15_NAMES_CHILD"])
        return 0
    if os.environ.get("C15_CHILD"):
        child_main(os.environ["C15_CHILD"])
        return 0
    args = common.parse_args()
    if args.replay:
        return replay(args.replay)
    res = common.Result(PROP)
    quick = args.tier != "thorough"
    tier = "quick" if quick else "thorough"
    maxlen = 3
    alphabet = e_alphabet(tier)
    n_leaf = sum("op" in a for a in alphabet)
    e_total = e_space_size(len(alphabet), maxlen)
    r_total = 6000 if quick else 100000
    names_every = 8
    e_real_every, r_real_every = (32 if quick else 48), 10
    t_total = len(t_space())
    ncpu = os.cpu_count() or 1
    nproc = min(NPROC, ncpu)
    # time bounds: fixed on a machine that is not overloaded, stretched (at most 4x) by the load found at start
    try:
        load_factor = min(4.0, max(1.0, os.getloadavg()[0] / ncpu))
    except OSError:
        load_factor = 1.0
    stall_s = (15 if quick else 30) * load_factor           # one input normally takes < 0.1 s
    base = 65 if quick else 540
    cpu_budget = base * nproc          # normal need: ~500-650 CPU s (quick), ~5700 (thorough); on idle cores this is `base` seconds of wall time
    deadline = res.t0 + 4 * base       # safety net for an overloaded machine

    tasks = [{"kind": "P", "lo": 0, "hi": 0}]
    for lo in range(0, t_total, 16):
        tasks.append({"kind": "T", "lo": lo, "hi": min(t_total, lo + 16)})
    for lo in range(0, r_total, 250):
        tasks.append({"kind": "R", "seed": args.seed, "lo": lo, "hi": min(r_total, lo + 250), "real_every": r_real_every})
    step = 400 if quick else 1500
    for lo in range(0, e_total, step):
        tasks.append({"kind": "E", "tier": tier, "maxlen": maxlen, "lo": lo, "hi": min(e_total, lo + step),
                      "names_every": names_every, "real_every": e_real_every})

    os.makedirs(BUILD_DIR, exist_ok=True)
    started = xproc_start(args.seed)
    evals = collections.Counter(); inputs = collections.Counter(); real_inputs = collections.Counter()
    nontriv = set(); probe_bad = collections.Counter()
    samples = {"T": [], "E": [], "R": []}
    deaths = []

    def merge_failure(f):
        old = res.failures.get(f["key"])
        if old is None or wsize(f) < wsize(old):
            res.failures[f["key"]] = f

    def on_result(task, agg):
        k = agg["kind"]
        if k == "P":
            res.probes.extend(agg["probes"])
            return
        inputs[k] += agg["inputs"]
        real_inputs[k] += agg["real"]
        for c, n in agg["evals"].items():
            evals[(k, c)] += n
        nontriv.update(agg["nontrivial"])
        for r, n in agg["skipped"].items():
            res.skipped[r] = res.skipped.get(r, 0) + n
        for b, n in agg["probe_bad"].items():
            probe_bad[b] += n
        for f in agg["failures"].values():
            merge_failure(f)
        samples[k].extend((agg["lo"], smp) for smp in agg["samples"])

    def on_death(task, idx, how):
        d = {"task": task, "idx": idx, "how": how, "isolated": None}
        deaths.append(d)
        if task["kind"] == "P" or idx < task["lo"]:
            return []          # died before the first input (platform set-up / probes): nothing to isolate
        prog, primary, _ = task_program(task, idx)
        d["program"], d["primary"] = prog, primary
        if len(deaths) > DEATH_CAP:
            res.skipped["worker %s; rest of its chunk not evaluated (more than %d dead/stuck workers)" % (how, DEATH_CAP)] = \
                res.skipped.get("worker %s; rest of its chunk not evaluated (more than %d dead/stuck workers)" % (how, DEATH_CAP), 0) + task["hi"] - task["lo"]
            return []
        d["isolated"] = run_child({"mode": "single", "program": prog, "primary": primary}, 20 * load_factor)
        again = []
        if idx > task["lo"]:
            again.append(dict(task, hi=idx))          # results of the inputs before the culprit were lost with the worker
        if idx + 1 < task["hi"]:
            again.append(dict(task, lo=idx + 1))
        return again

    unfinished, why = run_tasks(tasks, nproc, stall_s, cpu_budget, deadline, DEATH_CAP, on_result, on_death)
    for t in unfinished:
        reason = "not evaluated: %s" % why
        res.skipped[reason] = res.skipped.get(reason, 0) + max(1, t["hi"] - t["lo"])
    final = time.time() + 20 * load_factor     # bounded waits for the child interpreters (started long ago)

    # ---- dead / stuck workers: the culprit input alone in a fresh interpreter
    for d in deaths:
        task, idx, how = d["task"], d["idx"], d["how"]
        cls = "timeout" if how == "timeout" else "worker-died:%s" % how
        if "program" not in d:
            key = "C15:construct:%s:before-the-first-input(platform-set-up-or-probes)" % cls
            res.fail(key, "the harness process survives platform set-up and the probes of the real openql", "PlatformManager",
                     {"task": task}, how, "no death, no stall", {"task": task, "key": key})
            continue
        status, payload = child_result(d["isolated"], final) if d["isolated"] is not None else ("not-run", None)
        if status == "ok":
            where = "only-after-earlier-exports-in-the-same-process"
            for f in (payload or {}).get("failures", []):
                merge_failure(f)
        elif status == "not-run":
            where = "not-isolated"
        else:
            where = "input-alone(%s)" % status
        key = "C15:construct:%s:%s" % (cls, where)
        f = {"key": key, "clause": "the export of every build program terminates and returns or raises a Python exception (the process exporting it neither dies nor hangs)",
             "function": "OpenQLCircuitFactoryManager.construct", "observed": "worker %s while evaluating input %d of task %s; the same input alone in a fresh interpreter: %s"
             % (how, idx, json.dumps(task), status), "required": "no death, no stall",
             "witness": {"program": d["program"], "recording": MODE_NAME[d["primary"]], "task": task, "index": idx},
             "replay_args": {"program": d["program"], "key": key, "primary": d["primary"], "task": dict(task, hi=idx + 1)}}
        merge_failure(f)

    n_x = xproc_finish(started, res, max(3.0, final - time.time()))

    def ev(clause, kinds="TER"):
        return sum(n for (k, c), n in evals.items() if c == clause and k in kinds)
    res.evaluations = sum(evals.values()) + n_x
    res.distinct = nontriv
    res.exhaustive = False
    n_names_t = sum(p["check"] == "names" for p in t_space())
    n_sib_t = sum(p["check"] == "siblings" for p in t_space())
    res.rule = (
        "Build programs (JSON) are built through DeclarativeCircuit.add and exported by the unchanged to_openql / OpenQLFactoryManager().construct on the library's own "
        "(real, offline) openql platform; all calls on openql.Kernel / openql.Program objects are recorded.  Recording 'real' = wrapped methods of the real SWIG classes "
        "(%d inputs: all of T, all E programs of <= 2 items, every %dth other E program, every %dth R program; also compiled to cQASM); recording 'hybrid' = real wrapped "
        "openql.Kernel + a recording stand-in for openql.Program that applies openql's duplicate-kernel-name rule (the bulk, because the real Program.add_program costs ~7 ms); "
        "after a raise the export is repeated against plain recording stand-ins so that order and repetition are still evaluated.  All exports of one worker go through the "
        "one default factory, so every input is also a 'successive export'; an openql object constructed in an earlier export that takes part in a later one is reported.  "
        "T: %d dedicated programs (each of the 13 supported kinds x qubits {0,1,2,5,16}; CPhase on all ordered pairs of {0,1,2,16}; barriers on 1..17 qubits; waits of "
        "0..100000 on all channels, 3 fractional durations; each of the 13 unsupported kinds alone and between supported operations; %d programs whose operations / sub-circuits use "
        "DynamicDurationStrategy (fresh lambda per build), RegistryDurationStrategy, GlobalDurationStrategy, DynamicRepetitionStrategy or RegistryRepetitionStrategy, for the name "
        "clause; %d programs with same-shaped sub-circuits of different content (other qubits / wait durations / nested repetition counts) as siblings in one circuit or in two "
        "successively exported circuits).  "
        "E: ALL sequences of 1..%d items over an alphabet of %d items = %d programs, enumerated completely: %d leaf items (%s) and %d sub-circuit items "
        "(%d bodies: 1-2 leaves over %s, plus 3 bodies containing a sub-sub-circuit; x repetition counts %s).  "
        "R: %d seeded random programs (1..8 items per level, nesting depth <= 3, repetition counts 1..4, all 26 kinds, 2..5 qubits, explicit "
        "FOLLOWED_BY/JOINED_START/JOINED_END relations to earlier items, optional circuit_id, IDeclarativeCircuit or bare structure as argument, 10%% exported after "
        "apply_modifiers(), 15%% decorated with dynamic / registry / global duration strategies and dynamic / registry repetition strategies).  "
        "Non-trivial: contains a sub-circuit or at least two supported operations.  The property's space is infinite, hence exhaustive=false although E is complete.  "
        "Workers are supervised: a worker that dies or makes no progress for %.0f s is replaced, its current input is re-run alone in a fresh interpreter and reported; the pool "
        "phase ends when the workers have used %.0f CPU s (normal need about half of that), after more than %d deaths, or after %.0f s wall time (inputs not evaluated by then are "
        "listed under 'skipped')."
        % (sum(real_inputs.values()), e_real_every, r_real_every, t_total, n_names_t, n_sib_t, maxlen, len(alphabet), e_total, n_leaf,
           ", ".join("%s%s" % (a["op"], tuple(a["q"])) for a in alphabet[:n_leaf]), len(alphabet) - n_leaf,
           (len(alphabet) - n_leaf) // (2 if quick else 3), "{Rym90(0), Hadamard(1), Rx180ef(0)}" if quick else "{Rym90(0), Hadamard(1), Rx180ef(0), Reset(2)}",
           "{1,2}" if quick else "{1,2,3}", r_total, stall_s, cpu_budget, DEATH_CAP, deadline - res.t0))
    for k in "TER":
        res.samples.extend(smp for _, smp in sorted(samples[k], key=lambda x: x[0])[:3])
    res.stand_ins = [
        {"function": "OpenQLCircuitFactoryManager.construct (intrf_openql_factory.py:62-99) with the four operation factories",
         "contract": "executed gate sequence (recorded Kernel calls, kernels in Program order) == in-order image of the own BFS listing; covers the clauses 'in listing order', "
                     "'sub-circuits appear at the position where they were added', 'as many times as their repetition count', 'unsupported operations are omitted'; every "
                     "Program / Kernel of the exported program was constructed during this export (successive exports are independent)",
         "bound": "E complete (%d programs: <= 3 items, nesting depth <= 2, repetition counts <= %d) + R %d random (<= 8 items per level, depth <= 3, counts <= 4)"
                  % (e_total, 2 if quick else 3, r_total),
         "evaluations": ev("image", "ER")},
        {"function": "operation-type -> instruction table (factory_manager.py:45-61); NameBased / Barrier / Wait / CompositeCPhase factories",
         "contract": "each supported kind alone -> exactly its documented instruction on its qubits; CPhase(c,t) -> cz(c,t), barrier{c,t}, update_ph c, update_ph t; a wait keeps its "
                     "qubit and duration; each unsupported kind -> no instruction and no exception; same-shaped sub-circuits with different content (siblings / successive exports) "
                     "each yield their own image",
         "bound": "T: %d programs, qubits <= 16, durations <= 100000" % t_total, "evaluations": ev("image", "T")},
        {"function": "OpenQLCircuitFactoryManager.construct", "contract": "the export returns a program (does not raise; the exporting process neither dies nor hangs)",
         "bound": "every T, E, R input (%d of them against the real openql.Program, the others against the duplicate-name model)" % sum(real_inputs.values()),
         "evaluations": ev("raises")},
        {"function": "OpenQLCircuitFactoryManager.construct_uuid / construct (names)",
         "contract": "names of all constructed programs and kernels, in order, are equal for: the same object exported twice; the same build program rebuilt; "
                     "two interpreter runs with PYTHONHASHSEED 1 and 2; including programs with dynamic (fresh lambda per build) / registry / global "
                     "duration strategies and dynamic / registry repetition strategies",
         "bound": "every T and R input, every %dth E input; %d programs across interpreter runs" % (names_every, n_x), "evaluations": ev("names") + n_x},
        {"function": "recording model of openql.Program / Kernel (harness self-check)",
         "contract": "cQASM written by the real Program.compile() == kernel sections and instructions derived from the recorded calls (each call translated by a one-instruction "
                     "reference compilation on the real platform); outcome against the modelled Program == outcome against the real openql.Program",
         "bound": "every 'real' input (cQASM: those that did not raise)", "evaluations": ev("cqasm") + ev("hybrid")},
    ]
    res.probes.append({"assumption": "own BFS walker lists every added item exactly once at its level (multiset of kinds per level == build program)", "ok": not probe_bad,
                       "violations": dict(probe_bad)})
    res.probes.append({"assumption": "all planned inputs were evaluated (T %d, E %d, R %d)" % (t_total, e_total, r_total),
                       "ok": inputs["E"] == e_total and inputs["R"] == r_total and inputs["T"] == t_total, "inputs": dict(inputs), "real_recording": dict(real_inputs)})
    res.probes.append({"assumption": "no worker process died or got stuck", "ok": not deaths,
                       "deaths": [{"how": d["how"], "task": d["task"], "index": d["idx"]} for d in deaths]})
    shutil.rmtree(BUILD_DIR, ignore_errors=True)
    res.failures = dict(sorted(res.failures.items()))
    out = res.write(args.out)
    print("C15 bounded: %d evaluations, %d distinct non-trivial, %d failure keys, %.1fs" % (out["evaluations"], out["distinct_nontrivial"], len(out["failures"]), out["wall_s"]))
    for f in out["failures"]:
        print("  FAIL", f["key"])
    return 0


def replay(path):
    """the recorded input is re-evaluated in a fresh child interpreter (a death of the child is an observation, not a crash of the replayer)"""
    rec, ra = common.load_replay(path)
    ra = ra or {}
    key = ra.get("key") or rec.get("key")
    program = ra.get("program") or (rec.get("witness") or {}).get("program")
    if program is None and not ra.get("task"):
        print("C15 replay: no program in %s" % path)
        return 2
    found, status = [], "ok"
    if key and key.startswith("C15:names:not-deterministic:between-interpreter-runs"):
        res = common.Result(PROP)
        global xproc_programs
        xproc_programs = lambda seed: [program]  # noqa: E731
        xproc_finish(xproc_start(0), res, 120)
        found = list(res.failures.values())
    else:
        history = key and (key.startswith("C15:construct:worker-died") or key.startswith("C15:construct:timeout")) and "input-alone" not in key and ra.get("task")
        job = {"mode": "chunk", "task": ra["task"]} if history else {"mode": "single", "program": program, "primary": ra.get("primary", "real")}
        status, payload = child_result(run_child(job, 90))
        print("child interpreter (%s): %s" % ("chunk %s" % json.dumps(ra["task"]) if history else "single input", status))
        if status == "ok":
            if payload.get("skipped"):
                print("C15 replay: input could not be built:", payload["skipped"])
                shutil.rmtree(BUILD_DIR, ignore_errors=True)
                return 2
            found = payload["failures"]
            if payload.get("sample"):
                print("listing :", json.dumps(payload["sample"]["listing"]))
                print("required:", json.dumps(payload["sample"]["required_image"]))
                print("executed:", json.dumps(payload["sample"]["executed"]))
    shutil.rmtree(BUILD_DIR, ignore_errors=True)
    print("program :", json.dumps(program))
    for f in found:
        print("observed failure:", f["key"], "| observed:", json.dumps(f["observed"], default=str)[:600])
    if status != "ok":
        print("observed: the child interpreter evaluating this input ended with:", status)
        print("VIOLATION property=%s replay=%s" % (PROP, path))
        return 1
    still = [f for f in found if key is None or f["key"] == key]
    if still:
        print("VIOLATION property=%s replay=%s" % (PROP, path))
        return 1
    print("clause holds on this input (key %s not reproduced)" % key)
    return 0


if __name__ == "__main__":
    sys.exit(main())
