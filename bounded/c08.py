#!/usr/bin/env python
"""Bounded run-time stand-in for property C08 (Stim export is the in-order image of the circuit).

Real circuits are built through the public API (`DeclarativeCircuit.add`, the operation classes, the
repetition-code constructors), really exported with `qce_circuit.addon_stim.to_stim`, and the exported
program is read back instruction by instruction (REPEAT blocks expanded by an own loop - NOT with
`stim.Circuit.flattened()`, which removes SHIFT_COORDS - and fused instructions split into one
instruction per target group).

Oracles (all independent of the exporter):
  * own breadth-first walk over the pointer FIELDS of the circuit graph (`_entrypoint_node`,
    `_outgoing_pointers`, `_endpoint_node`), sub-circuits expanded in place and repeated their repetition
    count (read from the `repetitions` field of the strategy object); never `get_node_iterator`, never
    `circuit.operations` (the latter has a side effect on relation links; it is never called here - a
    flattened variant is produced by the library's own `flatten()` and then walked the same way);
  * the translation table transcribed below as data (15 entries), the record-offset formulas of the
    five detector target shapes written down from the property description, qubits read from the
    operation's own fields (`qubit_index`, `control_qubit_index`, ...), not from `channel_identifiers`;
  * the multiset of instructions computed from the JSON build program alone (every leaf times the
    product of the enclosing repetition counts) - independent of the circuit graph altogether;
  * Stim itself: `num_measurements` / `num_detectors` / `num_observables` of the exported program against
    own counts, named-gate tableaus against closed-form rotations (probe for the table).

The exporter never reads a start time; `common.clear_caches()` is still called before every case.

See bounded/README.md for the command line and the output format.
"""
import os
import sys

os.environ.setdefault("MPLBACKEND", "Agg")
os.environ.setdefault("TQDM_DISABLE", "1")

import collections
import contextlib
import hashlib
import io
import itertools
import json
import multiprocessing as mp
import random
import time
import traceback
import warnings

sys.path.insert(0, os.path.dirname(os.path.dirname(os.path.abspath(__file__))))
warnings.filterwarnings("ignore")
from bounded import common  # noqa: E402

PROP = "C08"

# ------------------------------------------------------------------------------------------------
# The documented translation, transcribed as DATA (operation class name -> Stim gate name)
# ------------------------------------------------------------------------------------------------
TABLE = {
    "Reset": "R", "Barrier": "TICK", "Hadamard": "H", "Identity": "I", "CPhase": "CZ", "DispersiveMeasure": "M",
    "Rx180": "X", "Rx90": "SQRT_X", "Rxm90": "SQRT_X_DAG", "Ry180": "Y", "Ry90": "SQRT_Y", "Rym90": "SQRT_Y_DAG",
    "DetectorOperation": "DETECTOR", "LogicalObservableOperation": "OBSERVABLE_INCLUDE",
    "CoordinateShiftOperation": "SHIFT_COORDS",
}
ONE_Q_GATES = {"R", "H", "I", "M", "X", "Y", "SQRT_X", "SQRT_X_DAG", "SQRT_Y", "SQRT_Y_DAG"}
TWO_Q_GATES = {"CZ"}
REC_GATES = {"DETECTOR", "OBSERVABLE_INCLUDE"}
BARE_GATES = {"TICK", "SHIFT_COORDS"}

# operation kinds (class names), by constructor shape
SQ_GLOBAL = ["Reset", "Identity", "Hadamard", "Rx180", "Rx90", "Rxm90", "Ry180", "Ry90", "Rym90",
             "Rx180ef", "VirtualPhase", "Rphi90", "VirtualPark"]
SQ_FIXED = ["Wait", "SingleQubitOperation", "VirtualVacant", "VirtualEmpty"]
TQ_GLOBAL = ["CPhase", "TwoQubitVirtualPhase"]
TQ_FIXED = ["TwoQubitOperation", "VirtualTwoQubitVacant"]
ANNOT = ["DetectorOperation", "LogicalObservableOperation", "CoordinateShiftOperation"]
ALL_KINDS = SQ_GLOBAL + SQ_FIXED + TQ_GLOBAL + TQ_FIXED + ["DispersiveMeasure", "Barrier"] + ANNOT
UNSUPPORTED = [k for k in ALL_KINDS if k not in TABLE]

CH = {"ALL": "ALL", "MW": "MICROWAVE", "FL": "FLUX", "RO": "READOUT"}
RELT = {"F": "FOLLOWED_BY", "S": "JOINED_START", "E": "JOINED_END"}
GLOBALS = {
    "A": {"READOUT": 5.0, "MICROWAVE": 3.0, "FLUX": 4.0, "RESET": 7.0},
    "B": {"READOUT": 1.0, "MICROWAVE": 0.5, "FLUX": 0.25, "RESET": 1.5},
}

# Surface-17 repetition chains (inputs for the library constructors)
CHAIN17 = ["D1", "X1", "D2", "X2", "D3", "Z2", "D6", "Z4", "D5", "Z1", "D4", "Z3", "D7", "X3", "D8", "X4", "D9"]
CHAIN9 = ["D3", "Z2", "D6", "Z4", "D5", "Z1", "D4", "X3", "D7"]
LAYOUTS = {"Repetition9Code": CHAIN17, "Repetition9Round6Code": CHAIN17, "Repetition5Round4Code": CHAIN9}


# ------------------------------------------------------------------------------------------------
# Library access
# ------------------------------------------------------------------------------------------------
class _L:
    ready = False


def L():
    if _L.ready:
        return _L
    import stim
    from qce_circuit.language.declarative_circuit import DeclarativeCircuit
    from qce_circuit.structure import circuit_operations as co
    from qce_circuit.structure import registry_duration as rd
    from qce_circuit.structure.intrf_circuit_operation import RelationLink, RelationType, QubitChannel
    from qce_circuit.structure.registry_repetition import FixedRepetitionStrategy
    from qce_circuit.addon_stim import circuit_operations as so
    from qce_circuit.addon_stim import to_stim, StimFactoryManager
    _L.stim, _L.DeclarativeCircuit, _L.co, _L.rd, _L.so = stim, DeclarativeCircuit, co, rd, so
    _L.RelationLink, _L.RelationType, _L.QubitChannel = RelationLink, RelationType, QubitChannel
    _L.FixedRepetitionStrategy, _L.to_stim, _L.StimFactoryManager = FixedRepetitionStrategy, to_stim, StimFactoryManager
    warnings.filterwarnings("ignore")
    _L.ready = True
    return _L


@contextlib.contextmanager
def quiet():
    buf_o, buf_e = io.StringIO(), io.StringIO()
    with warnings.catch_warnings():
        warnings.simplefilter("ignore")
        with contextlib.redirect_stdout(buf_o), contextlib.redirect_stderr(buf_e):
            yield


@contextlib.contextmanager
def global_setting(gname):
    if not gname:
        yield
        return
    lib = L()
    table = {getattr(lib.rd.GlobalRegistryKey, k): v for k, v in GLOBALS[gname].items()}
    with lib.rd.temporary_override_get_registry_at(table):
        common.clear_caches()
        try:
            yield
        finally:
            common.clear_caches()


# ------------------------------------------------------------------------------------------------
# The documented record offsets of the annotations (own formulas, used for real objects and for JSON items)
# ------------------------------------------------------------------------------------------------
def det_shape(main, sec, ref, soff):
    if main is None:
        return "none"
    s = "main"
    if sec is not None:
        s += "+sec"
    if ref is not None:
        s += "+ref"
        if sec is not None and soff is not None:
            s += "+soff"
    return s


def det_offsets(last, main, sec, ref, soff):
    """rec[..] look-backs of a detector: targets are given as circuit-level measurement indices, `last` is the
    index of the latest measurement before the annotation, so index i is look-back i - (last + 1).
      main                    -> [m]
      main + ref              -> [m, m - ref]             (same qubit, `ref` measurements earlier)
      main + sec              -> [m, s]
      main + sec + ref        -> [m, s, -ref]
      main + sec + ref + soff -> [m, s, -ref, -ref - soff]
      no main target          -> []"""
    if main is None:
        return []
    m = main - (last + 1)
    if sec is None:
        return [m] if ref is None else [m, m - ref]
    s = sec - (last + 1)
    if ref is None:
        return [m, s]
    if soff is None:
        return [m, s, -ref]
    return [m, s, -ref, -ref - soff]


def obs_offsets(last, main):
    if last is None or main is None:
        return []
    return [main - (last + 1)]


def instr_of_fields(kind, f):
    """(name, args, targets) of a supported kind from plain field values; None for unsupported kinds"""
    if kind not in TABLE:
        return None
    name = TABLE[kind]
    if kind == "Barrier":
        return (name, (), ())
    if kind == "CPhase":
        return (name, (), (f["q0"], f["q1"]))
    if kind == "DetectorOperation":
        targets = tuple(det_offsets(f["last"], f["main"], f["sec"], f["ref"], f["soff"]))
        # the coordinates of a target-less detector are not prescribed by the statement: compared without them
        return (name, (float(f["q0"]), 0.0) if targets else (), targets)
    if kind == "LogicalObservableOperation":
        return (name, (0.0,), tuple(obs_offsets(f["last"], f["main"])))
    if kind == "CoordinateShiftOperation":
        return (name, (float(f["s"]), float(f["t"])), ())
    return (name, (), (f["q0"],))


def fields_of_op(op):
    """plain field values of a REAL operation (own fields only; never channel_identifiers)"""
    k = type(op).__name__
    f = {}
    if k in ("CPhase", "TwoQubitVirtualPhase", "TwoQubitOperation", "VirtualTwoQubitVacant"):
        f["q0"], f["q1"] = op.control_qubit_index, op.target_qubit_index
    elif k in ("Barrier", "CoordinateShiftOperation"):
        f["qs"] = list(op.qubit_indices)
        if k == "CoordinateShiftOperation":
            f["s"], f["t"] = op.space_shift, op.time_shift
    else:
        f["q0"] = op.qubit_index
        if k == "DetectorOperation":
            f.update(last=op.last_acquisition_index, main=op.main_target, sec=op.secondary_target,
                     ref=op.reference_offset, soff=op.secondary_offset)
        elif k == "LogicalObservableOperation":
            f.update(last=op.last_acquisition_index, main=op.main_target)
    return f


def fields_of_item(it):
    k, q = it["k"], it.get("q", [])
    f = {}
    if k in TQ_GLOBAL or k in TQ_FIXED:
        f["q0"], f["q1"] = q[0], q[1]
    elif k in ("Barrier", "CoordinateShiftOperation"):
        f["qs"] = list(q)
        if k == "CoordinateShiftOperation":
            f["s"], f["t"] = it.get("s", 0), it.get("t", 0)
    else:
        f["q0"] = q[0]
        if k == "DetectorOperation":
            f.update(last=it.get("last"), main=it.get("main"), sec=it.get("sec"), ref=it.get("ref"), soff=it.get("soff"))
        elif k == "LogicalObservableOperation":
            f.update(last=it.get("last"), main=it.get("main"))
    return f


def item_is_valid(it):
    """the documented look-backs of an annotation must be look-backs (negative), otherwise Stim has no such target"""
    if it["k"] in ("DetectorOperation", "LogicalObservableOperation"):
        if it["k"] == "DetectorOperation" and it.get("main") is not None and it.get("last") is None:
            return False
        ins = instr_of_fields(it["k"], fields_of_item(it))
        return all(-16777215 <= t <= -1 for t in ins[2])
    return True


# ------------------------------------------------------------------------------------------------
# Building circuits from JSON programs (public API only)
# ------------------------------------------------------------------------------------------------
def _make_op(lib, it, rel, acq):
    k, q = it["k"], it.get("q", [])
    co, rd, so = lib.co, lib.rd, lib.so
    kw = {}
    if rel is not None:
        kw["relation"] = rel
    if k in SQ_GLOBAL:
        return getattr(co, k)(q[0], **kw)
    if k in SQ_FIXED:
        kw["duration_strategy"] = rd.FixedDurationStrategy(duration=float(it.get("d", 0.0)))
        if k != "SingleQubitOperation":
            kw["qubit_channel"] = getattr(lib.QubitChannel, CH[it.get("ch", "ALL")])
        return getattr(co, k)(q[0], **kw)
    if k in TQ_GLOBAL:
        return getattr(co, k)(q[0], q[1], **kw)
    if k in TQ_FIXED:
        kw["duration_strategy"] = rd.FixedDurationStrategy(duration=float(it.get("d", 0.0)))
        return getattr(co, k)(q[0], q[1], **kw)
    if k == "DispersiveMeasure":
        return co.DispersiveMeasure(q[0], acquisition_strategy=acq, **kw)
    if k == "Barrier" or k == "CoordinateShiftOperation":
        if k == "Barrier":
            op = co.Barrier(list(q))
        else:
            op = so.CoordinateShiftOperation(qubit_indices=list(q), time_shift=it.get("t", 0), space_shift=it.get("s", 0))
        if rel is not None:
            op.relation_link = rel
        return op
    if k == "DetectorOperation":
        return so.DetectorOperation(qubit_index=q[0], last_acquisition_index=it.get("last"), main_target=it.get("main"),
                                    secondary_target=it.get("sec"), reference_offset=it.get("ref"),
                                    secondary_offset=it.get("soff"), **kw)
    if k == "LogicalObservableOperation":
        return so.LogicalObservableOperation(qubit_index=q[0], last_acquisition_index=it.get("last"),
                                             main_target=it.get("main"), **kw)
    raise ValueError("unknown kind %s" % k)


def _build_items(lib, circ, items, acq):
    added = []
    for it in items:
        rel = None
        if it.get("rel"):
            idx, t = it["rel"]
            rel = lib.RelationLink(added[idx], getattr(lib.RelationType, RELT[t]))
        if it["k"] == "sub":
            kw = {"repetition_strategy": lib.FixedRepetitionStrategy(int(it.get("reps", 1)))}
            if rel is not None:
                kw["relation"] = rel
            sub = lib.DeclarativeCircuit(**kw)
            _build_items(lib, sub, it["items"], acq)
            added.append(circ.add(sub))
        else:
            added.append(circ.add(_make_op(lib, it, rel, acq)))
    return added


def involved_names(spec):
    if spec["kind"] in ("chain", "default"):
        return ["D%d" % i for i in range(spec["length"])]
    names = LAYOUTS[spec["layout"]][spec["start"]:spec["stop"]]
    return list(reversed(names)) if spec.get("reverse") else list(names)


def build_description(spec):
    from qce_circuit.connectivity import QubitIDObj
    from qce_circuit.library.repetition_code.circuit_components import RepetitionCodeDescription
    from qce_circuit.library.repetition_code import repetition_code_connectivity as rcc
    kind = spec["kind"]
    if kind == "default":
        return None
    if kind == "chain":
        return RepetitionCodeDescription.from_chain(length=spec["length"], qubit_refocusing=spec["refocus"])
    if kind == "layout":
        return RepetitionCodeDescription.from_connectivity(
            involved_qubit_ids=[QubitIDObj(n) for n in involved_names(spec)],
            connectivity=getattr(rcc, spec["layout"])(), qubit_refocusing=spec["refocus"])
    raise ValueError(kind)


def build_state(data, anc):
    from qce_circuit.language import InitialStateContainer, InitialStateEnum
    e = {0: InitialStateEnum.ZERO, 1: InitialStateEnum.ONE, "+": InitialStateEnum.PLUS, "-": InitialStateEnum.MINUS,
         "+i": InitialStateEnum.PLUS_I, "-i": InitialStateEnum.MINUS_I}
    if data is None:
        return InitialStateContainer.empty()
    return InitialStateContainer.from_ordered_list([e[b] for b in data], None if anc is None else [e[b] for b in anc])


def build(program):
    """REAL circuit of a program, as built (no modifier applied)"""
    lib = L()
    if "lib" in program:
        from qce_circuit.library.repetition_code import circuit_constructors as cc
        desc = build_description(program["desc"])
        state = build_state(program.get("data"), program.get("anc"))
        kw = {} if desc is None else {"description": desc}
        if program["lib"] == "full":
            return cc.construct_repetition_code_circuit(qec_cycles=int(program["cycles"]), initial_state=state, **kw)
        if program["lib"] == "simplified":
            return cc.construct_repetition_code_circuit_simplified(qec_cycles=int(program["cycles"]), initial_state=state, **kw)
        if program["lib"] == "multi":
            return cc.construct_repetition_code_multi_round_circuit(qec_cycles=list(program["rounds"]), description=desc,
                                                                    initial_state=state)
        raise ValueError(program["lib"])
    circ = lib.DeclarativeCircuit()
    _build_items(lib, circ, program["items"], circ.get_acquisition_strategy())
    return circ


# ------------------------------------------------------------------------------------------------
# Reading an exported Stim program: own REPEAT expansion, own splitting of fused instructions
# ------------------------------------------------------------------------------------------------
def expand(stim_circuit):
    lib = L()
    for inst in stim_circuit:
        if isinstance(inst, lib.stim.CircuitRepeatBlock):
            body = list(expand(inst.body_copy()))
            for _ in range(inst.repeat_count):
                for x in body:
                    yield x
        else:
            yield inst


def split(stim_circuit):
    """list of (name, args, targets): one entry per target group"""
    out = []
    for inst in expand(stim_circuit):
        name = inst.name
        args = tuple(float(a) for a in inst.gate_args_copy())
        targets = inst.targets_copy()
        if name in ONE_Q_GATES or name in TWO_Q_GATES:
            if not all(t.is_qubit_target and not t.is_inverted_result_target for t in targets):
                out.append((name, args, ("?",) + tuple(str(t) for t in targets)))
                continue
            vals = [t.value for t in targets]
            step = 1 if name in ONE_Q_GATES else 2
            if len(vals) % step:
                out.append((name, args, ("?",) + tuple(vals)))
                continue
            for i in range(0, len(vals), step):
                out.append((name, args, tuple(vals[i:i + step])))
        elif name in REC_GATES:
            if not all(t.is_measurement_record_target for t in targets):
                out.append((name, args, ("?",) + tuple(str(t) for t in targets)))
            else:
                if name == "DETECTOR" and not targets:
                    args = ()    # see instr_of_fields: coordinates of a target-less detector are not compared
                out.append((name, args, tuple(t.value for t in targets)))
        elif name in BARE_GATES and not targets:
            out.append((name, args, ()))
        else:
            out.append((name, args, ("?",) + tuple(str(t) for t in targets)))
    return out


def detector_coordinates(instrs):
    """effective coordinates of every DETECTOR (own accumulation of SHIFT_COORDS), in order"""
    shift, out = [0.0, 0.0], []
    for name, args, targets in instrs:
        if name == "SHIFT_COORDS":
            for i, a in enumerate(args[:2]):
                shift[i] += a
        elif name == "DETECTOR":
            out.append(tuple(a + (shift[i] if i < 2 else 0.0) for i, a in enumerate(args)))
    return out


def moved_annotations(instrs_a, instrs_b):
    """do the annotations, identified by (instruction, occurrence), point at the same measurements, identified by
    (qubit, occurrence on that qubit)?  (informational for generated programs)"""
    def ident(instrs):
        per_q, ms, out = collections.Counter(), [], collections.Counter()
        for name, args, targets in instrs:
            if name == "M":
                ms.append((targets[0], per_q[targets[0]]))
                per_q[targets[0]] += 1
            elif name in REC_GATES:
                pts = tuple(ms[len(ms) + t] if (isinstance(t, int) and len(ms) + t >= 0) else None for t in targets)
                out[(name, args, targets, pts)] += 1
        return out
    return ident(instrs_a) != ident(instrs_b)


def resolve_annotations(instrs):
    """absolute measurement indices every DETECTOR / OBSERVABLE_INCLUDE points at (None = before the first measurement)"""
    n, out = 0, []
    for name, args, targets in instrs:
        if name == "M":
            n += 1
        elif name in REC_GATES:
            out.append((name, args, tuple((n + t) if (isinstance(t, int) and n + t >= 0) else None for t in targets)))
    return n, out


# ------------------------------------------------------------------------------------------------
# The oracle: own walk over the pointer fields
# ------------------------------------------------------------------------------------------------
def is_composite(op):
    return hasattr(op, "_circuit_graph")


def listing_nodes(comp):
    """operation nodes in listing order: breadth-first over `_outgoing_pointers` from the entry node"""
    graph = comp._circuit_graph
    root, end = graph._entrypoint_node, graph._endpoint_node
    layer, seen, out = [root], {id(root)}, []
    while layer:
        nxt = []
        for n in layer:
            for m in n._outgoing_pointers:
                if m is end or id(m) in seen:
                    continue
                seen.add(id(m))
                nxt.append(m)
        out.extend(nxt)
        layer = nxt
    return [n for n in out if hasattr(n, "operation")]


def reps_of(comp):
    strat = comp.repetition_strategy
    if hasattr(strat, "repetitions"):
        return int(strat.repetitions)
    return int(comp.nr_of_repetitions)


def walk(comp, feat=None, depth=0):
    """expected list of ((name, args, targets), kind, shape) - the in-order image of the listing"""
    out = []
    for node in listing_nodes(comp):
        op = node.operation
        if is_composite(op):
            r = reps_of(op)
            inner = walk(op, feat, depth + 1)
            if feat is not None:
                feat["sub"] = True
                feat["depth"] = max(feat.get("depth", 0), depth + 1)
                if r != 1:
                    feat["rep"] = True
                if r == 0:
                    feat["zero"] = True
                if not inner:
                    feat["empty"] = True
            out.extend(inner * max(r, 0))
            continue
        kind = type(op).__name__
        ins = instr_of_fields(kind, fields_of_op(op))
        if ins is None:
            if feat is not None:
                feat["unsupported"] = True
            continue
        shape = None
        if kind == "DetectorOperation":
            shape = det_shape(op.main_target, op.secondary_target, op.reference_offset, op.secondary_offset)
        elif kind == "LogicalObservableOperation":
            shape = "main" if (op.last_acquisition_index is not None and op.main_target is not None) else "none"
        out.append((ins, kind, shape))
    return out


def structure_of(circuit):
    return circuit.circuit_structure if hasattr(circuit, "circuit_structure") else circuit


def feat_name(feat):
    if feat.get("zero"):
        return "zero-repetitions"
    if feat.get("rep") and feat.get("depth", 0) >= 2:
        return "nested-repeated-sub"
    if feat.get("rep"):
        return "repeated-sub"
    if feat.get("sub"):
        return "sub"
    return "flat"


def program_multiset(program):
    """multiset of instructions from the JSON program alone: leaf x product of enclosing repetition counts"""
    cnt = collections.Counter()

    def rec(items, mult):
        for it in items:
            if it["k"] == "sub":
                rec(it["items"], mult * int(it.get("reps", 1)))
            else:
                ins = instr_of_fields(it["k"], fields_of_item(it))
                if ins is not None and mult > 0:
                    cnt[ins] += mult
    rec(program["items"], 1)
    return cnt


def program_stats(program):
    st = {"ops": 0, "sup": 0, "rel": 0, "sub": 0, "rep": 0, "ann": 0, "depth": 0}
    if "lib" in program:
        st.update(ops=10, sup=10, rel=1, sub=1, ann=1, rep=1)
        return st

    def rec(items, depth):
        st["depth"] = max(st["depth"], depth)
        for it in items:
            if it.get("rel"):
                st["rel"] += 1
            if it["k"] == "sub":
                st["sub"] += 1
                if int(it.get("reps", 1)) != 1:
                    st["rep"] += 1
                rec(it["items"], depth + 1)
            else:
                st["ops"] += 1
                if it["k"] in TABLE:
                    st["sup"] += 1
                if it["k"] in ANNOT:
                    st["ann"] += 1
    rec(program["items"], 0)
    return st


def nontrivial(program):
    """at least one supported operation and at least one of: relation, nesting, annotation"""
    st = program_stats(program)
    return st["sup"] >= 1 and (st["rel"] + st["sub"] + st["ann"]) >= 1


# ------------------------------------------------------------------------------------------------
# Comparison and witness classes
# ------------------------------------------------------------------------------------------------
def fmt(ins):
    name, args, targets = ins
    a = "(%s)" % ", ".join("%g" % x for x in args) if args else ""
    if name in REC_GATES:
        t = " ".join("rec[%s]" % x for x in targets)
    else:
        t = " ".join(str(x) for x in targets)
    return ("%s%s %s" % (name, a, t)).strip()


def classify(exp, got, feat):
    """None if equal, else (key suffix, observed, required)"""
    exp_i = [e[0] for e in exp]
    if exp_i == got:
        return None
    fn = feat_name(feat)
    ce, cg = collections.Counter(exp_i), collections.Counter(got)
    i = 0
    while i < min(len(exp_i), len(got)) and exp_i[i] == got[i]:
        i += 1
    obs = {"index": i, "got": [fmt(x) for x in got[max(0, i - 1):i + 3]], "n_got": len(got)}
    req = {"index": i, "expected": [fmt(x) for x in exp_i[max(0, i - 1):i + 3]], "n_expected": len(exp_i)}
    diffs = []
    if len(exp_i) == len(got):
        # position-wise: the same number of instructions, some differ
        diffs = [(e, g) for e, g in zip(exp, got) if e[0] != g]
        (ins, kind, shape), g = diffs[0]
        if all(e[0][0] != gg[0] and e[0][1:] == gg[1:] for e, gg in diffs) and \
                len(set((e[1], gg[0]) for e, gg in diffs if e[1] == kind)) == 1:
            # only gate names differ, and one operation kind always comes out as the same other gate
            return ("table:%s-exported-as-%s" % (kind, g[0]), obs, req)
    if ce == cg:
        return ("in-order:order:%s" % fn, obs, req)
    if diffs:
        if all(e[0][0] == gg[0] for e, gg in diffs):
            if ins[2] != g[2]:
                if kind == "DetectorOperation":
                    return ("detector:%s:targets" % shape, obs, req)
                if kind == "LogicalObservableOperation":
                    return ("observable:%s:targets" % shape, obs, req)
                if sorted(map(str, ins[2])) == sorted(map(str, g[2])):
                    return ("translate:%s:qubit-order" % kind, obs, req)
                return ("translate:%s:qubits" % kind, obs, req)
            return ("translate:%s:args" % kind, obs, req)
        return ("in-order:content:%s" % fn, obs, req)
    missing, extra = ce - cg, cg - ce
    obs["extra"] = {fmt(k): v for k, v in list(extra.items())[:6]}
    req["missing"] = {fmt(k): v for k, v in list(missing.items())[:6]}
    if missing and not extra:
        kinds_missing = set(e[1] for e in exp if e[0] in missing)
        if len(kinds_missing) == 1:
            k = next(iter(kinds_missing))
            if all(cg[e[0]] == 0 for e in exp if e[1] == k):
                return ("table:%s-not-exported" % k, obs, req)
        return ("in-order:too-few:%s" % fn, obs, req)
    if extra and not missing:
        return ("in-order:too-many:%s" % fn, obs, req)
    return ("in-order:content:%s" % fn, obs, req)


# ------------------------------------------------------------------------------------------------
# One case
# ------------------------------------------------------------------------------------------------
class CaseResult:
    def __init__(self, case):
        self.case = case
        self.per = collections.Counter()
        self.fails = []
        self.skipped = None
        self.info = collections.Counter()
        self.sample = None
        self.moved = False
        self.base_keys = set()

    def fail(self, key, clause, function, observed, required, variant=None):
        full = "%s:%s" % (PROP, key)
        if any(f["key"] == full for f in self.fails):
            return
        w = dict(self.case)
        if variant:
            w["variant"] = variant
        self.fails.append({"key": full, "clause": clause, "function": function, "witness": w, "observed": observed,
                           "required": required, "replay_args": {"case": self.case}})

    def as_dict(self):
        return {"case": self.case, "per": dict(self.per), "fails": self.fails, "skipped": self.skipped,
                "info": dict(self.info), "sample": self.sample, "moved": self.moved}


CL_ORDER = ("the exported program, REPEAT blocks expanded and fused instructions split, is the operation listing translated "
            "instruction by instruction (documented gate on exactly the operation's qubits, sub-circuits in place x repetition "
            "count, unsupported operations omitted, nothing added)")
CL_PROGRAM = ("multiset of exported instructions == multiset computed from the build program alone (every supported leaf x "
              "product of the enclosing repetition counts)")
CL_UNROLL = "export before and after apply_modifiers(): same multiset of instructions and same number of measurements"
CL_IDENT = ("library-built circuit: export before and after apply_modifiers() is the identical program (after expanding REPEAT), "
            "every DETECTOR / OBSERVABLE_INCLUDE resolves to the same, existing measurements")
CL_STIM = "Stim's own num_measurements / num_detectors / num_observables of the exported program == own counts"
CL_GLOBAL = "the export does not depend on the global duration settings"
CL_COMPOSITE = "exporting the circuit structure (composite) directly gives the same program as exporting the circuit"


def export(circuit):
    lib = L()
    common.clear_caches()
    with quiet():
        sc = lib.to_stim(circuit)
    return sc


def check_in_order(res, circuit, sc, variant, standin):
    feat = {}
    exp = walk(structure_of(circuit), feat)
    got = split(sc)
    res.per[standin] += 1
    c = classify(exp, got, feat)
    if c is not None and not (variant != "as-built" and c[0] in res.base_keys):
        key, obs, req = c
        if variant == "as-built":
            res.base_keys.add(key)
        else:
            key += "@" + variant    # holds for the circuit as built, fails for the variant
        res.fail(key, CL_ORDER + " [circuit %s]" % variant, "StimCircuitFactoryManager.construct / to_stim", obs, req, variant)
    # Stim's own counters
    res.per["stim-counters"] += 1
    own = (sum(1 for g in got if g[0] == "M"), sum(1 for g in got if g[0] == "DETECTOR"),
           sum(1 for g in got if g[0] == "OBSERVABLE_INCLUDE"))
    theirs = (sc.num_measurements, sc.num_detectors, sc.num_observables)
    if theirs[:2] != own[:2] or theirs[2] != (1 if own[2] else 0):
        res.fail("stim-counters", CL_STIM, "to_stim", {"stim": list(theirs)},
                 {"own (measurements, detectors, observable instructions)": list(own)}, variant)
    return exp, got, feat


def run_case(case):
    """case = {"program": ..., "globals": None|"A"|"B", "flatten": bool, "direct": bool}"""
    res = CaseResult(case)
    program = case["program"]
    is_lib = "lib" in program
    lib = L()
    common.clear_caches()
    try:
        with quiet():
            circuit = build(program)
    except Exception as exc:
        res.skipped = "build-exception:%s" % type(exc).__name__
        res.info["trace:" + traceback.format_exc()[-600:]] += 1
        return res
    with global_setting(case.get("globals")):
        # ---- as built ---------------------------------------------------------------------
        try:
            sc_a = export(circuit)
        except Exception as exc:
            res.per["in-order:as-built"] += 1
            exp = walk(structure_of(circuit), {})
            if any(e[1] == "LogicalObservableOperation" and e[2] == "none" for e in exp):
                res.fail("observable:none:export-exception", "an observable annotation without target is exported as "
                         "OBSERVABLE_INCLUDE without record targets (or omitted); the export does not crash",
                         "LogicalObservableOperation.to_stim_instruction", repr(exc)[:300], [fmt(e[0]) for e in exp[:8]], "as-built")
            else:
                res.fail("export:exception:%s" % type(exc).__name__, "the circuit can be exported", "to_stim", repr(exc)[:300],
                         [fmt(e[0]) for e in exp[:8]], "as-built")
            return res
        exp_a, got_a, feat = check_in_order(res, circuit, sc_a, "as-built", "in-order:as-built")
        if not is_lib:
            res.per["program-multiset"] += 1
            pm = program_multiset(program)
            ga = collections.Counter(got_a)
            if pm != ga and not res.base_keys:
                # (if the in-order clause already failed on this circuit, the deviation is reported under that key)
                res.fail("program-multiset:%s" % feat_name(feat), CL_PROGRAM, "StimCircuitFactoryManager.construct",
                         {"extra": {fmt(k): v for k, v in list((ga - pm).items())[:6]}},
                         {"missing": {fmt(k): v for k, v in list((pm - ga).items())[:6]}}, "as-built")
        if case.get("direct"):
            res.per["composite-direct"] += 1
            try:
                with quiet():
                    sc_d = lib.StimFactoryManager().construct(circuit.circuit_structure)
                if split(sc_d) != got_a:
                    res.fail("composite-direct", CL_COMPOSITE, "StimFactoryManager.construct", [fmt(x) for x in split(sc_d)[:8]],
                             [fmt(x) for x in got_a[:8]], "as-built")
            except Exception as exc:
                res.fail("composite-direct:exception:%s" % type(exc).__name__, CL_COMPOSITE, "StimFactoryManager.construct",
                         repr(exc)[:300], "a Stim circuit", "as-built")
        if case.get("globals"):
            # same export under the file's durations (metamorphic; build a second, fresh circuit outside the override)
            res.per["global-durations"] += 1
        # ---- unrolled ---------------------------------------------------------------------
        try:
            common.clear_caches()
            with quiet():
                circuit_b = circuit.apply_modifiers()
            sc_b = export(circuit_b)
        except Exception as exc:
            res.per["unroll"] += 1
            res.fail("unroll:exception:%s:%s" % (type(exc).__name__, feat_name(feat)),
                     "the circuit can be unrolled and exported", "apply_modifiers / to_stim", repr(exc)[:300],
                     "a Stim circuit", "unrolled")
            return res
        exp_b, got_b, feat_b = check_in_order(res, circuit_b, sc_b, "unrolled", "in-order:unrolled")
        res.per["unroll"] += 1
        ca, cb = collections.Counter(got_a), collections.Counter(got_b)
        n_a = sum(1 for g in got_a if g[0] == "M")
        n_b = sum(1 for g in got_b if g[0] == "M")
        if ca != cb or n_a != n_b:
            names = sorted(set(k[0] for k in (ca - cb)) | set(k[0] for k in (cb - ca)))
            fn = feat_name(feat)
            suffix = "" if (fn == "zero-repetitions" or len(names) > 2) else ":" + "+".join(names)
            res.fail("unroll:multiset:%s%s" % (fn, suffix), CL_UNROLL, "to_stim o apply_modifiers",
                     {"only_after": {fmt(k): v for k, v in list((cb - ca).items())[:6]}, "measurements_after": n_b},
                     {"only_before": {fmt(k): v for k, v in list((ca - cb).items())[:6]}, "measurements_before": n_a},
                     "unrolled")
        if got_a != got_b:
            res.info["order-changed-by-unrolling"] += 1
            if not is_lib and ca == cb and moved_annotations(got_a, got_b):
                res.info["annotation-points-elsewhere-after-unrolling"] += 1
                res.moved = True
        if is_lib:
            res.per["library-identity"] += 1
            if got_a != got_b:
                i = 0
                while i < min(len(got_a), len(got_b)) and got_a[i] == got_b[i]:
                    i += 1
                def without(seq, name):
                    return [x for x in seq if x[0] != name]
                if feat.get("zero"):
                    cls = "zero-repetitions"
                elif ca != cb:
                    cls = "different-multiset"
                elif without(got_a, "SHIFT_COORDS") == without(got_b, "SHIFT_COORDS"):
                    cls = "only-coordinate-shift-moved"
                elif without(got_a, "TICK") == without(got_b, "TICK"):
                    cls = "only-tick-moved"
                elif without(without(got_a, "TICK"), "SHIFT_COORDS") == without(without(got_b, "TICK"), "SHIFT_COORDS"):
                    cls = "only-tick-and-coordinate-shift-moved"
                else:
                    cls = "instructions-reordered"
                res.fail("library-identity:%s:%s" % (program["lib"], cls), CL_IDENT, "to_stim o apply_modifiers",
                         {"index": i, "after": [fmt(x) for x in got_b[max(0, i - 2):i + 4]],
                          "detector_coordinates_equal": detector_coordinates(got_a) == detector_coordinates(got_b)},
                         {"index": i, "before": [fmt(x) for x in got_a[max(0, i - 2):i + 4]]}, "unrolled")
            na, ra = resolve_annotations(got_a)
            nb, rb = resolve_annotations(got_b)
            res.per["library-annotations"] += 1
            if ra != rb:
                res.fail("library-annotations:moved:%s" % program["lib"], CL_IDENT, "to_stim o apply_modifiers",
                         [x for x, y in zip(rb, ra) if x != y][:3], [y for x, y in zip(rb, ra) if x != y][:3], "unrolled")
            if any(t is None for (_, _, ts) in ra for t in ts):
                res.fail("library-annotations:before-first-measurement:%s" % program["lib"], CL_IDENT, "to_stim",
                         [x for x in ra if None in x[2]][:3], "every look-back within the measurement record", "as-built")
        # ---- unrolled + flattened (just another circuit for the in-order clause) -----------
        if case.get("flatten"):
            try:
                common.clear_caches()
                with quiet():
                    circuit_c = circuit_b.flatten()
                sc_c = export(circuit_c)
            except Exception as exc:
                res.skipped = "flatten-exception:%s" % type(exc).__name__
                return res
            check_in_order(res, circuit_c, sc_c, "unrolled+flattened", "in-order:flattened")
    if case.get("globals"):
        # outside the override: a fresh circuit of the same program must export identically
        try:
            common.clear_caches()
            with quiet():
                again = build(program)
            got_again = split(export(again))
            if got_again != got_a:
                res.fail("global-durations", CL_GLOBAL, "to_stim", [fmt(x) for x in got_a[:8]], [fmt(x) for x in got_again[:8]])
        except Exception as exc:
            res.skipped = "rebuild-exception:%s" % type(exc).__name__
    if res.sample is None:
        res.sample = {"program": program, "exported": [fmt(x) for x in got_a[:12]], "n_instructions": len(got_a),
                      "n_after_unrolling": len(got_b), "checked": sorted(res.per)}
    return res


def dispatch(case):
    try:
        return run_case(case).as_dict()
    except Exception as exc:  # harness problem: surface it
        return {"case": case, "per": {}, "fails": [], "skipped": "harness-exception:%s" % type(exc).__name__,
                "info": {"trace:" + traceback.format_exc()[-800:]: 1}, "sample": None, "moved": False}


# ------------------------------------------------------------------------------------------------
# Enumeration
# ------------------------------------------------------------------------------------------------
def op(k, q, rel=None, **kw):
    it = {"k": k, "q": list(q)}
    if rel is not None:
        it["rel"] = list(rel)
    it.update(kw)
    return it


def sub(items, reps=1, rel=None):
    it = {"k": "sub", "items": items, "reps": reps}
    if rel is not None:
        it["rel"] = list(rel)
    return it


# reduced alphabet of the exhaustive families
ALPHA = [
    op("Wait", [0], d=2, ch="ALL"), op("Wait", [1], d=0, ch="FL"), op("Wait", [0], d=5, ch="MW"),
    op("Rx180", [0]), op("Hadamard", [1]), op("CPhase", [0, 1]), op("CPhase", [2, 1]),
    op("DispersiveMeasure", [0]), op("DispersiveMeasure", [2]), op("Barrier", [0, 1, 2]),
    op("DetectorOperation", [1], last=0, main=0),
]
ALPHA_SMALL = [ALPHA[i] for i in (0, 3, 5, 7, 9, 10)] + [op("Wait", [1], d=1, ch="FL")]
ALPHA_MEDIUM = ALPHA_SMALL + [ALPHA[4], ALPHA[8]]


def forests(n, d):
    if n == 0:
        yield []
        return
    for m in range(1, n + 1):
        for first in elements(m, d):
            for rest in forests(n - m, d):
                yield [first] + rest


def elements(m, d):
    if m == 1:
        yield "L"
    if d >= 1:
        for f in forests(m, d - 1):
            yield ("S", f)


def instantiate(shape, leaves, rel_types, reps_range):
    """all programs of a shape: leaves taken from the iterator-supplied tuple, every repetition count, every relation of
    every element to every earlier sibling"""
    def rec(forest, pos):
        # returns list of (items, next_pos)
        results = [([], pos)]
        for idx, el in enumerate(forest):
            new = []
            for items, p in results:
                rels = [None] + [(j, t) for j in range(idx) for t in rel_types]
                if el == "L":
                    for r in rels:
                        it = dict(leaves[p])
                        if r is not None:
                            it["rel"] = list(r)
                        new.append((items + [it], p + 1))
                else:
                    for inner, p2 in rec(el[1], p):
                        for reps in reps_range:
                            for r in rels:
                                new.append((items + [sub(inner, reps, r)], p2))
            results = new
        return results
    return [items for items, _ in rec(shape, 0)]


def shape_depth(forest):
    return max([0] + [1 + shape_depth(el[1]) for el in forest if el != "L"])


def exhaustive_programs(level, part=None):
    """quick: 1 leaf in every shape of depth <= 2 (repetitions 1..3) and 2 leaves in every shape of depth <= 1 (repetitions
    1..3) over the alphabet of 11; 2 leaves in every shape of depth 2 (repetitions 1..2) over the alphabet of 7; flat 3-leaf
    programs over the alphabet of 9.
    thorough: <= 2 leaves in every shape of depth <= 2 with repetitions 1..3 and flat 3-leaf programs over the alphabet of 11,
    and every 3-leaf shape of depth <= 1 with repetitions 1..3 over the alphabet of 7.
    part = (i, n): only the (shape, leaves) combinations number i modulo n (the union over i is the whole space)."""
    rel_types = ("F", "S", "E")
    thorough = level == "thorough"

    def combos():
        for n in (1, 2):
            for shape in forests(n, 2):
                deep = n == 2 and shape_depth(shape) == 2
                reps = (1, 2) if (deep and not thorough) else (1, 2, 3)
                alpha = ALPHA_SMALL if (deep and not thorough) else ALPHA
                for leaves in itertools.product(alpha, repeat=n):
                    yield shape, leaves, reps
        for leaves in itertools.product(ALPHA if thorough else ALPHA_MEDIUM, repeat=3):
            yield ["L", "L", "L"], leaves, (1,)
        if thorough:
            for shape in forests(3, 1):
                if shape == ["L", "L", "L"]:
                    continue
                for leaves in itertools.product(ALPHA_SMALL, repeat=3):
                    yield shape, leaves, (1, 2, 3)

    for c, (shape, leaves, reps) in enumerate(combos()):
        if part is not None and c % part[1] != part[0]:
            continue
        for items in instantiate(shape, leaves, rel_types, reps):
            yield {"items": items}


def kind_instance(k, rng=None, nq=3):
    r = rng or random.Random(0)
    q = r.randrange(nq)
    q2 = (q + 1 + r.randrange(nq - 1)) % nq
    if k in SQ_GLOBAL:
        return op(k, [q])
    if k in SQ_FIXED:
        return op(k, [q], d=r.choice([0, 1, 2, 5]), ch=r.choice(["ALL", "MW", "FL"]))
    if k in TQ_GLOBAL:
        return op(k, [q, q2])
    if k in TQ_FIXED:
        return op(k, [q, q2], d=r.choice([0, 1, 2, 5]))
    if k == "DispersiveMeasure":
        return op(k, [q])
    if k == "Barrier":
        return op(k, sorted(r.sample(range(nq), r.randint(1, nq))))
    if k == "CoordinateShiftOperation":
        return op(k, sorted(r.sample(range(nq), r.randint(1, nq))), t=r.choice([0, 1, 2, -1, 7]), s=r.choice([0, 1, 3, -2]))
    if k == "DetectorOperation":
        while True:
            last = r.choice([0, 1, 2, 3, 5, 9])
            it = op(k, [q], last=last, main=r.choice([None] + list(range(last + 1))),
                    sec=r.choice([None, None] + list(range(last + 1))), ref=r.choice([None, None, 0, 1, 2, 3, 4, 6]),
                    soff=r.choice([None, None, 0, 1, 2, 3]))
            if item_is_valid(it):
                return it
    if k == "LogicalObservableOperation":
        # (target-less observables are in the annotation grid only)
        last = r.choice([0, 1, 2, 3, 5, 9])
        return op(k, [q], last=last, main=r.choice(list(range(last + 1))))
    raise ValueError(k)


def family_kinds():
    """every operation kind alone, in a sub-circuit x1..3, in a nested repeated sub-circuit, after/before another"""
    rng = random.Random(8)
    out = []
    for k in ALL_KINDS:
        for rep in range(2):
            a = kind_instance(k, rng)
            out.append({"items": [a]})
            for r in (1, 2, 3):
                out.append({"items": [sub([dict(a)], r)]})
                out.append({"items": [op("Rx90", [0]), sub([dict(a), op("Ry180", [1])], r), op("Hadamard", [0])]})
            out.append({"items": [sub([sub([dict(a)], 2), op("Rxm90", [2])], 3)]})
            out.append({"items": [op("Rym90", [a["q"][0]]), dict(a, rel=[0, "F"]), op("Ry90", [a["q"][0]], rel=[1, "F"])]})
            out.append({"items": [op("Reset", [a["q"][0]]), dict(a, rel=[0, "S"]), op("Identity", [a["q"][0]], rel=[0, "E"])]})
    return out


def family_annotations(thorough):
    """grid over the annotation fields (every target shape, every documented look-back that is a look-back)"""
    out, skipped = [], 0
    lasts = (0, 1, 2, 4) if not thorough else (0, 1, 2, 3, 4, 6)
    refs = (None, 0, 1, 2, 5) if not thorough else (None, 0, 1, 2, 3, 5, 8)
    soffs = (None, 0, 1, 3) if not thorough else (None, 0, 1, 2, 3, 4)
    for last in lasts:
        tg = [None] + list(range(last + 1))
        for main in tg:
            for sec in tg:
                for ref in refs:
                    for soff in soffs:
                        for q in ((1,) if not thorough else (0, 2)):
                            it = op("DetectorOperation", [q], last=last, main=main, sec=sec, ref=ref, soff=soff)
                            if not item_is_valid(it):
                                skipped += 1
                                continue
                            ms = [op("DispersiveMeasure", [i % 3]) for i in range(last + 1)]
                            out.append({"items": ms + [it]})
                            if (last + (main or 0) + (sec or 0)) % 2 == 0 or thorough:
                                out.append({"items": [op("DispersiveMeasure", [0]), sub(ms + [dict(it)], 3),
                                                      op("DispersiveMeasure", [1])]})
    # negative / large offsets that still give look-backs
    for (last, main, sec, ref, soff) in [(3, 0, None, -3, None), (9, 9, 0, 12, -5), (2, 1, 2, 40, 1000), (0, 0, 0, 1, 0),
                                         (5, 2, None, 1000, 7), (1, None, 1, 2, 3), (1, None, None, None, None),
                                         (4, 4, None, None, 2), (4, 0, 3, None, 2)]:
        it = op("DetectorOperation", [2], last=last, main=main, sec=sec, ref=ref, soff=soff)
        if item_is_valid(it):
            out.append({"items": [it]})
            out.append({"items": [sub([sub([dict(it)], 2)], 2)]})
        else:
            skipped += 1
    for last in (None, 0, 1, 2, 5):
        for main in [None] + list(range((last or 0) + 1)):
            for q in (0, 2):
                it = op("LogicalObservableOperation", [q], last=last, main=main)
                ms = [op("DispersiveMeasure", [i % 3]) for i in range((last or 0) + 1)]
                out.append({"items": ms + [it]})
                out.append({"items": [sub(ms + [dict(it)], 2)]})
    for t in (0, 1, 2, -1, 5):
        for s in (0, 1, -3, 4):
            it = op("CoordinateShiftOperation", [0, 1], t=t, s=s)
            out.append({"items": [op("DispersiveMeasure", [0]), it]})
            out.append({"items": [sub([dict(it), op("Barrier", [0, 1])], 3)]})
    return out, skipped


def family_edge():
    out = []
    a, b, m = op("Rx180", [0]), op("Ry90", [1]), op("DispersiveMeasure", [0])
    out.append({"items": []})
    out.append({"items": [sub([], 1)]})
    out.append({"items": [sub([], 3)]})
    out.append({"items": [a, sub([], 2), b]})
    out.append({"items": [a, sub([op("Wait", [0], d=2)], 3), b]})                  # only unsupported inside
    out.append({"items": [sub([sub([sub([sub([dict(a), dict(m)], 2)], 2)], 2)], 2)]})   # depth 4
    out.append({"items": [sub([dict(a), dict(m), op("DetectorOperation", [0], last=0, main=0)], 50)]})  # many repetitions
    out.append({"items": [dict(a), dict(a), dict(a)]})                              # value-equal operations
    out.append({"items": [sub([dict(a)], 2), sub([dict(a)], 2)]})                   # value-equal sub-circuits
    out.append({"items": [sub([dict(a), dict(b)], 2), op("Hadamard", [0], rel=[0, "F"]), op("Hadamard", [1], rel=[0, "S"])]})
    out.append({"items": [dict(a), sub([dict(b), dict(m)], 3, rel=[0, "F"]), sub([dict(m)], 2, rel=[0, "F"])]})
    out.append({"items": [op("LogicalObservableOperation", [0])]})                  # default observable: no target at all
    out.append({"items": [op("DetectorOperation", [0])]})                           # default detector: no target at all
    out.append({"items": [op("Barrier", [])]})
    out.append({"items": [dict(a), op("Barrier", []), dict(b)]})
    out.append({"items": [op("Wait", [0], d=2), op("Wait", [0], d=5, rel=[0, "E"]), dict(a, rel=[1, "S"])]})  # starts before t=0
    out.append({"items": [op("CPhase", [3, 0]), op("CPhase", [0, 3]), op("CPhase", [2, 1])]})
    out.append({"items": [dict(m), op("DispersiveMeasure", [1]), dict(m), op("DetectorOperation", [0], last=2, main=2, ref=2),
                          op("LogicalObservableOperation", [0], last=2, main=1)]})
    # barriers / coordinate shifts with explicit relations inside repeated sub-circuits (their copy drops the link)
    out.append({"items": [sub([dict(a), dict(b), op("Barrier", [0, 1], rel=[0, "F"]), op("Hadamard", [1])], 3)]})
    out.append({"items": [sub([dict(a), dict(b), op("CoordinateShiftOperation", [0, 1], rel=[0, "S"], t=1), dict(m)], 2)]})
    for r in (0,):
        out.append({"items": [dict(a), sub([dict(b), dict(m)], r), op("Hadamard", [0])]})
        out.append({"items": [sub([sub([dict(b)], r), dict(a)], 2)]})
    return out


def random_program(rng, max_items=6, max_depth=2, nq=4):
    budget = [rng.randint(2, max_items)]

    def items(depth, n_max):
        out = []
        n = rng.randint(1, max(1, n_max))
        for i in range(n):
            if budget[0] <= 0:
                break
            rel = None
            if out and rng.random() < 0.45:
                rel = [rng.randrange(len(out)), rng.choice("FSE")]
            if depth < max_depth and rng.random() < 0.3:
                inner = items(depth + 1, 3)
                it = sub(inner, rng.choice([1, 1, 2, 2, 3, 3, 4]))
            else:
                budget[0] -= 1
                pool = ALL_KINDS if rng.random() < 0.6 else list(TABLE)
                it = kind_instance(rng.choice(pool), rng, nq)
            if rel is not None:
                it["rel"] = rel
            out.append(it)
        return out
    return {"items": items(0, max_items)}


def family_library(thorough):
    out = []
    dists = (2, 3, 4) if not thorough else (2, 3, 4, 5)
    cycles = range(0, 6) if not thorough else range(0, 8)
    rng = random.Random(11)
    for d in dists:
        states = [([0] * d, None), ([i % 2 for i in range(d)], [(i + 1) % 2 for i in range(d - 1)])]
        if thorough or d <= 3:
            states.append(([rng.randint(0, 1) for _ in range(d)], [rng.randint(0, 1) for _ in range(d - 1)]))
        for c in cycles:
            for refocus in (True, False):
                for data, anc in (states if (thorough or c <= 4) else states[:1]):
                    out.append({"lib": "full", "desc": {"kind": "chain", "length": 2 * d - 1, "refocus": refocus}, "data": data,
                                "anc": anc, "cycles": c})
            out.append({"lib": "full", "desc": {"kind": "default", "length": 2 * d - 1}, "data": states[1][0], "anc": None,
                        "cycles": c})
            out.append({"lib": "simplified", "desc": {"kind": "default", "length": 2 * d - 1}, "data": states[1][0], "anc": None,
                        "cycles": c})
            out.append({"lib": "simplified", "desc": {"kind": "chain", "length": 2 * d - 1, "refocus": False}, "data": states[0][0],
                        "anc": None, "cycles": c})
    # non-computational initial states (Rx90 / Rxm90 / Ry90 / Rym90 preparation)
    for c in (0, 1, 3):
        out.append({"lib": "full", "desc": {"kind": "default", "length": 5}, "data": ["+", "-i", "-"], "anc": None, "cycles": c})
        out.append({"lib": "full", "desc": {"kind": "default", "length": 3}, "data": ["+i", 1], "anc": None, "cycles": c})
    # Surface-17 sub-chains
    chains = [("Repetition9Code", 8, 13), ("Repetition9Code", 0, 5), ("Repetition9Code", 4, 11), ("Repetition9Round6Code", 2, 9),
              ("Repetition5Round4Code", 0, 5), ("Repetition5Round4Code", 2, 9)]
    if thorough:
        chains += [("Repetition9Code", 0, 17), ("Repetition9Round6Code", 0, 11), ("Repetition5Round4Code", 0, 9),
                   ("Repetition9Code", 6, 9), ("Repetition9Round6Code", 10, 17)]
    for k, (lay, s, e) in enumerate(chains):
        d = (e - s + 1) // 2
        for c in ((0, 1, 2, 4) if not thorough else (0, 1, 2, 3, 4, 6)):
            for reverse in ((False, True) if thorough else (bool((k + c) % 2),)):
                out.append({"lib": "full", "desc": {"kind": "layout", "layout": lay, "start": s, "stop": e, "reverse": reverse,
                                                    "refocus": bool(c % 2)},
                            "data": [rng.randint(0, 1) for _ in range(d)], "anc": None, "cycles": c})
    # multi-round constructor
    rounds = [[0], [1], [2], [0, 1], [3, 1], [2, 4], [1, 0, 2]]
    if thorough:
        rounds += [[5], [4, 4], [0, 0], [3, 5, 1], [2, 1, 0]]
    for k, r in enumerate(rounds):
        spec = [{"kind": "chain", "length": 5, "refocus": True},
                {"kind": "layout", "layout": "Repetition9Code", "start": 8, "stop": 13, "reverse": False, "refocus": True}][k % 2]
        out.append({"lib": "multi", "desc": spec, "data": [0, 1, 0], "anc": None, "rounds": r})
    return out


def canon(program):
    return hashlib.blake2b(json.dumps(program, sort_keys=True).encode(), digest_size=8).digest()


# ------------------------------------------------------------------------------------------------
# Jobs
# ------------------------------------------------------------------------------------------------
_DEADLINE = [None]


def case_of(program, i, flatten_every=4):
    g = None
    if i % 7 == 3:
        g = "A"
    elif i % 7 == 5:
        g = "B"
    return {"program": program, "globals": g, "flatten": (i % flatten_every == 0), "direct": (i % 5 == 0)}


def job_cases(job):
    fam = job["family"]
    if fam == "exhaustive":
        for i, p in enumerate(exhaustive_programs(job["level"], (job["i"], job["n"]))):
            yield case_of(p, i + job["i"], 6)
    elif fam == "random":
        rng = random.Random(job["seed"] * 1000003 + job["i"])
        for i in range(job["count"]):
            p = random_program(rng, max_items=job["max_items"], max_depth=job["max_depth"])
            yield case_of(p, i, 3)
    elif fam == "list":
        for i, p in enumerate(job["programs"]):
            c = case_of(p, i + job.get("offset", 0), 2)
            if "lib" in p:
                c["flatten"] = p["lib"] != "multi" and (i % 2 == 0)
                c["direct"] = True
            yield c


def witness_size(f):
    p = f["witness"].get("program", {})
    return ("lib" in p, len(json.dumps(p)), json.dumps(f["witness"], sort_keys=True))


def run_job(job):
    L()
    agg = {"per": collections.Counter(), "fails": {}, "skipped": collections.Counter(), "info": collections.Counter(),
           "distinct": set(), "samples": [], "cases": 0, "family": job["family"], "complete": True, "traces": [],
           "moved_example": None}
    for case in job_cases(job):
        if _DEADLINE[0] is not None and time.time() > _DEADLINE[0]:
            agg["complete"] = False
            agg["skipped"]["time-budget-exhausted"] += 1
            continue
        r = dispatch(case)
        agg["cases"] += 1
        for k, v in r["per"].items():
            agg["per"][k] += v
        for k, v in r["info"].items():
            if k.startswith("trace:"):
                if len(agg["traces"]) < 2:
                    agg["traces"].append(k)
            else:
                agg["info"][k] += v
        if r["skipped"]:
            agg["skipped"][r["skipped"]] += 1
        for f in r["fails"]:
            old = agg["fails"].get(f["key"])
            if old is None or witness_size(f) < witness_size(old):
                agg["fails"][f["key"]] = f
        if r.get("moved") and (agg["moved_example"] is None or
                               len(json.dumps(case["program"])) < len(json.dumps(agg["moved_example"]))):
            agg["moved_example"] = case["program"]
        if r["per"] and nontrivial(case["program"]):
            agg["distinct"].add(canon(case["program"]))
        if r["sample"] is not None and len(agg["samples"]) < 2 and nontrivial(case["program"]) and agg["cases"] % 97 == 1:
            agg["samples"].append(r["sample"])
    agg["per"], agg["skipped"], agg["info"] = dict(agg["per"]), dict(agg["skipped"]), dict(agg["info"])
    return agg


def _init_worker(deadline):
    _DEADLINE[0] = deadline
    warnings.filterwarnings("ignore")


def make_jobs(tier, seed):
    thorough = tier == "thorough"
    jobs = []
    n_exh = 48 if not thorough else 160
    for i in range(n_exh):
        jobs.append({"family": "exhaustive", "level": tier, "n": n_exh, "i": i})
    n_rand_jobs = 32 if not thorough else 96
    per = 250 if not thorough else 1500
    for i in range(n_rand_jobs):
        jobs.append({"family": "random", "seed": seed, "i": i, "count": per, "max_items": 6 if i % 4 else 9,
                     "max_depth": 2 if (i % 3 or not thorough) else 3})
    ann, ann_skipped = family_annotations(thorough)
    lists = [("kinds", family_kinds()), ("annotations", ann), ("edge", family_edge())]
    for name, progs in lists:
        chunk = 150
        for s in range(0, len(progs), chunk):
            jobs.append({"family": "list", "name": name, "programs": progs[s:s + chunk], "offset": s})
    libs = family_library(thorough)
    libs.sort(key=lambda p: -(p["desc"].get("length", p["desc"].get("stop", 0) - p["desc"].get("start", 0)) *
                              (1 + (sum(p["rounds"]) + len(p["rounds"]) if "rounds" in p else p["cycles"]))))
    chunk = 4
    lib_jobs = [{"family": "list", "name": "library", "programs": libs[s::max(1, len(libs) // chunk)], "offset": s}
                for s in range(max(1, len(libs) // chunk))]
    # cheap dedicated families and the library first; the exhaustive space before the second half of the random programs
    is_list = [j for j in jobs if j["family"] == "list"]
    is_exh = [j for j in jobs if j["family"] == "exhaustive"]
    is_rand = [j for j in jobs if j["family"] == "random"]
    h = len(is_rand) // 2
    jobs = is_list + lib_jobs + is_rand[:h] + is_exh + is_rand[h:]
    return jobs, {"annotation_grid_not_lookback": ann_skipped, "library_cases": len(libs)}


# ------------------------------------------------------------------------------------------------
# Probes
# ------------------------------------------------------------------------------------------------
def run_probes(res):
    lib = L()
    stim = lib.stim
    import numpy as np
    # (1) the transcribed table names the gates the operation names mean (closed-form rotations, up to a global phase)
    X = np.array([[0, 1], [1, 0]], dtype=complex)
    Y = np.array([[0, -1j], [1j, 0]], dtype=complex)
    I2 = np.eye(2, dtype=complex)

    def rot(P, theta):
        return np.cos(theta / 2) * I2 - 1j * np.sin(theta / 2) * P
    closed = {"Identity": I2, "Hadamard": np.array([[1, 1], [1, -1]], dtype=complex) / np.sqrt(2),
              "Rx180": rot(X, np.pi), "Rx90": rot(X, np.pi / 2), "Rxm90": rot(X, -np.pi / 2),
              "Ry180": rot(Y, np.pi), "Ry90": rot(Y, np.pi / 2), "Rym90": rot(Y, -np.pi / 2),
              "CPhase": np.diag([1, 1, 1, -1]).astype(complex)}
    ok, bad = True, []
    for kind, U in closed.items():
        V = stim.Tableau.from_named_gate(TABLE[kind]).to_unitary_matrix(endian="little")
        k = int(np.argmax(np.abs(U.ravel()) > 1e-9))
        ph = V.ravel()[k] / U.ravel()[k]
        if not (abs(abs(ph) - 1) < 1e-6 and np.allclose(V, ph * U, atol=1e-6)):
            ok = False
            bad.append(kind)
    res.probes.append({"assumption": "the transcribed table maps every rotation / Hadamard / CZ operation to the Stim gate with the "
                                     "closed-form unitary of its name (Stim tableau vs numpy, up to global phase); R resets, M measures",
                       "ok": ok, "detail": bad})
    # (2) Stim contracts the harness relies on
    c = stim.Circuit()
    c.append(stim.CircuitInstruction("M", [0]))
    c.append(stim.CircuitInstruction("M", [1]))
    c.append(stim.CircuitInstruction("CZ", [1, 0]))
    c.append(stim.CircuitInstruction("CZ", [1, 2]))
    c.append(stim.CircuitInstruction("SHIFT_COORDS", [], [0.0, 1.0]))
    c.append(stim.CircuitInstruction("DETECTOR", [stim.target_rec(-1), stim.target_rec(-2)], [1, 0]))
    r = stim.Circuit()
    r += c * 2
    r += c * 1
    r += c * 0
    got = split(r)
    want = [("M", (), (0,)), ("M", (), (1,)), ("CZ", (), (1, 0)), ("CZ", (), (1, 2)), ("SHIFT_COORDS", (0.0, 1.0), ()),
            ("DETECTOR", (1.0, 0.0), (-1, -2))] * 3
    res.probes.append({"assumption": "Stim fuses adjacent equal gates, `circuit * n` is a REPEAT block (n>=2), the circuit (n=1) or "
                                     "empty (n=0); own expansion + splitting recovers one instruction per target group, in order, "
                                     "SHIFT_COORDS kept", "ok": got == want and len(list(r)) < len(want)})
    # (3) the table of the code under test has exactly the transcribed keys (drift detector, not an oracle)
    try:
        keys = sorted(t.__name__ for t in lib.StimFactoryManager().supported_factories)
        res.probes.append({"assumption": "the exporter's table has exactly the 15 transcribed operation types",
                           "ok": keys == sorted(TABLE), "detail": [k for k in keys if k not in TABLE] + [k for k in TABLE if k not in keys]})
    except Exception as exc:
        res.probes.append({"assumption": "the exporter's table has exactly the 15 transcribed operation types", "ok": False,
                           "detail": repr(exc)})
    # (4) own listing walk == the library's node iterator on a sample (the walk is the oracle; this only shows agreement)
    rng = random.Random(5)
    agree = True
    for _ in range(40):
        with quiet():
            circ = build(random_program(rng))
        s = circ.circuit_structure
        if [id(n) for n in listing_nodes(s)] != [id(n) for n in s._circuit_graph.get_node_iterator()]:
            agree = False
    res.probes.append({"assumption": "own breadth-first walk over the pointer fields visits the nodes in the order of the library's "
                                     "node iterator (40 random programs)", "ok": agree})


# ------------------------------------------------------------------------------------------------
# Main
# ------------------------------------------------------------------------------------------------
STAND_INS = [
    ("in-order:as-built", "StimCircuitFactoryManager.construct / to_stim (circuit as built)", CL_ORDER),
    ("in-order:unrolled", "to_stim after apply_modifiers()", CL_ORDER),
    ("in-order:flattened", "to_stim after apply_modifiers().flatten()", CL_ORDER),
    ("program-multiset", "StimCircuitFactoryManager.construct (block * repetitions)", CL_PROGRAM),
    ("unroll", "to_stim o apply_modifiers", CL_UNROLL),
    ("library-identity", "to_stim o apply_modifiers on repetition-code constructors", CL_IDENT),
    ("library-annotations", "DetectorOperation / LogicalObservableOperation.to_stim_instruction on library circuits", CL_IDENT),
    ("stim-counters", "to_stim", CL_STIM),
    ("global-durations", "to_stim", CL_GLOBAL),
    ("composite-direct", "StimFactoryManager.construct(ICircuitCompositeOperation)", CL_COMPOSITE),
]


def main(argv=None):
    args = common.parse_args(argv)
    if args.replay:
        return replay(args.replay)
    tier = args.tier if args.tier in ("quick", "thorough") else "quick"
    res = common.Result(PROP)
    budget = 50.0 if tier == "quick" else 540.0
    deadline = time.time() + budget
    L()
    run_probes(res)
    jobs, extra = make_jobs(tier, args.seed)
    nproc = min(16, os.cpu_count() or 1)
    ctx = mp.get_context("fork")
    per, info = collections.Counter(), collections.Counter()
    complete = {"exhaustive": True}
    traces = []
    moved_example = None
    cases = collections.Counter()
    with ctx.Pool(nproc, initializer=_init_worker, initargs=(deadline,)) as pool:
        for agg in pool.imap_unordered(run_job, jobs, chunksize=1):
            for k, v in agg["per"].items():
                per[k] += v
            for k, v in agg["info"].items():
                info[k] += v
            for k, v in agg["skipped"].items():
                res.skipped[k] = res.skipped.get(k, 0) + v
            for f in agg["fails"].values():
                old = res.failures.get(f["key"])
                if old is None or witness_size(f) < witness_size(old):
                    res.failures[f["key"]] = f
            res.distinct |= agg["distinct"]
            res.samples.extend(agg["samples"][:1] if len(res.samples) < 8 else [])
            cases[agg["family"]] += agg["cases"]
            traces.extend(agg["traces"])
            if agg["moved_example"] is not None and (moved_example is None or
                                                     len(json.dumps(agg["moved_example"])) < len(json.dumps(moved_example))):
                moved_example = agg["moved_example"]
            if not agg["complete"] and agg["family"] == "exhaustive":
                complete["exhaustive"] = False
    if extra["annotation_grid_not_lookback"]:
        res.skipped["annotation-grid-point-whose-documented-offset-is-not-a-look-back"] = extra["annotation_grid_not_lookback"]
    res.evaluations = int(sum(per.values()))
    res.exhaustive = bool(complete["exhaustive"]) and "time-budget-exhausted" not in res.skipped
    a11 = ("A11 = {Wait(q0,ALL,2), Wait(q1,FLUX,0), Wait(q0,MW,5), Rx180(q0), Hadamard(q1), CPhase(0,1), CPhase(2,1), M(q0), M(q2), "
           "Barrier[0,1,2], Detector(q1,main)}; A7 = {Wait(q0,ALL,2), Rx180(q0), CPhase(0,1), M(q0), Barrier[0,1,2], "
           "Detector(q1,main), Wait(q1,FLUX,1)}; A9 = A7 + {Hadamard(q1), M(q2)}")
    if tier == "thorough":
        exh_desc = ("every build program with <= 2 leaf operations in every nesting shape of depth <= 2 (repetition counts 1..3) and "
                    "every flat 3-operation program over A11; every 3-operation program in every nesting shape of depth <= 1 "
                    "(repetition counts 1..3) over A7; always every relation type F/S/E of every element (operation or sub-circuit) to "
                    "every earlier sibling; " + a11)
    else:
        exh_desc = ("every build program with 1 leaf operation in every nesting shape of depth <= 2 and with 2 leaf operations in "
                    "every shape of depth <= 1 (repetition counts 1..3) over A11; with 2 leaf operations in every shape of depth 2 "
                    "(repetition counts 1..2) over A7; every flat 3-operation program over A9; always every relation type F/S/E of "
                    "every element (operation or sub-circuit) to every earlier sibling; " + a11)
    res.rule = ("EXHAUSTIVE: " + exh_desc + ". THEN: every operation kind (%d kinds, %d unsupported by the exporter) alone / in "
                "repeated / nested sub-circuits / with relations; a grid over the annotation fields (detector: last x main x secondary "
                "x reference_offset x secondary_offset, all five target shapes + fallback, only points whose documented offsets are "
                "look-backs; observable; coordinate shift) at top level and inside REPEAT blocks; edge programs (empty / zero-repetition "
                "/ depth-4 / 50-fold sub-circuits, value-equal operations, barriers with explicit relations in repeated blocks); "
                "seeded-random programs (seed %d) with <= 6 (a quarter: <= 9) operations over ALL kinds, qubits <= 4, depth <= %d, "
                "repetitions 1..4; library circuits (construct_repetition_code_circuit, _simplified, _multi_round: %d inputs). Every "
                "program is exported as built, after apply_modifiers() and (a fraction) after flatten(); 2 of 7 under non-default "
                "global durations. A program is non-trivial if it has >= 1 supported operation and >= 1 relation, sub-circuit or "
                "annotation; distinct = distinct canonical JSON programs. cases per family: %s; programs whose instruction order "
                "changes by unrolling (allowed by the statement, multiset equal): %d"
                % (len(ALL_KINDS), len(UNSUPPORTED), args.seed, 3 if tier == "thorough" else 2, extra["library_cases"],
                   dict(cases), info.get("order-changed-by-unrolling", 0)))
    bounds = {
        "in-order:as-built": "all families above",
        "in-order:unrolled": "all families above, after apply_modifiers()",
        "in-order:flattened": "a fixed fraction (1/2 .. 1/6) of every family, after apply_modifiers().flatten()",
        "program-multiset": "all generated (non-library) programs",
        "unroll": "all families above",
        "library-identity": "%d library inputs (distances 2..%d, cycles 0..%d, chain / default / Surface-17 sub-chain descriptions, "
                            "refocusing on/off, multi-round lists)" % (extra["library_cases"], 5 if tier == "thorough" else 4,
                                                                         7 if tier == "thorough" else 5),
        "library-annotations": "same library inputs",
        "stim-counters": "every export",
        "global-durations": "2 of 7 cases (settings A, B)",
        "composite-direct": "1 of 5 cases and every library input",
    }
    for key, fn, contract in STAND_INS:
        res.stand_ins.append({"function": fn, "contract": contract, "bound": bounds[key], "evaluations": int(per.get(key, 0))})
        if per.get(key, 0) == 0:
            res.skipped["stand-in-without-evaluations:" + key] = 1
    res.samples = res.samples[:6]
    if moved_example is not None:
        res.samples.append({"observation (not a failure: the statement claims only the multiset for generated programs)":
                            "after apply_modifiers() the instruction order differs and an annotation's rec[-k] resolves to a "
                            "different measurement (qubit, occurrence)", "program": moved_example,
                            "count": info.get("annotation-points-elsewhere-after-unrolling", 0)})
    if traces:
        res.samples.append({"harness_traces": traces[:3]})
    out = res.write(args.out)
    print(json.dumps({"evaluations": out["evaluations"], "distinct_nontrivial": out["distinct_nontrivial"],
                      "exhaustive": out["exhaustive"], "failures": [f["key"] for f in out["failures"]],
                      "skipped": out["skipped"], "wall_s": out["wall_s"],
                      "probes_ok": all(p["ok"] for p in out["probes"])}, indent=1))
    return 0


def replay(path):
    rec, ra = common.load_replay(path)
    case = ra.get("case") if isinstance(ra, dict) and "case" in ra else None
    if case is None:
        w = rec.get("witness", ra)
        case = {"program": w["program"], "globals": w.get("globals"), "flatten": w.get("flatten", True), "direct": w.get("direct", True)}
    L()
    r = dispatch(case)
    key = rec.get("key") or rec.get("id") or rec.get("obligation")
    print("case:", json.dumps(case))
    print("evaluations:", r["per"], "skipped:", r["skipped"])
    for f in r["fails"]:
        print("FAILS %s\n  clause: %s\n  observed: %s\n  required: %s" % (f["key"], f["clause"], json.dumps(f["observed"], default=str),
                                                                        json.dumps(f["required"], default=str)))
    still = [f for f in r["fails"] if key is None or f["key"] == key]
    if r["skipped"] and str(r["skipped"]).startswith("harness"):
        print("harness problem:", r["info"])
        return 2
    if still:
        print("VIOLATION property=%s replay=%s" % (PROP, path))
        return 1
    print("holds on this input (recorded key %s not reproduced)" % key)
    return 0


if __name__ == "__main__":
    sys.exit(main())
