#!/venv/bin/python
"""Bounded stand-in for C12: experiment-level index kernels (numpy slicing, translation, estimate).

The per-kernel getters, the chaining constructor and estimate_experiment_repetitions are under deductive contracts
(contracts/c12.py).  This module evaluates the same property on real objects for the parts that go through numpy
(create_sliced_array(s), the five cycle / calibration getters) and end-to-end, against closed forms computed here."""
import itertools, sys, os, json
sys.path.insert(0, os.path.dirname(os.path.dirname(os.path.abspath(__file__))))
from bounded import common
import numpy as np


def lib():
    from qce_circuit.structure.acquisition_indexing.kernel_repetition_code import RepetitionExperimentKernel
    from qce_circuit.structure.acquisition_indexing.intrf_stabilizer_index_kernel import StateKey
    from qce_circuit.connectivity.intrf_channel_identifier import QubitIDObj
    return RepetitionExperimentKernel, StateKey, QubitIDObj


def expected(rounds, h, reps):
    """closed forms: per kernel (start, length); cycle length; category index sets for ancilla / data within one cycle"""
    hh = 1 if h else 0
    pos, ks = 0, []
    for r in rounds:
        ln = hh + max(0, r - 1) + 1
        ks.append((pos, ln, r))
        pos += ln
    cal_start = pos
    L = pos + 3 * hh + 3
    return ks, cal_start, L


def flat(a):
    return [int(x) for x in np.asarray(a).reshape(-1)] if np.asarray(a).size else []


def check_case(res, rounds, h, calib, reps):
    REK, StateKey, Q = lib()
    data, anc, foreign = [Q("D1"), Q("D2")], [Q("Z1")], Q("X9")
    wit = {"rounds": list(rounds), "heralded": h, "calibration_flag": calib, "repetitions": reps}
    k = REK(rounds=list(rounds), heralded_initialization=h, qutrit_calibration_points=calib,
            involved_data_qubit_ids=data, involved_ancilla_qubit_ids=anc, experiment_repetitions=reps)
    ks, cal_start, L = expected(rounds, h, reps)
    hh = 1 if h else 0
    res.evaluations += 1
    res.distinct.add((tuple(rounds), h, calib, reps))
    F = "RepetitionExperimentKernel"
    # 1. chain: contiguous, non overlapping
    kernels = k.indexing_kernels
    for j, (s, ln, r) in enumerate(ks):
        if (kernels[j].start_index, kernels[j].stop_index, kernels[j].kernel_length) != (s, s + ln - 1, ln):
            res.fail("C12:chain:kernel-range", "kernel j occupies [sum of previous lengths, +length-1]", F + ".__init__", dict(wit, kernel=j),
                     [kernels[j].start_index, kernels[j].stop_index], [s, s + ln - 1])
    if (kernels[-1].start_index, kernels[-1].stop_index) != (cal_start, L - 1):
        res.fail("C12:chain:calibration-range", "calibration kernel follows the last repetition kernel", F + ".__init__", wit,
                 [kernels[-1].start_index, kernels[-1].stop_index], [cal_start, L - 1])
    if k.kernel_cycle_length != L:
        res.fail("C12:cycle-length", "cycle length = sum of kernel lengths + calibration", F + ".kernel_cycle_length", wit, k.kernel_cycle_length, L)
    # 2. experiment-level getters = translates of the per-cycle closed forms
    covered = {"anc": [], "data": []}
    for (s, ln, r) in ks:
        for who, q in (("anc", anc[0]), ("data", data[1]), ("foreign", foreign)):
            her = [s] if (h and who != "foreign") else []
            stab = [s + hh + j for j in range(max(0, r - 1))] if who == "anc" else []
            fin = [] if who == "foreign" or (who == "anc" and r == 0) else [s + hh + max(0, r - 1)]
            exp = {"heralded": her, "stab+proj": stab + fin, "proj": fin}
            got = {"heralded": k.get_heralded_cycle_acquisition_indices(q, r),
                   "stab+proj": k.get_stabilizer_and_projected_cycle_acquisition_indices(q, r),
                   "proj": k.get_projected_cycle_acquisition_indices(q, r)}
            for name in exp:
                want = [x + i * L for i in range(reps) for x in exp[name]]
                res.evaluations += 1
                if flat(got[name]) != want:
                    res.fail(f"C12:cycle-getter:{name}:{who}", "indices are the closed form translated by repetition * cycle length",
                             F + ".get_*_cycle_acquisition_indices", dict(wit, qubit=who, cycle_rounds=r, getter=name), flat(got[name])[:12], want[:12])
            if who in covered:
                covered[who] += [x + i * L for i in range(reps) for x in her + stab + fin]
    for who, q in (("anc", anc[0]), ("data", data[1])):
        for si, state in enumerate([StateKey.STATE_0, StateKey.STATE_1, StateKey.STATE_2]):
            her = [cal_start + si * (hh + 1)] if h else []
            proj = [cal_start + si * (hh + 1) + hh]
            gh = flat(k.get_heralded_calibration_acquisition_indices(q, state))
            gp = flat(k.get_projected_calibration_acquisition_indices(q, state))
            res.evaluations += 2
            if gh != [x + i * L for i in range(reps) for x in her]:
                res.fail(f"C12:calibration-getter:heralded", "heralded calibration indices", F + ".get_heralded_calibration_acquisition_indices",
                         dict(wit, qubit=who, state=si), gh[:12], [x + i * L for i in range(reps) for x in her][:12])
            if gp != [x + i * L for i in range(reps) for x in proj]:
                res.fail(f"C12:calibration-getter:projected", "projected calibration indices", F + ".get_projected_calibration_acquisition_indices",
                         dict(wit, qubit=who, state=si), gp[:12], [x + i * L for i in range(reps) for x in proj][:12])
            covered[who] += [x + i * L for i in range(reps) for x in her + proj]
    # 3. tiling: for an ancilla all indices of [0, reps*L) exactly once, except the missing final slot of 0-round kernels
    missing = [s + hh + i * L for (s, ln, r) in ks if r == 0 for i in range(reps)]
    want = sorted(set(range(reps * L)) - set(missing))
    if sorted(covered["anc"]) != want:
        res.fail("C12:tiling:ancilla", "categories of an ancilla tile [0, repetitions*cycle) once, minus the 0-round slot", F, wit,
                 sorted(covered["anc"])[:20], want[:20])
    if sorted(covered["data"]) != sorted(set(covered["data"])) or not set(covered["data"]) <= set(range(reps * L)):
        res.fail("C12:tiling:data", "categories of a data qubit are disjoint and inside the range", F, wit, sorted(covered["data"])[:20], None)
    # 4. the estimate inverts dataset size = repetitions x cycle length (of the kernel that describes the experiment)
    res.evaluations += 1
    try:
        est = REK.estimate_experiment_repetitions(rounds=list(rounds), heralded_initialization=h, qutrit_calibration_points=calib,
                                                  dataset_size=reps * k.kernel_cycle_length)
    except AssertionError as e:
        est = f"AssertionError"
    if est != reps:
        cls = "calibration-flag-off" if not calib else "calibration-flag-on"
        res.fail(f"C12:estimate-inverse:{cls}", "estimate(rounds, h, c, repetitions * kernel_cycle_length) == repetitions",
                 F + ".estimate_experiment_repetitions", wit, est, reps)
    return wit


def cases(tier):
    vals = range(0, 6)
    maxlen = 3 if tier == "quick" else 4
    for n in range(1, maxlen + 1):
        for combo in itertools.permutations(vals, n):
            yield combo


def main():
    a = common.parse_args()
    res = common.Result("C12")
    if a.replay:
        rec, args = common.load_replay(a.replay)
        check_case(res, args["rounds"], args["heralded"], args["calibration_flag"], args["repetitions"])
        key = rec.get("id") or rec.get("key")
        hit = [f for f in res.failures.values() if f["key"] == key]
        for f in hit:
            print("observed:", f["observed"], "required:", f["required"])
        if hit:
            print(f"VIOLATION property=C12 replay={a.replay}")
            sys.exit(1)
        print("clause holds on the recorded input")
        sys.exit(0)
    n = 0
    for rounds in cases(a.tier):
        for h in (False, True):
            for calib in (True, False):
                for reps in ((1, 3) if a.tier == "quick" else (1, 2, 3)):
                    w = check_case(res, rounds, h, calib, reps)
                    n += 1
                    if n % 997 == 1:
                        res.samples.append({"input": w, "checked": "chain ranges, cycle getters x3 qubits, calibration getters, tiling, estimate inverse"})
    res.rule = (f"all ordered lists of 1..{3 if a.tier=='quick' else 4} distinct round counts from 0..5 x heralded x calibration flag x repetitions; "
                "non-trivial = every case (each has >= 2 kernels incl. calibration); distinct = distinct (rounds, heralded, flag, repetitions)")
    res.exhaustive = True
    res.stand_ins = [{"function": "RepetitionExperimentKernel cycle/calibration getters, create_sliced_array(s)", "contract": "indices == closed form + r*L", "bound": res.rule, "evaluations": res.evaluations},
                     {"function": "RepetitionExperimentKernel.estimate_experiment_repetitions (end to end with the kernel's own cycle length)", "contract": "estimate(..., reps*L) == reps", "bound": res.rule, "evaluations": n}]
    res.probes = [{"assumption": "numpy: scalar + asarray(range(1,4)) is element-wise", "ok": bool((2 + np.asarray(range(1, 4)) == np.array([3, 4, 5])).all())},
                  {"assumption": "numpy: asarray(list) keeps order", "ok": list(np.asarray([3, 1, 2])) == [3, 1, 2]}]
    res.write(a.out)


if __name__ == "__main__":
    main()
